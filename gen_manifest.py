#!/usr/bin/env python3
"""Generates MANIFEST.json. Edit BUILT / texts here, run, commit."""
import json
BUILT = {
 "C18": dict(level="exploration", technique="bounded-exhaustive enumeration of layer stacks against a reference union model (small-scope model checking of a sequential API)",
   text="Every stack of up to 3 (thorough: 4) layers over a 36-configuration layer table, nil layers in every position, every query of the path universe, compared with a reference model. Exhaustive within the bound; the overlay has no state beyond its layer list, so a small scope covers its logic.",
   note="Trusts testing/fstest.MapFS and the reference model (checks/c18.go). Access below a name that is a file in an upper layer and a directory in a lower one, malformed glob patterns and the listing of an overlay of only nil layers (pinned by a unit test) are unconstrained.",
   ref="DESIGN.md §3 C18"),
}
ALL = ["C%02d" % i for i in range(1, 21)]
checks = []
for pid in ALL:
    if pid not in BUILT: continue
    b = BUILT[pid]
    checks.append({
        "property_id": pid,
        "quick_cmd": "./check %s quick" % pid,
        "thorough_cmd": "./check %s thorough" % pid,
        "evidence_file": "evidence/%s.json" % pid,
        "replay_cmd_template": "./check replay {path}",
        "engine": b.get("engine", "enum"),
        "level_claimed": {"category": b["level"], "text": b["text"], "design_ref": b["ref"]},
        "level_note": b["note"],
        "technique": b["technique"],
    })
m = {
 "version": 1,
 "setup_cmd": "./setup.sh",
 "hooks": {
   "guard": "verif",
   "enable": "no source hooks: ./check regenerates a `go build -overlay` from /repo's current tree with cmd/vinstr (sync/time import rewrite, map-range rewrite) on every call",
   "baseline_off_cmd": "cd /repo && GOFLAGS=-mod=mod go test -json -vet=off -count=1 -timeout 25m ./...",
   "source_commits": [],
   "add_only": True,
 },
 "engines": [
   {"name": "enum", "path": "engine/core", "serves_properties": [c["property_id"] for c in checks if c["engine"] == "enum"],
    "kind_free_text": "bounded-exhaustive enumeration sharded over 16 worker subprocesses with per-case crash/hang attribution"},
 ],
 "checks": checks,
 "not_applicable": [{"property_id": p, "reason": "check not built yet (work in progress; see DESIGN.md §7)"} for p in ALL if p not in BUILT],
 "notes": "All checks are run through ./check, which rebuilds instrumentation and binary from /repo's working tree. known_findings.jsonl lists recorded defects by signature.",
}
json.dump(m, open("MANIFEST.json", "w"), indent=1)
print("checks:", len(checks), "not_applicable:", len(m["not_applicable"]))
