#!/usr/bin/env python3
"""Generates MANIFEST.json. Edit BUILT / texts here, run, commit."""
import json
BUILT = {
 "C11": dict(level="exploration", technique="bounded-exhaustive enumeration of wrong-typed values x directive positions, include graphs (all cycle shapes) and hostile token-string sources, in isolated worker subprocesses with panic recovery, stack cap and CPU-time watchdog",
   text="45 directive positions x 38 Go values of every kind through two entry points; all include graphs over 3 files with up to 2 edges per file in up to 6 inclusion modes (must return, with an error iff a cycle is reachable); every token string of length <=3 (thorough 4) over a 20-token alphabet as template source through 3 entry points and as front-matter. Each case runs under recover(), a 64 MiB stack cap and a CPU-time budget in a worker whose death is attributed to the case in flight.",
   note="Trusts the worker isolation in engine/core (crash and hang attribution by a progress slot). Panics inside user-registered functions and cyclic maps/slices are out of scope. Layout cycles are C07's.",
   ref="DESIGN.md §3 C11"),
 "C12": dict(level="fault_enumeration", engine="enum", technique="exhaustive fault-position enumeration: a destination writer failing at every byte offset (two failure styles) and a cancelled context, for every catalogue program and entry point",
   text="31 catalogue programs (succeeding and failing early, late, inside an include, inside a layout) x 5 entry points x {healthy recording writer, cancelled context, writer refusing / short-writing at every byte offset of the reference output}. Error => nothing written; nil => exactly the reference bytes; any writer failure => non-nil error.",
   note="Trusts the catalogue (checks/catalog.go). Writers that return n < len(p) with a nil error are out of scope. The reference bytes are the implementation's own output into a bytes.Buffer.",
   ref="DESIGN.md §3 C12"),
 "C10": dict(level="model_checking", engine="bfs", technique="deviation-bounded exhaustive exploration of map iteration orders (seam decided by the explorer) and of render histories on one engine, differential against the default-order fresh-engine run",
   text="Every map iteration of the vuego module is routed through a seam; for each of 31 catalogue programs every execution with <=1 (thorough <=2) deviating iteration occurrences (all permutations for <=4 keys, reversal and rotations above) and two global orders must reproduce the bytes of the ascending-order run. Every ordered pair (thorough: triple) of programs on one engine: last render equals the fresh-engine render and carries no canary of an earlier one. Caller data deep-equal before/after through 4 entry points; frozen and backwards clocks.",
   note="Trusts cmd/vinstr to find every range-over-map / MapKeys site by type (25 sites today) and the seam packages. Map iteration inside dependencies is not controlled. The reference is the implementation's own default-order, fresh-engine output: no hand-written expectation.",
   ref="DESIGN.md §3 C10"),
 "C07": dict(level="exploration", technique="exhaustive enumeration of layout graphs over a bounded file set plus boundary-length chains and cycles, against a reference resolver",
   text="All layout graphs over page (root or pages/), layouts/a, layouts/b, optional layouts/base and an optional relative twin pages/a, every file's layout key over {none,a,b,base,self,missing}, page key from front-matter or Fill (9.5k graphs); straight chains of 1..150 (thorough ..300) links around the limit of 100; cycles of length 1,2,3,7; all 16 subsets of sources defining a colliding data key. Expected nesting order with each marker once, or an error with nothing written.",
   note="Trusts the reference resolver in checks/c07.go. A chain of exactly 100 links may succeed or fail.",
   ref="DESIGN.md §3 C07"),
 "C08": dict(level="model_checking", engine="bfs", technique="explicit-state search over Fill/Assign/New/Load histories replayed on the real templates with a layered reference model; exhaustive presence-pattern product",
   text="History part: depth-bounded explicit-state search (depth 4 quick, 6 thorough) over 8 operations on a tree of up to 3 templates; every state is reached by replaying its history on a fresh engine, every live template is observed (file render, string render, Get) after every step and compared with a layered reference model, and non-target templates must be unchanged (isolation). Presence part: all 2^5 source subsets x call orders x Fill datum kinds x name kinds x value types x read positions x entry points.",
   note="Trusts the reference model in checks/c08.go. Keys not mentioned by a later Fill, nil struct fields, and Get after an explicit Assign over loaded front-matter are unconstrained. Go-field-name addressing of Fill structs is a recorded finding.",
   ref="DESIGN.md §3 C08"),
 "C06": dict(level="exploration", technique="bounded-exhaustive product over slot sets, supply forms, content kinds and instance arrangements against expected content per slot position",
   text="A header/default/footer component used by includers supplying every subset of its slots in every syntactic form x 4 content kinds x 4 instance arrangements; scoped slots through 4 components x 4 consumer forms; the same slot used twice; 5 nested-component arrangements; layout-inherited slots. Expected text and bound attributes at each slot position.",
   note="Trusts the expected-content construction in checks/c06.go. Whitespace around spliced nodes is insignificant. Nesting depth 2, at most 2 instances side by side.",
   ref="DESIGN.md §3 C06"),
 "C05": dict(level="exploration", technique="bounded-exhaustive product of prop forms, collisions, :required spellings, include shapes and shorthand against a reference scope model",
   text="17 forms of prop a (omitted, static, interpolated, bound to 11 typed values, v-bind:) x 3 forms of prop b x includer collision x front-matter collision x 5 :required spellings x 4 shapes (single, twice, in v-for, nested) x explicit/shorthand: values and Go types printed inside the component, what the includer's following content sees, error iff a required name is missing (naming it, with no output), shorthand byte-identical.",
   note="Trusts the scope model in checks/c05.go. A required name visible from the includer or the front-matter without being passed, and bindings of nil/undefined, are unconstrained. Include depth <= 2.",
   ref="DESIGN.md §3 C05"),
 "C03": dict(level="exploration", technique="bounded-exhaustive enumeration of sibling chains x separators x placements against a reference chain evaluator; value x reach x consumer truthiness table",
   text="Every sibling list of length <=5 (thorough: <=6) over {plain, v-if T/F, v-else-if T/F, v-else} x 4 separators x 6 placements, against a 40-line reference chain evaluator; 46 Go values x 3 ways of reaching them x 6 truthiness consumers against the documented table and against each other.",
   note="Trusts the reference evaluator in checks/c03.go. Orphan v-else/v-else-if and members after v-else are unconstrained apart from the plain siblings; typed nil pointers, NaN and the string \"false\" (pinned falsy) are only checked for uniformity.",
   ref="DESIGN.md §3 C03"),
 "C04": dict(level="exploration", technique="bounded-exhaustive product of collection kinds, lengths, loop forms, shadowing names, v-else, element kinds, root data kinds, print positions and entry points against a reference interpreter plus a before/after differential oracle",
   text="13 collection kinds x lengths 0..2 (thorough 0..3) x 2 paths x 2 loop forms x 5 variable names (fresh, shadowing a key, a struct field by name and by tag) x v-else placement x 4 element kinds x 3 root kinds x 2 print positions x 2 entry points, plus nested loops; instance list, for-else and scope restoration are compared with a reference.",
   note="Trusts the reference in checks/c04.go. Map iteration is left to C10; JSON-tag access inside expressions and Go-field-name visibility are left to C08/C13/C17 (only the before==after oracle applies to those names).",
   ref="DESIGN.md §3 C04"),
 "C01": dict(level="exploration", technique="bounded-exhaustive enumeration of hostile token strings x sink x neighbourhood x construct with an HTML5 re-parse oracle (small-scope model checking of a sequential API)",
   text="Every token string of length <=3 (thorough: 4 in the plain neighbourhood) over a 16-token HTML/mustache-hostile alphabet plus 7 non-string values, in 5 sinks x 6 static neighbourhoods x 12 enclosing constructs; the output is re-parsed with an HTML5 parser and must have the element/attribute-name skeleton of the harmless run, and a canary variable must never be printed. Exhaustive within the bound; the escaping logic decides per character class, so short strings over one token per class reach every branch.",
   note="Trusts golang.org/x/net/html as the HTML5 parser and the context generator in checks/c01.go. Says nothing about strings longer than the bound or characters outside the alphabet. Falsy non-string values in bound sinks are skipped (attribute legitimately omitted).",
   ref="DESIGN.md §3 C01"),
 "C02": dict(level="exploration", technique="bounded-exhaustive enumeration of directive-free templates from a grammar, parser-stable filter, HTML5 round-trip oracle; value x neighbour sweeps for interpolation",
   text="All forests of <=3 (thorough: <=4) nodes over 23 node labels, full attribute/text sweeps with character references, documents with and without doctype; parse(render(t)) must equal parse(t) up to insignificant whitespace and comments. Every value of a 15-value list x 49 static neighbourhoods in text, interpolated attribute, bound attribute and v-html sinks.",
   note="Trusts golang.org/x/net/html and its Render for the parser-stability filter. Leading/trailing whitespace of attribute values and of the v-html value is treated as insignificant (the latter is pinned by a unit test). <pre> is outside the vocabulary.",
   ref="DESIGN.md §3 C02"),
 "C18": dict(level="exploration", technique="bounded-exhaustive enumeration of layer stacks against a reference union model (small-scope model checking of a sequential API)",
   text="Every stack of up to 3 (thorough: 4) layers over a 36-configuration layer table, nil layers in every position, every query of the path universe, compared with a reference model. Exhaustive within the bound; the overlay has no state beyond its layer list, so a small scope covers its logic.",
   note="Trusts testing/fstest.MapFS and the reference model (checks/c18.go). Access below a name that is a file in an upper layer and a directory in a lower one, malformed glob patterns and the listing of an overlay of only nil layers (pinned by a unit test) are unconstrained.",
   ref="DESIGN.md §3 C18"),
}
ALL = ["C%02d" % i for i in range(1, 21)]
checks = []
for pid in ALL:
    if pid not in BUILT: continue
    b = BUILT[pid]
    checks.append({
        "property_id": pid,
        "quick_cmd": "./check %s quick" % pid,
        "thorough_cmd": "./check %s thorough" % pid,
        "evidence_file": "evidence/%s.json" % pid,
        "replay_cmd_template": "./check replay {path}",
        "engine": b.get("engine", "enum"),
        "level_claimed": {"category": b["level"], "text": b["text"], "design_ref": b["ref"]},
        "level_note": b["note"],
        "technique": b["technique"],
    })
m = {
 "version": 1,
 "setup_cmd": "./setup.sh",
 "hooks": {
   "guard": "verif",
   "enable": "no source hooks: ./check regenerates a `go build -overlay` from /repo's current tree with cmd/vinstr (sync/time import rewrite, map-range rewrite) on every call",
   "baseline_off_cmd": "cd /repo && GOFLAGS=-mod=mod go test -json -vet=off -count=1 -timeout 25m ./...",
   "source_commits": [],
   "add_only": True,
 },
 "engines": [
   {"name": "enum", "path": "engine/core", "serves_properties": [c["property_id"] for c in checks if c["engine"] == "enum"],
    "kind_free_text": "bounded-exhaustive enumeration sharded over 16 worker subprocesses with per-case crash/hang attribution"},
   {"name": "bfs", "path": "engine/core + checks/*", "serves_properties": [c["property_id"] for c in checks if c["engine"] == "bfs"],
    "kind_free_text": "explicit-state search over operation histories; a state is the history that reaches it, successors are built by replaying the history on fresh objects plus one operation, deduplicated on (reference-model state, observations)"},
 ],
 "checks": checks,
 "not_applicable": [{"property_id": p, "reason": "check not built yet (work in progress; see DESIGN.md §7)"} for p in ALL if p not in BUILT],
 "notes": "All checks are run through ./check, which rebuilds instrumentation and binary from /repo's working tree. known_findings.jsonl lists recorded defects by signature.",
}
json.dump(m, open("MANIFEST.json", "w"), indent=1)
print("checks:", len(checks), "not_applicable:", len(m["not_applicable"]))
