// Command vcheck runs the property checks. It is always built with the overlay produced
// by cmd/vinstr from the current /repo tree (see ./check).
package main

import (
	"encoding/json"
	"flag"
	"fmt"
	"os"
	"strconv"

	_ "verif/checks"
	"verif/engine/core"
)

func usage() {
	fmt.Fprintln(os.Stderr, "usage: vcheck run <Cxx> [--tier quick|thorough] | replay <file> | worker ... | describe <Cxx> <tier> <idx> | list")
	os.Exit(2)
}

func main() {
	if len(os.Args) < 2 {
		usage()
	}
	switch os.Args[1] {
	case "list":
		for _, id := range core.IDs() {
			fmt.Println(id)
		}
	case "run":
		if len(os.Args) < 3 {
			usage()
		}
		fs := flag.NewFlagSet("run", flag.ExitOnError)
		tier := fs.String("tier", envOr("VERIF_TIER", "quick"), "")
		fs.Parse(os.Args[3:])
		c := core.Lookup(os.Args[2])
		if c == nil {
			fmt.Fprintln(os.Stderr, "unknown check", os.Args[2])
			os.Exit(2)
		}
		seed, _ := strconv.ParseInt(os.Getenv("VERIF_SEED"), 10, 64)
		os.Exit(core.RunCheck(c, *tier, seed))
	case "worker":
		fs := flag.NewFlagSet("worker", flag.ExitOnError)
		tier := fs.String("tier", "quick", "")
		shard := fs.Int("shard", 0, "")
		nshards := fs.Int("nshards", 1, "")
		resume := fs.Uint64("resume", 0, "")
		prog := fs.String("progress", "", "")
		fs.Parse(os.Args[3:])
		c := core.Lookup(os.Args[2])
		if c == nil {
			os.Exit(2)
		}
		core.RunWorker(c, *tier, *shard, *nshards, *resume, *prog)
	case "describe":
		c := core.Lookup(os.Args[2])
		idx, _ := strconv.ParseUint(os.Args[4], 10, 64)
		cs, ok := core.Describe(c, os.Args[3], idx)
		if !ok {
			os.Exit(1)
		}
		b, _ := json.MarshalIndent(cs, "", " ")
		fmt.Println(string(b))
	case "solo":
		if len(os.Args) < 3 {
			usage()
		}
		os.Exit(core.RunSolo(os.Args[2], os.Args[3:]))
	case "replay":
		if len(os.Args) < 3 {
			usage()
		}
		os.Exit(core.Replay(os.Args[2]))
	default:
		usage()
	}
}

func envOr(k, d string) string {
	if v := os.Getenv(k); v != "" {
		return v
	}
	return d
}
