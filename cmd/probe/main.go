// probe: ad-hoc rendering of a template given on the command line (development aid)
package main

import (
	"bytes"
	"context"
	"encoding/json"
	"fmt"
	"os"
	"testing/fstest"

	"github.com/titpetric/vuego"
	"github.com/titpetric/vuego/markdown"
)

func main() {
	mode := os.Args[1]
	switch mode {
	case "string":
		var data map[string]any
		json.Unmarshal([]byte(os.Args[3]), &data)
		var buf bytes.Buffer
		err := vuego.New().Fill(data).RenderString(context.Background(), &buf, os.Args[2])
		fmt.Printf("%q err=%v\n", buf.String(), err)
	case "files":
		// probe files '{"page.vuego": "...", ...}' page '{data}'
		var files map[string]string
		json.Unmarshal([]byte(os.Args[2]), &files)
		var data map[string]any
		json.Unmarshal([]byte(os.Args[4]), &data)
		m := fstest.MapFS{}
		for k, v := range files {
			m[k] = &fstest.MapFile{Data: []byte(v)}
		}
		var buf bytes.Buffer
		err := vuego.NewFS(m, vuego.WithComponents()).Load(os.Args[3]).Fill(data).Render(context.Background(), &buf)
		fmt.Printf("%q err=%v\n", buf.String(), err)
	case "md":
		var buf bytes.Buffer
		err := markdown.New(nil).RenderBytes(&buf, []byte(os.Args[2]))
		fmt.Printf("%q err=%v\n", buf.String(), err)
	}
}
