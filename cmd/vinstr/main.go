// Command vinstr generates, from the *current working tree* of the vuego repository,
// a `go build -overlay` file that moves three sources of nondeterminism behind seams:
//
//	sync      -> github.com/titpetric/vuego/zverif/vsync  (import rewrite)
//	time      -> github.com/titpetric/vuego/zverif/vtime  (import rewrite, internal/ulid only)
//	range map -> range over vrt.Keys(site, m)             (type-driven AST rewrite)
//	reflect.Value.MapKeys() -> vrt.MapKeys(site, rv)
//
// The repository itself is never modified. The seam packages are injected as virtual
// packages inside the vuego module (overlay entries for files that do not exist on disk).
package main

import (
	"bytes"
	"encoding/json"
	"flag"
	"fmt"
	"go/ast"
	"go/format"
	"go/importer"
	"go/parser"
	"go/token"
	"go/types"
	"io"
	"os"
	"os/exec"
	"path/filepath"
	"sort"
	"strconv"
	"strings"
)

const (
	modPath   = "github.com/titpetric/vuego"
	vsyncPath = modPath + "/zverif/vsync"
	vrtPath   = modPath + "/zverif/vrt"
	vtimePath = modPath + "/zverif/vtime"
)

type listPkg struct {
	ImportPath string
	Dir        string
	Export     string
	GoFiles    []string
	Module     *struct{ Path string }
	Standard   bool
}

type site struct {
	ID   string `json:"id"`
	File string `json:"file"`
	Line int    `json:"line"`
	Kind string `json:"kind"`
	Func string `json:"func"`
}

func main() {
	repo := flag.String("repo", "/repo", "repository root")
	out := flag.String("out", "", "output directory")
	shim := flag.String("shim", "/verif/shim", "directory holding vsync/ vrt/ vtime/ sources")
	noSync := flag.Bool("nosync", false, "do not rewrite the sync import (free-running race pass)")
	withHooks := flag.Bool("hooks", false, "add shim/vuegohooks (cache reset functions for the C09 harness) to package vuego")
	flag.Parse()
	if *out == "" {
		fatal("need -out")
	}
	must(os.MkdirAll(*out, 0o755))

	cmd := exec.Command("go", "list", "-deps", "-export", "-json=ImportPath,Dir,Export,GoFiles,Module,Standard", "./...")
	cmd.Dir = *repo
	cmd.Stderr = os.Stderr
	raw, err := cmd.Output()
	if err != nil {
		fatal("go list failed: %v", err)
	}
	dec := json.NewDecoder(bytes.NewReader(raw))
	exports := map[string]string{}
	var own []listPkg
	for {
		var p listPkg
		if err := dec.Decode(&p); err == io.EOF {
			break
		} else if err != nil {
			fatal("decode go list: %v", err)
		}
		if p.Export != "" {
			exports[p.ImportPath] = p.Export
		}
		if p.Module != nil && p.Module.Path == modPath && len(p.GoFiles) > 0 {
			own = append(own, p)
		}
	}

	fset := token.NewFileSet()
	imp := importer.ForCompiler(fset, "gc", func(path string) (io.ReadCloser, error) {
		f, ok := exports[path]
		if !ok {
			return nil, fmt.Errorf("no export data for %s", path)
		}
		return os.Open(f)
	})

	overlay := map[string]string{}
	var sites []site
	for _, p := range own {
		var files []*ast.File
		var names []string
		for _, gf := range p.GoFiles {
			fn := filepath.Join(p.Dir, gf)
			f, err := parser.ParseFile(fset, fn, nil, parser.ParseComments)
			if err != nil {
				fatal("parse %s: %v", fn, err)
			}
			files = append(files, f)
			names = append(names, fn)
		}
		info := &types.Info{Types: map[ast.Expr]types.TypeAndValue{}, Selections: map[*ast.SelectorExpr]*types.Selection{}}
		conf := types.Config{Importer: imp, Error: func(err error) {}}
		if _, err := conf.Check(p.ImportPath, fset, files, info); err != nil {
			fatal("typecheck %s: %v", p.ImportPath, err)
		}
		for i, f := range files {
			rel, _ := filepath.Rel(*repo, names[i])
			rw := &rewriter{fset: fset, info: info, rel: rel}
			rw.file(f)
			changed := rw.changed
			if !*noSync && replaceImport(f, "sync", vsyncPath, "sync") {
				changed = true
			}
			if strings.HasPrefix(rel, "internal/ulid/") && replaceImport(f, "time", vtimePath, "time") {
				changed = true
			}
			if rw.needVrt {
				addImport(f, vrtPath, "vrt")
			}
			sites = append(sites, rw.sites...)
			if !changed {
				continue
			}
			// Comments carry positions that no longer match the rewritten tree; keep only
			// compiler directives (//go:embed, //go:build ...), drop the rest.
			var keep []*ast.CommentGroup
			for _, cg := range f.Comments {
				for _, c := range cg.List {
					if strings.HasPrefix(c.Text, "//go:") || strings.HasPrefix(c.Text, "// +build") {
						keep = append(keep, cg)
						break
					}
				}
			}
			f.Comments = keep
			var buf bytes.Buffer
			if err := format.Node(&buf, fset, f); err != nil {
				fatal("format %s: %v", rel, err)
			}
			dst := filepath.Join(*out, "src", rel)
			must(os.MkdirAll(filepath.Dir(dst), 0o755))
			must(os.WriteFile(dst, buf.Bytes(), 0o644))
			overlay[names[i]] = dst
		}
	}
	for _, s := range []string{"vsync", "vrt", "vtime"} {
		ents, err := os.ReadDir(filepath.Join(*shim, s))
		if err != nil {
			fatal("shim %s: %v", s, err)
		}
		for _, e := range ents {
			if strings.HasSuffix(e.Name(), ".go") && !strings.HasSuffix(e.Name(), "_test.go") {
				overlay[filepath.Join(*repo, "zverif", s, e.Name())] = filepath.Join(*shim, s, e.Name())
			}
		}
	}
	// extra file for package vuego (root package of the module): cache reset hooks for harnesses.
	// It goes through the same sync rewrite as the package's own files when needed.
	if hooks := filepath.Join(*shim, "vuegohooks", "zverif_hooks.go.src"); *withHooks && fileExists(hooks) {
		overlay[filepath.Join(*repo, "zverif_hooks.go")] = hooks
	}
	ov, _ := json.MarshalIndent(map[string]any{"Replace": overlay}, "", " ")
	must(os.WriteFile(filepath.Join(*out, "overlay.json"), ov, 0o644))
	sort.Slice(sites, func(i, j int) bool { return sites[i].ID < sites[j].ID })
	sj, _ := json.MarshalIndent(sites, "", " ")
	must(os.WriteFile(filepath.Join(*out, "sites.json"), sj, 0o644))
	fmt.Printf("vinstr: %d files rewritten, %d map-order sites\n", len(overlay)-4, len(sites))
}

type rewriter struct {
	fset    *token.FileSet
	info    *types.Info
	rel     string
	changed bool
	needVrt bool
	sites   []site
	fn      string
	n       int
}

func (r *rewriter) file(f *ast.File) {
	for _, d := range f.Decls {
		fd, ok := d.(*ast.FuncDecl)
		if !ok || fd.Body == nil {
			continue
		}
		r.fn = fd.Name.Name
		r.block(fd.Body)
	}
	// function literals in package-level vars
	for _, d := range f.Decls {
		if gd, ok := d.(*ast.GenDecl); ok {
			ast.Inspect(gd, func(n ast.Node) bool {
				if fl, ok := n.(*ast.FuncLit); ok {
					r.fn = "init"
					r.block(fl.Body)
					return false
				}
				return true
			})
		}
	}
}

// block rewrites statements of a block in place (recursively).
func (r *rewriter) block(b *ast.BlockStmt) {
	if b == nil {
		return
	}
	for i, s := range b.List {
		b.List[i] = r.stmt(s)
	}
}

func (r *rewriter) stmt(s ast.Stmt) ast.Stmt {
	switch s := s.(type) {
	case *ast.BlockStmt:
		r.block(s)
	case *ast.IfStmt:
		if s.Init != nil {
			s.Init = r.stmt(s.Init)
		}
		r.exprs(s.Cond)
		r.block(s.Body)
		if s.Else != nil {
			s.Else = r.stmt(s.Else)
		}
	case *ast.ForStmt:
		if s.Init != nil {
			s.Init = r.stmt(s.Init)
		}
		r.exprs(s.Cond)
		if s.Post != nil {
			s.Post = r.stmt(s.Post)
		}
		r.block(s.Body)
	case *ast.SwitchStmt:
		if s.Init != nil {
			s.Init = r.stmt(s.Init)
		}
		r.exprs(s.Tag)
		r.block(s.Body)
	case *ast.TypeSwitchStmt:
		if s.Init != nil {
			s.Init = r.stmt(s.Init)
		}
		s.Assign = r.stmt(s.Assign)
		r.block(s.Body)
	case *ast.SelectStmt:
		r.block(s.Body)
	case *ast.CaseClause:
		for _, e := range s.List {
			r.exprs(e)
		}
		for i, st := range s.Body {
			s.Body[i] = r.stmt(st)
		}
	case *ast.CommClause:
		if s.Comm != nil {
			s.Comm = r.stmt(s.Comm)
		}
		for i, st := range s.Body {
			s.Body[i] = r.stmt(st)
		}
	case *ast.LabeledStmt:
		if rs, ok := s.Stmt.(*ast.RangeStmt); ok && r.isMap(rs.X) && !simpleExpr(rs.X) {
			fatal("%s: labeled range over a non-trivial map expression is not supported", r.pos(rs))
		}
		s.Stmt = r.stmt(s.Stmt)
	case *ast.RangeStmt:
		r.exprs(s.X)
		r.block(s.Body)
		if r.isMap(s.X) {
			return r.rangeMap(s)
		}
	case *ast.ExprStmt:
		r.exprs(s.X)
	case *ast.AssignStmt:
		for _, e := range s.Lhs {
			r.exprs(e)
		}
		for _, e := range s.Rhs {
			r.exprs(e)
		}
	case *ast.ReturnStmt:
		for _, e := range s.Results {
			r.exprs(e)
		}
	case *ast.DeferStmt:
		r.exprs(s.Call)
	case *ast.GoStmt:
		r.exprs(s.Call)
	case *ast.DeclStmt:
		r.exprs(s.Decl)
	case *ast.SendStmt:
		r.exprs(s.Chan)
		r.exprs(s.Value)
	case *ast.IncDecStmt:
		r.exprs(s.X)
	}
	return s
}

// exprs walks an expression tree: rewrites MapKeys calls and descends into func literals.
func (r *rewriter) exprs(n ast.Node) {
	if n == nil || (func() bool { v, ok := n.(ast.Expr); return ok && v == nil })() {
		return
	}
	ast.Inspect(n, func(n ast.Node) bool {
		switch x := n.(type) {
		case *ast.FuncLit:
			r.block(x.Body)
			return false
		case *ast.CallExpr:
			sel, ok := x.Fun.(*ast.SelectorExpr)
			if !ok || sel.Sel.Name != "MapKeys" || len(x.Args) != 0 {
				return true
			}
			tv, ok := r.info.Types[sel.X]
			if !ok || tv.Type.String() != "reflect.Value" {
				return true
			}
			id := r.site(x, "mapkeys")
			x.Fun = &ast.SelectorExpr{X: ast.NewIdent("vrt"), Sel: ast.NewIdent("MapKeys")}
			x.Args = []ast.Expr{&ast.BasicLit{Kind: token.STRING, Value: strconv.Quote(id)}, sel.X}
			r.changed, r.needVrt = true, true
		}
		return true
	})
}

func (r *rewriter) isMap(e ast.Expr) bool {
	tv, ok := r.info.Types[e]
	if !ok || tv.Type == nil {
		return false
	}
	_, ok = tv.Type.Underlying().(*types.Map)
	return ok
}

func simpleExpr(e ast.Expr) bool {
	switch x := e.(type) {
	case *ast.Ident:
		return true
	case *ast.SelectorExpr:
		return simpleExpr(x.X)
	case *ast.ParenExpr:
		return simpleExpr(x.X)
	}
	return false
}

func (r *rewriter) pos(n ast.Node) string {
	p := r.fset.Position(n.Pos())
	return fmt.Sprintf("%s:%d", r.rel, p.Line)
}

func (r *rewriter) site(n ast.Node, kind string) string {
	p := r.fset.Position(n.Pos())
	id := fmt.Sprintf("%s:%d", r.rel, p.Line)
	r.sites = append(r.sites, site{ID: id, File: r.rel, Line: p.Line, Kind: kind, Func: r.fn})
	return id
}

func blank(e ast.Expr) bool {
	if e == nil {
		return true
	}
	id, ok := e.(*ast.Ident)
	return ok && id.Name == "_"
}

// rangeMap turns `for k, v := range m {B}` into
//
//	for _, k_ := range vrt.Keys(site, m) { v_, ok_ := m[k_]; if !ok_ {continue}; k := k_; v := v_; B }
//
// which keeps Go's semantics for a fixed iteration order: entries deleted before being
// reached are skipped, entries added during the loop are not visited (Go permits that).
func (r *rewriter) rangeMap(s *ast.RangeStmt) ast.Stmt {
	r.n++
	suf := fmt.Sprintf("_vrt%d", r.n)
	id := r.site(s, "range")
	r.changed, r.needVrt = true, true

	var pre []ast.Stmt
	m := s.X
	if !simpleExpr(m) {
		mv := ast.NewIdent("m" + suf)
		pre = append(pre, &ast.AssignStmt{Lhs: []ast.Expr{mv}, Tok: token.DEFINE, Rhs: []ast.Expr{m}})
		m = mv
	}
	kv, vv, okv := ast.NewIdent("k"+suf), ast.NewIdent("v"+suf), ast.NewIdent("ok"+suf)
	call := &ast.CallExpr{
		Fun:  &ast.SelectorExpr{X: ast.NewIdent("vrt"), Sel: ast.NewIdent("Keys")},
		Args: []ast.Expr{&ast.BasicLit{Kind: token.STRING, Value: strconv.Quote(id)}, m},
	}
	var body []ast.Stmt
	body = append(body,
		&ast.AssignStmt{Lhs: []ast.Expr{vv, okv}, Tok: token.DEFINE, Rhs: []ast.Expr{&ast.IndexExpr{X: m, Index: kv}}},
		&ast.IfStmt{Cond: &ast.UnaryExpr{Op: token.NOT, X: okv}, Body: &ast.BlockStmt{List: []ast.Stmt{&ast.BranchStmt{Tok: token.CONTINUE}}}},
		&ast.AssignStmt{Lhs: []ast.Expr{ast.NewIdent("_")}, Tok: token.ASSIGN, Rhs: []ast.Expr{vv}},
	)
	tok := s.Tok
	if tok == token.ILLEGAL {
		tok = token.DEFINE
	}
	if !blank(s.Key) {
		body = append(body, &ast.AssignStmt{Lhs: []ast.Expr{s.Key}, Tok: tok, Rhs: []ast.Expr{kv}})
		if tok == token.DEFINE {
			body = append(body, &ast.AssignStmt{Lhs: []ast.Expr{ast.NewIdent("_")}, Tok: token.ASSIGN, Rhs: []ast.Expr{s.Key}})
		}
	}
	if !blank(s.Value) {
		body = append(body, &ast.AssignStmt{Lhs: []ast.Expr{s.Value}, Tok: tok, Rhs: []ast.Expr{vv}})
		if tok == token.DEFINE {
			body = append(body, &ast.AssignStmt{Lhs: []ast.Expr{ast.NewIdent("_")}, Tok: token.ASSIGN, Rhs: []ast.Expr{s.Value}})
		}
	}
	// (as a block of its own: the loop body may declare variables named like the loop's again)
	body = append(body, s.Body)
	loop := &ast.RangeStmt{
		Key: ast.NewIdent("_"), Value: kv, Tok: token.DEFINE, X: call,
		Body: &ast.BlockStmt{List: body},
	}
	if len(pre) == 0 {
		return loop
	}
	return &ast.BlockStmt{List: append(pre, loop)}
}

func replaceImport(f *ast.File, from, to, name string) bool {
	done := false
	for _, im := range f.Imports {
		p, _ := strconv.Unquote(im.Path.Value)
		if p == from {
			if im.Name != nil && im.Name.Name != name {
				fatal("import %q is renamed to %s; unsupported", from, im.Name.Name)
			}
			im.Path.Value = strconv.Quote(to)
			im.Name = ast.NewIdent(name)
			done = true
		}
	}
	return done
}

func addImport(f *ast.File, path, name string) {
	for _, im := range f.Imports {
		if p, _ := strconv.Unquote(im.Path.Value); p == path {
			return
		}
	}
	spec := &ast.ImportSpec{Name: ast.NewIdent(name), Path: &ast.BasicLit{Kind: token.STRING, Value: strconv.Quote(path)}}
	gd := &ast.GenDecl{Tok: token.IMPORT, Specs: []ast.Spec{spec}}
	f.Decls = append([]ast.Decl{gd}, f.Decls...)
	f.Imports = append(f.Imports, spec)
}

func fileExists(p string) bool {
	_, err := os.Stat(p)
	return err == nil
}

func must(err error) {
	if err != nil {
		fatal("%v", err)
	}
}

func fatal(f string, a ...any) {
	fmt.Fprintf(os.Stderr, "vinstr: "+f+"\n", a...)
	os.Exit(2)
}
