#!/bin/bash
# Build the framework from files on disk only (offline) and warm the build cache so that the
# first real check does not pay for a cold compile of vuego and its dependencies.
set -eu
cd "$(dirname "$0")"
export GOFLAGS=-mod=mod GOPROXY=off GOCACHE=$(pwd)/.cache/go-build
mkdir -p bin .build .cache evidence replays
go build -o bin/vinstr ./cmd/vinstr
B=$(mktemp -d "$(pwd)/.build/setup.XXXXXX")
trap 'rm -rf "$B"' EXIT
bin/vinstr -repo "${VERIF_REPO:-/repo}" -out "$B/ov"
go build -overlay "$B/ov/overlay.json" -o "$B/vcheck" ./cmd/vcheck
bin/vinstr -hooks -repo "${VERIF_REPO:-/repo}" -out "$B/ovr"
go build -race -tags c09 -overlay "$B/ovr/overlay.json" -o "$B/vcheck-race" ./cmd/vcheck
"$B/vcheck" list >/dev/null
echo "setup ok"
