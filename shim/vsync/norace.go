//go:build !race

package vsync

func raceAcquire(x any)      {}
func raceReleaseMerge(x any) {}
