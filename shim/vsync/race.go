//go:build race

package vsync

import (
	"runtime"
	"unsafe"
)

var poolRaceHash [128]uint64

func poolRaceAddr(x any) unsafe.Pointer {
	ptr := uintptr((*[2]unsafe.Pointer)(unsafe.Pointer(&x))[1])
	h := uint32((uint64(uint32(ptr)) * 0x85ebca6b) >> 16)
	return unsafe.Pointer(&poolRaceHash[h%uint32(len(poolRaceHash))])
}

func raceAcquire(x any)      { runtime.RaceAcquire(poolRaceAddr(x)) }
func raceReleaseMerge(x any) { runtime.RaceReleaseMerge(poolRaceAddr(x)) }
