// Package vsync is the synchronisation seam: cmd/vinstr rewrites `import "sync"` in the
// vuego module to this package. Without a scheduler installed every type behaves like its
// sync counterpart, except that Pool is a deterministic LIFO (legal for sync.Pool, and the
// most adversarial choice for leaks through pooled objects). With a scheduler installed
// (C09) every operation is announced first, so a controller decides which goroutine runs.
package vsync

import (
	"sync"
	"unsafe"
)

// Operation kinds announced to the scheduler.
const (
	OpLock = iota + 1
	OpUnlock
	OpRLock
	OpRUnlock
	OpPoolGet
	OpPoolPut
	OpOnce
)

// Scheduler is implemented by the C09 engine.
type Scheduler interface {
	// Before is called before an operation that may block or that touches shared state.
	// It returns when the calling goroutine may perform the real operation, which is then
	// guaranteed not to block.
	Before(op int, obj uintptr)
	// After is called after a releasing operation took effect.
	After(op int, obj uintptr)
}

// S is the installed scheduler (nil = pass-through).
var S Scheduler

// Counters (diagnostics only; meaningful in single-goroutine harnesses).
var Ops uint64

type WaitGroup = sync.WaitGroup
type Locker = sync.Locker

type Mutex struct{ mu sync.Mutex }

func (m *Mutex) Lock() {
	if s := S; s != nil {
		s.Before(OpLock, uintptr(unsafe.Pointer(m)))
	}
	m.mu.Lock()
}

func (m *Mutex) Unlock() {
	m.mu.Unlock()
	if s := S; s != nil {
		s.After(OpUnlock, uintptr(unsafe.Pointer(m)))
	}
}

func (m *Mutex) TryLock() bool { return m.mu.TryLock() }

type RWMutex struct{ mu sync.RWMutex }

func (m *RWMutex) Lock() {
	if s := S; s != nil {
		s.Before(OpLock, uintptr(unsafe.Pointer(m)))
	}
	m.mu.Lock()
}

func (m *RWMutex) Unlock() {
	m.mu.Unlock()
	if s := S; s != nil {
		s.After(OpUnlock, uintptr(unsafe.Pointer(m)))
	}
}

func (m *RWMutex) RLock() {
	if s := S; s != nil {
		s.Before(OpRLock, uintptr(unsafe.Pointer(m)))
	}
	m.mu.RLock()
}

func (m *RWMutex) RUnlock() {
	m.mu.RUnlock()
	if s := S; s != nil {
		s.After(OpRUnlock, uintptr(unsafe.Pointer(m)))
	}
}

func (m *RWMutex) RLocker() sync.Locker { return (*rlocker)(m) }

type rlocker RWMutex

func (r *rlocker) Lock()   { (*RWMutex)(r).RLock() }
func (r *rlocker) Unlock() { (*RWMutex)(r).RUnlock() }

// Once: Do is a scheduling point; the real sync.Once provides the happens-before edge.
type Once struct{ o sync.Once }

func (o *Once) Do(f func()) {
	if s := S; s != nil {
		s.Before(OpOnce, uintptr(unsafe.Pointer(o)))
	}
	o.o.Do(f)
}

const poolCap = 1 << 14

// Pool is a deterministic LIFO pool. Objects beyond poolCap are dropped (sync.Pool may
// drop objects at any time). The happens-before edge sync.Pool creates between the Put of
// an object and the Get that returns it is mirrored with race annotations (see race.go).
type Pool struct {
	New func() any

	mu    sync.Mutex // used only when no scheduler is installed
	reg   bool
	n     int
	items [poolCap]any
}

func (p *Pool) Get() any {
	if s := S; s != nil {
		s.Before(OpPoolGet, uintptr(unsafe.Pointer(p)))
		if x := p.pop(); x != nil {
			raceAcquire(x)
			return x
		}
	} else {
		p.mu.Lock()
		x := p.pop()
		p.mu.Unlock()
		if x != nil {
			return x
		}
	}
	if p.New != nil {
		return p.New()
	}
	return nil
}

func (p *Pool) Put(x any) {
	if x == nil {
		return
	}
	if s := S; s != nil {
		s.Before(OpPoolPut, uintptr(unsafe.Pointer(p)))
		raceReleaseMerge(x)
		p.push(x)
		return
	}
	p.mu.Lock()
	p.push(x)
	p.mu.Unlock()
}

// Len reports how many objects are parked (harness diagnostics).
//
//go:norace
func (p *Pool) Len() int { return p.n }

// Reset drops all parked objects (harnesses call it between executions so that every
// execution starts from the same pool state).
//
//go:norace
func (p *Pool) Reset() {
	for i := 0; i < p.n; i++ {
		p.items[i] = nil
	}
	p.n = 0
}

//go:norace
func (p *Pool) pop() any {
	p.register()
	if p.n == 0 {
		return nil
	}
	p.n--
	x := p.items[p.n]
	p.items[p.n] = nil
	return x
}

//go:norace
func (p *Pool) push(x any) {
	p.register()
	if p.n < poolCap {
		p.items[p.n] = x
		p.n++
	}
}

var (
	regMu   sync.Mutex
	regList [64]*Pool
	regN    int
)

// register records the pool in a global list on first use so that harnesses can reset
// every pool the vuego module declares without knowing their (unexported) names.
//
//go:norace
func (p *Pool) register() {
	if p.reg {
		return
	}
	if S == nil {
		regMu.Lock()
		defer regMu.Unlock()
	}
	p.reg = true
	if regN < len(regList) {
		regList[regN] = p
		regN++
	}
}

// ResetAllPools empties every pool that has been used so far.
//
//go:norace
func ResetAllPools() {
	for i := 0; i < regN; i++ {
		regList[i].Reset()
	}
}

// PooledObjects returns the number of parked objects over all pools.
//
//go:norace
func PooledObjects() int {
	t := 0
	for i := 0; i < regN; i++ {
		t += regList[i].n
	}
	return t
}

// The rest of package sync's surface is passed through unchanged so that the module keeps
// compiling whatever it uses. These types synchronise internally and never block a
// controlled goroutine indefinitely, so the scheduler does not need to own them.
type Map = sync.Map
type Cond = sync.Cond

func NewCond(l Locker) *Cond { return sync.NewCond(l) }

func OnceFunc(f func()) func() { return sync.OnceFunc(f) }

func OnceValue[T any](f func() T) func() T { return sync.OnceValue(f) }

func OnceValues[T1, T2 any](f func() (T1, T2)) func() (T1, T2) { return sync.OnceValues(f) }
