// Package vtime is the wall-clock seam for internal/ulid (v-once ids).
package vtime

import "time"

// Time aliases time.Time so rewritten code keeps compiling unchanged.
type Time = time.Time

// NowFn decides what Now returns; nil means the real clock.
var NowFn func() time.Time

// Now is what `time.Now()` becomes inside internal/ulid.
func Now() time.Time {
	if NowFn != nil {
		return NowFn()
	}
	return time.Now()
}
