// Package vrt is the map-iteration-order seam. Every `range` over a map and every
// reflect.Value.MapKeys() call inside the vuego module is routed here by cmd/vinstr.
// Default answer: keys ascending (deterministic). A harness may install Hook to make
// the explorer decide the order at each dynamic occurrence.
package vrt

import (
	"fmt"
	"reflect"
	"sort"
)

// Hook, when non-nil, is asked for the permutation to apply to the ascending key list
// of length n (n >= 2) at the given static site. nil or a wrong-length result = identity.
// It is called from whichever goroutine iterates; harnesses that run several goroutines
// must install a goroutine-safe hook.
var Hook func(site string, n int) []int

func perm(site string, n int) []int {
	if n < 2 || Hook == nil {
		return nil
	}
	p := Hook(site, n)
	if len(p) != n {
		return nil
	}
	return p
}

// Keys returns the keys of m in the order chosen by the explorer (ascending by default).
func Keys[M ~map[K]V, K comparable, V any](site string, m M) []K {
	if len(m) == 0 {
		return nil
	}
	keys := make([]K, 0, len(m))
	for k := range m {
		keys = append(keys, k)
	}
	if ks, ok := any(keys).([]string); ok {
		sort.Strings(ks)
	} else {
		sort.Slice(keys, func(i, j int) bool { return fmt.Sprint(keys[i]) < fmt.Sprint(keys[j]) })
	}
	if p := perm(site, len(keys)); p != nil {
		out := make([]K, len(keys))
		for i, j := range p {
			out[i] = keys[j]
		}
		return out
	}
	return keys
}

// MapKeys is the seam for reflect.Value.MapKeys.
func MapKeys(site string, rv reflect.Value) []reflect.Value {
	keys := rv.MapKeys()
	sort.Slice(keys, func(i, j int) bool { return keyString(keys[i]) < keyString(keys[j]) })
	if p := perm(site, len(keys)); p != nil {
		out := make([]reflect.Value, len(keys))
		for i, j := range p {
			out[i] = keys[j]
		}
		return out
	}
	return keys
}

func keyString(v reflect.Value) string {
	if v.Kind() == reflect.String {
		return v.String()
	}
	if v.CanInterface() {
		return fmt.Sprint(v.Interface())
	}
	return v.String()
}
