#!/bin/bash
# tools/refresh_evidence.sh [tier]   run every check on /repo's current tree so that evidence/*.json
# describes the unchanged tree (seed and revert matrices leave evidence of their last, patched, run behind).
cd /verif
if [ -n "$(git -C /repo status --porcelain --untracked-files=no)" ]; then echo "/repo is dirty" >&2; exit 2; fi
tier=${1:-quick}; bad=0
for i in $(seq -w 1 20); do
  out=$(./check C$i $tier 2>&1); rc=$?
  echo "C$i rc=$rc $(echo "$out" | grep -E "^C$i $tier" | tail -1)"
  [ $rc -ne 0 ] && { bad=1; echo "$out" | grep -E "^VIOLATION|signature:" | head -5; }
done
exit $bad
