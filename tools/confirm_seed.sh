#!/bin/bash
# tools/confirm_seed.sh <seeded-dir> [race]   confirm a seeded change in a scratch worktree:
#   demo passes without the change, pinned suite passes with it, demo fails with it.
set -u
d=$(readlink -f "$1"); race=${2:-}
wt=$(mktemp -d /tmp/confirm.XXXXXX); rmdir "$wt"
git -C /repo worktree add -q "$wt" HEAD || exit 2
trap 'git -C /repo worktree remove --force "$wt" >/dev/null 2>&1' EXIT
export GOFLAGS=-mod=mod GOPROXY=off
demo=$(ls "$d"/*_test.go | head -1)
pkgdir=.
grep -q '^package formatter' "$demo" && pkgdir=formatter
grep -q '^package markdown' "$demo" && pkgdir=markdown
grep -q '^package helpers' "$demo" && pkgdir=internal/helpers
grep -q '^package reflect' "$demo" && pkgdir=internal/reflect
cp "$demo" "$wt/$pkgdir/"
r1=$(cd "$wt" && go test -vet=off -count=1 $race -run 'TestSeededDemo' ./$pkgdir 2>&1 | tail -3)
echo "$r1" | grep -q '^ok' && without=pass || without=FAIL
rm "$wt/$pkgdir/$(basename "$demo")"
(cd "$wt" && git apply "$d/patch.diff") || { echo "patch does not apply"; exit 2; }
suite=$(/verif/tools/suite.py "$wt" | head -3)
cp "$demo" "$wt/$pkgdir/"
r2=$(cd "$wt" && go test -vet=off -count=1 $race -run 'TestSeededDemo' ./$pkgdir 2>&1 | tail -5)
echo "$r2" | grep -q '^ok' && with=PASS || with=fail
echo "demo-without-change=$without demo-with-change=$with suite: $(echo "$suite" | head -1)"
[ "$without" = pass ] && [ "$with" = fail ] && echo "$suite" | grep -q 'missing_from_baseline=0'
