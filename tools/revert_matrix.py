#!/usr/bin/env python3
"""For every `fix:` commit of /repo: reverse it on top of HEAD (when it still applies) and run the check(s) that
own the defect; the check must report a VIOLATION. Writes /verif/seeded/revert-<sha>/ (patch.diff, meta.json)."""
import json, subprocess, os, sys, re
OWN = {}  # commit subject -> [property ids]
for line in open('/verif/known_findings.jsonl'):
    line=line.strip()
    if not line or line.startswith('#'): continue
    k=json.loads(line)
    if k.get('status')=='fixed':
        OWN.setdefault(k['commit'],[])
        if k['property'] not in OWN[k['commit']]: OWN[k['commit']].append(k['property'])
log = subprocess.run(['git','-C','/repo','log','--reverse','--format=%h %s'],capture_output=True,text=True).stdout.splitlines()
only = set(sys.argv[1:])
res=[]
for l in log:
    sha,subj=l.split(' ',1)
    if not subj.startswith('fix:'): continue
    if only and sha not in only: continue
    props=OWN.get(subj,[])
    patch=subprocess.run(['git','-C','/repo','show','-R','--format=',sha],capture_output=True,text=True).stdout
    d=f'/verif/seeded/revert-{sha}'
    os.makedirs(d,exist_ok=True)
    if os.path.exists(d+'/meta.json') and not only:
        m=json.load(open(d+'/meta.json'))
        if 'outcomes' in m or 'status' in m:
            res.append((sha,subj,props,{p:o['detected'] for p,o in m.get('outcomes',{}).items()} if 'outcomes' in m else 'does-not-apply'))
            continue
    open(d+'/patch.diff','w').write(patch)
    chk=subprocess.run(['git','-C','/repo','apply','--check',d+'/patch.diff'],capture_output=True,text=True)
    if chk.returncode!=0:
        res.append((sha,subj,props,'does-not-apply')); 
        json.dump({'kind':'revert-of-fix','commit':sha,'subject':subj,'breaks':props,'status':'reverse patch no longer applies on HEAD (later fixes touch the same lines)'},open(d+'/meta.json','w'),indent=1)
        continue
    outcomes={}
    for p in props:
        r=subprocess.run(['/verif/tools/selftest.sh',d+'/patch.diff',p,'quick'],capture_output=True,text=True)
        sigs=re.findall(r'signature: (\S+)',r.stdout)
        outcomes[p]={'detected':r.returncode==0,'signatures':sigs[:5]}
    json.dump({'kind':'revert-of-fix','commit':sha,'subject':subj,'breaks':props,'needs':'the input / history / schedule named in known_findings.jsonl for this fix','ran':'tools/selftest.sh patch.diff <prop> quick','outcomes':outcomes},open(d+'/meta.json','w'),indent=1)
    res.append((sha,subj,props,{p:o['detected'] for p,o in outcomes.items()}))
    print(sha,subj[:70],{p:o['detected'] for p,o in outcomes.items()},flush=True)
print()
for r in res:
    if r[3]=='does-not-apply' or (isinstance(r[3],dict) and not all(r[3].values())) or not r[2]: print('ATTN',r)
