#!/bin/bash
# run every agent seed against its property's check; print detection table
cd /verif
for d in seeded/agent-C*; do
  id=$(basename $d | sed 's/agent-//')
  [ -n "${1:-}" ] && [[ ! " $* " =~ " $id " ]] && continue
  r=$(tools/selftest.sh $d/patch.diff $id quick 2>&1)
  if echo "$r" | grep -q "exit=1"; then s=DETECTED; else s=MISSED; fi
  echo "$id $s $(echo "$r" | grep signature | head -2 | tr '\n' ' ')"
done
