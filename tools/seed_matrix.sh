#!/bin/bash
# tools/seed_matrix.sh [prefix] [ids...]  run every seed of seeded/<prefix>-Cxx (default: agent and agent2)
# against its property's check; print a detection table and refresh detected_by/signatures in meta.json.
cd /verif
prefixes="agent agent2 agent3 agent4 agent5 agent6 agent7 agent8 agent9 agent10 agent11 agent12"
case "${1:-}" in agent|agent2|agent3|agent4|agent5|agent6|agent7|agent8|agent9|agent10|agent11|agent12) prefixes=$1; shift;; esac
for pre in $prefixes; do
for d in seeded/$pre-C*; do
  [ -d "$d" ] || continue
  id=$(basename $d | sed "s/$pre-//")
  [ -n "${1:-}" ] && [[ ! " $* " =~ " $id " ]] && continue
  if grep -q '"status": "obsolete' $d/meta.json 2>/dev/null; then echo "$pre $id OBSOLETE (see meta.json)"; continue; fi
  r=$(tools/selftest.sh $d/patch.diff $id quick 2>&1)
  if echo "$r" | grep -q "exit=1"; then s=DETECTED; else s=MISSED; fi
  sigs=$(echo "$r" | grep -o "signature: [^ ]*" | sed 's/signature: //' | grep -v "^$" | head -3)
  echo "$pre $id $s $(echo $sigs | tr '\n' ' ')"
  python3 - "$d" "$id" "$s" "$sigs" <<'P'
import json,sys,os
d,id_,s,sigs=sys.argv[1:5]
p=d+'/meta.json'
m=json.load(open(p)) if os.path.exists(p) else {"kind":"independent sub-agent seed","breaks":id_}
m["confirmed"]=m.get("confirmed","tools/confirm_seed.sh: demo test passes without the change, fails with it; pinned suite (984 baseline tests) passes with it")
m["ran"]=f"tools/selftest.sh {d}/patch.diff {id_} quick"
m["detected_by"]=f"./check {id_} quick" if s=="DETECTED" else "MISSED"
m["signatures"]=[x for x in sigs.split() if x]
json.dump(m,open(p,'w'),indent=1)
P
done
done
