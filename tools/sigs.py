#!/usr/bin/env python3
import json,sys,collections
e=json.load(open(f'/verif/evidence/{sys.argv[1]}.json'))
c=e['coverage']
print({k:c[k] for k in ('evaluations','distinct_nontrivial','distinct_cases','distinct_outcomes','unconstrained_zones') if k in c}, 'wall',e['wall_s'])
print('known fired:',c.get('known_findings_fired'))
ns=c.get('new_signatures') or []
print('new:',len(ns))
for s in ns[:int(sys.argv[2]) if len(sys.argv)>2 else 40]: print('  ',s)
