#!/bin/bash
# tools/selftest.sh <patch.diff> <Cxx> [tier]   apply a seeded change to /repo, run the check, undo.
# exit 0 iff the check reported a VIOLATION (exit 1) for the seeded change.
set -u
patch=$(readlink -f "$1"); id=$2; tier=${3:-quick}
cd /repo || exit 2
if [ -n "$(git status --porcelain --untracked-files=no)" ]; then echo "/repo is dirty" >&2; exit 2; fi
git apply "$patch" || { echo "patch does not apply" >&2; exit 2; }
cd /verif
out=$(./check "$id" "$tier" 2>&1); rc=$?
cd /repo && git checkout -- . && git clean -fdq -- . >/dev/null 2>&1
echo "$out" | grep -E "^VIOLATION|signature:|^KNOWN|^C[0-9]+ (quick|thorough)|HARNESS|failed" | head -12
echo "exit=$rc"
[ $rc -eq 1 ]
