#!/bin/bash
# run every check's thorough tier sequentially; summary lines to .build/thorough.log
cd "$(dirname "$0")/.."; mkdir -p .build
: > .build/thorough.log
for i in 01 02 03 04 05 06 07 08 10 11 12 13 14 16 17 18 19 20 15 09; do
  s=$(date +%s)
  out=$(./check C$i thorough 2>&1); rc=$?
  echo "C$i rc=$rc $(( $(date +%s) - s ))s $(echo "$out" | grep -E "^C$i thorough" | tail -1)" >> .build/thorough.log
  echo "$out" | grep -E "^VIOLATION|signature:" | head -5 >> .build/thorough.log
done
echo DONE >> .build/thorough.log
