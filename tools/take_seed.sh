#!/bin/bash
# tools/take_seed.sh <round> <Cxx> [slot]   collect the seed a sub-agent left in /tmp/w<round>-<Cxx> into
# seeded/agent<round>-<Cxx>/ (patch.diff + demo), confirm it (tools/confirm_seed.sh) and run the property's
# check against it once (tools/selftest_wt.sh): prints one line CONFIRM ... and one line FIRSTRUN ...
set -u
r=$1; p=$2; slot=${3:-t$p}
w=/tmp/w$r-$p; d=/verif/seeded/agent$r-$p
mkdir -p "$d"
git -C "$w" diff > "$d/patch.diff"
for f in $(git -C "$w" status --porcelain | grep '^??' | awk '{print $2}'); do cp -r "$w/$f" "$d/" 2>/dev/null; done
race=""; [ "$p" = C09 ] && race="-race"
echo "CONFIRM $p $(/verif/tools/confirm_seed.sh "$d" $race 2>&1 | tail -1)"
out=$(/verif/tools/selftest_wt.sh "$d/patch.diff" "$p" quick "$slot" 2>&1)
echo "FIRSTRUN $p $(echo "$out" | grep -o 'exit=[0-9]*') $(echo "$out" | grep -o 'signature: [^ ]*' | head -2 | tr '\n' ' ')"
