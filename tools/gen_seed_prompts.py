#!/usr/bin/env python3
"""tools/gen_seed_prompts.py <round>   write /tmp/agent<round>-Cxx.txt (one per property) and create the scratch
worktrees /tmp/w<round>-Cxx of /repo. The prompt contains only the property text, the code anchors and
one line per earlier seed naming its mechanism (so that the new seeder picks something else)."""
import json, sys, re, subprocess, os, glob
rnd = sys.argv[1]
props = [json.loads(l) for l in open('/verif/properties.jsonl')]
TEMPLATE = open('/verif/tools/seed_prompt_template.txt').read()
for p in props:
    pid = p['id']
    wt = f'/tmp/w{rnd}-{pid}'
    taken = []
    for d in sorted(glob.glob(f'/verif/seeded/agent*-{pid}')):
        try: m = json.load(open(d + '/meta.json'))
        except Exception: continue
        patch = open(d + '/patch.diff').read()
        files = sorted(set(re.findall(r'^\+\+\+ b/(\S+)', patch, re.M)))
        taken.append(f"  changed {', '.join(files)}; manifests with: {m.get('needs', '?')}")
    mech = '; '.join(f"{m['name']} @ {m['where']}" for m in p['anchors'].get('mechanism', []))
    prop = f"{pid}: {p['title']}\n\nSTATEMENT: {p['statement']}\n\nQUANTIFIER: {p['quantifier']['text']}\n\nCODE ANCHORS (files): {', '.join(p['anchors']['files'])}\nMECHANISMS: {mech}\n"
    t = TEMPLATE.replace('{WT}', wt).replace('{ID}', pid).replace('{RND}', rnd).replace('{PROP}', prop).replace('{TAKEN}', '\n'.join(taken))
    open(f'/tmp/agent{rnd}-{pid}.txt', 'w').write(t)
    if not os.path.exists(wt):
        subprocess.run(['git', '-C', '/repo', 'worktree', 'add', '-q', wt, 'HEAD'], check=True)
print('ok')
