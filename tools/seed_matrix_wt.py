#!/usr/bin/env python3
"""tools/seed_matrix_wt.py [-j N] [prefix | prefix-Cxx ...]   run every seed of seeded/<prefix>-Cxx (default: all agent* prefixes)
against its property's check in scratch worktrees (tools/selftest_wt.sh: /repo is left alone, N at a time), print a
detection table and refresh detected_by / signatures in each meta.json."""
import sys, os, re, json, glob, subprocess, queue, threading
args = sys.argv[1:]
jobs = 4
if args[:1] == ['-j']:
    jobs = int(args[1]); args = args[2:]
prefixes = args or sorted({os.path.basename(d).rsplit('-', 1)[0] for d in glob.glob('/verif/seeded/agent*-C*')}, key=lambda s: (len(s), s))
work = []
for pre in prefixes:
    dirs = sorted(glob.glob(f'/verif/seeded/{pre}-C*'))
    if re.fullmatch(r'.+-C\d\d', pre) and os.path.isdir(f'/verif/seeded/{pre}'):
        dirs, pre = [f'/verif/seeded/{pre}'], pre.rsplit('-', 1)[0]  # one seed, named in full
    for d in dirs:
        cid = os.path.basename(d)[len(pre) + 1:]
        meta = {}
        try: meta = json.load(open(d + '/meta.json'))
        except Exception: pass
        if str(meta.get('status', '')).startswith('obsolete'):
            print(f'{pre} {cid} OBSOLETE (see meta.json)', flush=True); continue
        work.append((pre, cid, d))
q = queue.Queue()
for w in work: q.put(w)
lock = threading.Lock()
def worker(slot):
    while True:
        try: pre, cid, d = q.get_nowait()
        except queue.Empty: return
        r = subprocess.run(['/verif/tools/selftest_wt.sh', d + '/patch.diff', cid, 'quick', f'm{slot}'], capture_output=True, text=True)
        out = r.stdout + r.stderr
        m = re.search(r'exit=(\d+)', out)
        rc = m.group(1) if m else '?'
        s = 'DETECTED' if rc == '1' else ('MISSED' if rc == '0' else 'BROKEN(' + out.strip().splitlines()[-1][:80] + ')' if out.strip() else 'BROKEN')
        sigs = re.findall(r'signature: (\S+)', out)[:3]
        with lock:
            print(pre, cid, s, ' '.join(sigs), flush=True)
            p = d + '/meta.json'
            meta = json.load(open(p)) if os.path.exists(p) else {'kind': 'independent sub-agent seed', 'breaks': cid}
            meta['ran'] = f'tools/selftest_wt.sh {d[len("/verif/"):]}/patch.diff {cid} quick'
            meta['detected_by'] = f'./check {cid} quick' if s == 'DETECTED' else s
            if sigs or s != 'DETECTED': meta['signatures'] = sigs
            json.dump(meta, open(p, 'w'), indent=1, ensure_ascii=False)
ts = [threading.Thread(target=worker, args=(i,)) for i in range(jobs)]
for t in ts: t.start()
for t in ts: t.join()
