#!/usr/bin/env python3
"""Runs the pinned test suite of a vuego tree and compares with /root/.vp/BASELINE.json.
usage: suite.py [repo_dir]   exit 0 iff every stable_pass test passes."""
import json, subprocess, sys, os
repo = sys.argv[1] if len(sys.argv) > 1 else "/repo"
base = json.load(open("/root/.vp/BASELINE.json"))
want = set(base["stable_pass"])
env = dict(os.environ, GOFLAGS="-mod=mod", GOPROXY="off")
p = subprocess.run(["go", "test", "-json", "-vet=off", "-count=1", "-timeout", "25m", "./..."], cwd=repo, env=env, capture_output=True, text=True)
passed, failed = set(), set()
for line in p.stdout.splitlines():
    try: ev = json.loads(line)
    except Exception: continue
    if ev.get("Test") and ev.get("Action") in ("pass", "fail"):
        name = ev["Package"] + "::" + ev["Test"]
        (passed if ev["Action"] == "pass" else failed).add(name)
missing = sorted(want - passed)
print(f"baseline={len(want)} passed={len(passed)} failed={len(failed)} missing_from_baseline={len(missing)}")
for m in missing[:40]: print("  NOT PASSING:", m)
for f in sorted(failed - want)[:10]: print("  failing, not in baseline:", f)
if not passed: print(p.stdout[-2000:], p.stderr[-2000:])
sys.exit(1 if missing else 0)
