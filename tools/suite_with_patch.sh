#!/bin/bash
# tools/suite_with_patch.sh <patch.diff>  run the pinned suite on a scratch worktree with the patch applied
set -u
wt=$(mktemp -d /tmp/swp.XXXXXX); rmdir "$wt"
git -C /repo worktree add -q "$wt" HEAD || exit 2
trap 'git -C /repo worktree remove --force "$wt" >/dev/null 2>&1' EXIT
p=$(readlink -f "$1"); (cd "$wt" && git apply "$p") || { echo "patch does not apply"; exit 2; }
/verif/tools/suite.py "$wt"
