#!/bin/bash
# tools/selftest_wt.sh <patch.diff> <Cxx> [tier] [slot]   like selftest.sh, but /repo is left alone: the seeded
# change is applied to a scratch worktree of /repo's HEAD (/tmp/stwt-<slot>, removed afterwards) and the
# check runs against that tree (VERIF_REPO). Safe while a background run builds from /repo; several
# slots can run side by side. exit 0 iff the check reported a VIOLATION (exit 1) for the seeded change.
set -u
patch=$(readlink -f "$1"); id=$2; tier=${3:-quick}; slot=${4:-0}
wt=/tmp/stwt-$slot
git -C /repo worktree remove --force "$wt" >/dev/null 2>&1; rm -rf "$wt"
git -C /repo worktree add -q --detach "$wt" HEAD || exit 2
cleanup() { git -C /repo worktree remove --force "$wt" >/dev/null 2>&1; rm -rf "$wt" "/verif/.build/out-$(echo "$wt" | tr '/' '_')"; }
trap cleanup EXIT
git -C "$wt" apply "$patch" || { echo "patch does not apply" >&2; exit 2; }
cd /verif
out=$(VERIF_REPO="$wt" ./check "$id" "$tier" 2>&1); rc=$?
echo "$out" | grep -E "^VIOLATION|signature:|^C[0-9]+ (quick|thorough)|HARNESS|failed" | head -12
echo "exit=$rc"
[ $rc -eq 1 ]
