package checks

import (
	"encoding/json"
	"fmt"
	"strings"

	"golang.org/x/net/html"

	"github.com/titpetric/vuego"

	"verif/engine/core"
	"verif/engine/htmlcmp"
)

// C05: components receive exactly their props; front-matter wins; nothing leaks back;
// :required fails exactly when a required name was not provided; shorthand == include.

type c05Val struct {
	V       any
	Defined bool // semantics of "provided" defined by the statement
}

var c05Bound = map[string]c05Val{
	"int7":    {7, true},
	"float":   {1.5, true},
	"str":     {"s", true},
	"boolT":   {true, true},
	"slice":   {[]int{1, 2}, true},
	"map":     {map[string]any{"k": "v"}, true},
	"jsonarr": {"[1,2]", true}, // strings that look like JSON stay strings
	"jsonobj": {`{"k":1}`, true},
	"zero":    {0, true},
	"boolF":   {false, true},
	"empty":   {"", true},
	"nilv":    {nil, false},
	"missing": {nil, false},
}

// props bound to an expression that is not a path into the data: literals, negation, comparison
var c05Exprs = map[string]struct {
	Src string
	V   any
}{
	"lit0": {"0", 0}, "litfalse": {"false", false}, "litempty": {"''", ""}, "lit7": {"7", 7}, "littrue": {"true", true}, "litstr": {"'s'", "s"},
	"notT": {"!boolT", false}, "notF": {"!boolF", true}, "cmpF": {"int7>9", false}, "cmpT": {"int7>3", true}, "sum": {"int7 + 1", 8},
	// an object literal is a value of its own: a map of its keys with the typed values
	"obj":    {"{k: int7, s: 'x'}", map[string]any{"k": 7, "s": "x"}},
	"objarr": {"{ids: [1, 2], n: int7}", map[string]any{"ids": []any{1, 2}, "n": 7}},
}
var c05ExprNames = []string{"lit0", "litfalse", "litempty", "lit7", "littrue", "litstr", "notT", "notF", "cmpF", "cmpT", "sum", "obj", "objarr"}

var c05BoundNames = []string{"int7", "float", "str", "boolT", "slice", "map", "jsonarr", "jsonobj", "zero", "boolF", "empty", "nilv", "missing"}

type c05Case struct {
	AForm  string `json:"a"`                 // omit | static | interp | bound:<name> | vbind:<name>
	BForm  string `json:"b"`                 // omit | static | bound
	IncA   bool   `json:"inc_a"`             // includer defines a
	FmA    bool   `json:"fm_a"`              // component front-matter defines a
	FmNull bool   `json:"fm_null,omitempty"` // component front-matter defines a as null (a: ~): bound to nothing
	Req    string `json:"req"`               // none | a | a,b | a+b | require:a
	Shape  string `json:"shape"`             // single | twice | infor | nested
	Short  bool   `json:"short"`
}

func (c *c05Case) Key() string { return core.KeyOf(c) }

const c05Comp = "components/CompBox.vuego"

func (c *c05Case) files() (Files, map[string]any) {
	var tattr string
	switch c.Req {
	case "a":
		tattr = ` :required="a"`
	case "a,b":
		tattr = ` :required="a, b"`
	case "a+b":
		tattr = ` :required="a" :required="b"`
	case "require:a":
		tattr = ` :require="a"`
	}
	fm := ""
	if c.FmA {
		fm = "---\na: FM_A\n---\n"
	}
	if c.FmNull {
		fm = "---\na: ~\n---\n"
	}
	body := `<div class="comp"><i class="pa">{{ a }}</i><i class="ta">{{ a | type }}</i><i class="pb">{{ b }}</i><i class="po">{{ o }}</i>`
	if c.Shape == "nested" {
		if c.Short {
			// the shorthand form of the inner include, written inside the component file
			body += `<inner-d :x="a"></inner-d><i class="lx">{{ x }}</i>`
		} else {
			body += `<template include="d.vuego" :x="a"></template><i class="lx">{{ x }}</i>`
		}
	}
	if c.Shape == "slotinc" {
		body += `<span class="sl"><slot></slot></span>`
	}
	body += `</div>`
	// what follows the component's <template> root is part of the component too
	f := Files{c05Comp: fm + `<template` + tattr + `>` + body + `</template><i class="tail">{{ a }}</i>`}
	f["d.vuego"] = `<div class="inner"><i class="dx">{{ x }}</i><i class="da">{{ a }}</i></div>`
	f["components/InnerD.vuego"] = f["d.vuego"]

	props := func(aForm string) string {
		var p []string
		kind, name, _ := strings.Cut(aForm, ":")
		switch kind {
		case "static":
			p = append(p, `a="sa"`)
		case "interp":
			p = append(p, `a="x{{ o }}y"`)
		case "expr":
			p = append(p, `:a="`+c05Exprs[name].Src+`"`)
		case "bound":
			p = append(p, `:a="`+name+`"`)
		case "vbind":
			p = append(p, `v-bind:a="`+name+`"`)
		}
		switch c.BForm {
		case "static":
			p = append(p, `b="sb"`)
		case "bound":
			p = append(p, `:b="int7"`)
		}
		if len(p) == 0 {
			return ""
		}
		return " " + strings.Join(p, " ")
	}
	cond := ""
	inc := func(aForm string) string {
		if c.Short {
			return `<comp-box` + cond + props(aForm) + `></comp-box>`
		}
		return `<template include="` + c05Comp + `"` + cond + props(aForm) + `></template>`
	}
	leak := `<p id="leak"><i class="la">{{ a }}</i><i class="lb">{{ b }}</i></p>`
	var page string
	switch c.Shape {
	case "single", "nested":
		page = `<div id="inc">` + inc(c.AForm) + `</div>` + leak
	case "slotinc": // an include written inside the slot content of the include
		inner := `<template include="d.vuego" :x="o"></template>`
		if c.Short {
			inner = `<inner-d :x="o"></inner-d>`
		}
		full := inc(c.AForm)
		full = full[:strings.LastIndex(full, "</")] + inner + full[strings.LastIndex(full, "</"):]
		page = `<div id="inc">` + full + `</div>` + leak
	case "iftrue": // a conditional include is an include
		cond = ` v-if="o"`
		page = `<div id="inc">` + inc(c.AForm) + `</div>` + leak
	case "ifelse":
		cond = ` v-else`
		page = `<div id="inc"><u v-if="nothing">n</u>` + inc(c.AForm) + `</div>` + leak
	case "twice":
		page = `<div id="inc">` + inc(c.AForm) + `</div><div id="inc2">` + inc("omit") + `</div>` + leak
	case "infor":
		page = `<div id="inc"><section v-for="it in two">` + inc(c.AForm) + `</section></div>` + leak
	case "inforsame":
		// the loop variable has the name of the prop it is bound to (<x v-for="a in xs" :a="a">)
		page = `<div id="inc"><section v-for="a in pair">` + inc("bound:a") + `</section></div>` + leak
	case "inforself":
		// v-for on the include tag itself
		if c.Short {
			page = `<div id="inc"><comp-box v-for="a in pair" :a="a"></comp-box></div>` + leak
		} else {
			page = `<div id="inc"><template v-for="a in pair" include="` + c05Comp + `" :a="a"></template></div>` + leak
		}
	}
	f["page.vuego"] = page
	data := map[string]any{"o": "OUT", "two": []int{0, 1}, "pair": []string{"x", "y"}}
	for n, v := range c05Bound {
		if n != "missing" {
			data[n] = v.V
		}
	}
	if c.IncA {
		data["a"] = "INC_A"
	}
	return f, data
}

// expected value of a inside the component for a given prop form
func (c *c05Case) wantA(aForm string) (val any, provided, defined bool) {
	kind, name, _ := strings.Cut(aForm, ":")
	defined = true
	switch kind {
	case "static":
		val, provided = "sa", true
	case "interp":
		val, provided = "xOUTy", true
	case "expr":
		val, provided = c05Exprs[name].V, true
	case "bound", "vbind":
		bv := c05Bound[name]
		val, provided, defined = bv.V, true, bv.Defined
	}
	if c.FmNull {
		return nil, provided, true
	}
	if c.FmA {
		return "FM_A", provided, defined
	}
	if provided {
		return val, true, defined
	}
	if c.IncA {
		return "INC_A", false, true
	}
	return nil, false, true
}

// c05Class reduces a prop form to its class for signatures.
func c05Class(aForm string) string {
	kind, name, _ := strings.Cut(aForm, ":")
	switch name {
	case "":
		return kind
	case "zero", "boolF", "empty":
		return kind + ":falsy-" + name
	case "lit0", "litfalse", "litempty", "notT", "cmpF":
		return kind + ":falsy-" + name
	case "nilv", "missing":
		return kind + ":" + name
	}
	return kind + ":truthy"
}

func c05Str(v any) string {
	if v == nil {
		return ""
	}
	return fmt.Sprint(v)
}

// runPropName: a prop may be called like something the engine knows - key (the list hint of a
// loop), is, ref, slot, name, class, style, id, required, include... - and is a prop all the same:
// the component receives it (and :required is satisfied by it) on a plain include, on an include
// that loops itself, on one inside a loop, on one that is slot content used once per row, and through the shorthand tag.
func (c *c05Case) runPropName(ctx *core.Ctx, name string) {
	ctx.NonTrivial()
	for _, form := range []string{"bound", "static", "vbind"} {
		for _, place := range []string{"plain", "looping", "inloop", "slotrows"} {
			attr := map[string]string{"bound": ` :` + name + `="p.k"`, "static": ` ` + name + `="s{{ p.k }}"`, "vbind": ` v-bind:` + name + `="p.k"`}[form]
			tag := `template include="components/Item.vuego"`
			end := "template"
			if c.Short {
				tag, end = "item", "item"
			}
			var page string
			switch place {
			case "plain":
				page = `<template :p="ps[0]"></template><ul><` + tag + attr + `></` + end + `></ul>`
			case "looping":
				page = `<ul><` + tag + ` v-for="p in ps"` + attr + `></` + end + `></ul>`
			case "inloop":
				page = `<ul><li v-for="p in ps"><` + tag + attr + `></` + end + `></li></ul>`
			case "slotrows": // the include is slot content that a list component uses once per row
				page = `<template include="rows.vuego" :rows="ps"><template v-slot="{ p }"><` + tag + attr + `></` + end + `></template></template>`
			}
			files := Files{"components/Item.vuego": `<template :required="` + name + `"><b class="it">{{ ` + name + ` }}</b></template>`, "page.vuego": page,
				"rows.vuego": `<ul><li v-for="r in rows"><slot :p="r"></slot></li></ul>`}
			data := map[string]any{"ps": []map[string]any{{"k": "a"}, {"k": "b"}}, name: "PAGE"}
			ctx.Eval(1)
			out, err := renderPage(files, "page.vuego", data, vuego.WithComponents())
			if err != nil {
				ctx.Violation("required-not-satisfied", "propname/"+place+"/"+form, name, fmt.Sprintf("page %q: %v", page, err))
				continue
			}
			var got []string
			for _, n := range htmlcmp.Find(htmlcmp.Parse(out), func(n *html.Node) bool { cl, _ := htmlcmp.Attr(n, "class"); return cl == "it" }) {
				got = append(got, htmlcmp.Text(n))
			}
			want := []string{"a", "b"}
			if place == "plain" {
				want = []string{"a"}
			}
			if form == "static" {
				for i := range want {
					want[i] = "s" + want[i]
				}
			}
			ctx.Outcome(strings.Join(got, ","))
			if strings.Join(got, ",") != strings.Join(want, ",") {
				ctx.Violation("prop-value", "propname/"+place+"/"+form, name, fmt.Sprintf("page %q: the component shows %q for its prop %s, want %q (out %q)", page, got, name, want, clip(out, 300)))
			}
		}
	}
}

// runShadowPath: a prop (or a front-matter key of the component) with the name of an includer
// variable is the component's value of that name for every way of reading it - also for a path
// below it that only the includer's value has (user.name where the includer's user is a map
// with a name and the component's user is another map, a text, a number, nothing).
func (c *c05Case) runShadowPath(ctx *core.Ctx, how string) {
	ctx.NonTrivial()
	attr, fm := "", ""
	inner := "" // what the component's own user prints as
	switch how {
	case "boundmap":
		attr, inner = ` :user="guest"`, "map[role:guest]"
	case "static":
		attr, inner = ` user="nobody"`, "nobody"
	case "boundint":
		attr, inner = ` :user="seven"`, "7"
	case "boundempty":
		attr, inner = ` :user="emptymap"`, "map[]"
	case "frontmatter":
		fm, inner = "---\nuser:\n  role: fm\n---\n", "map[role:fm]"
	case "loopvar":
		inner = "x"
	}
	comp := fm + `<p id="c">[{{ user.name }}]<i :title="user.name" :class="{on: user.name}">t</i><u v-if="user.name">if</u><s v-for="ch in user.tags">{{ ch }}</s>{{ user }}</p>`
	if how == "loopvar" {
		comp = `<div v-for="user in items"><p id="c">[{{ user.name }}]<i :title="user.name" :class="{on: user.name}">t</i><u v-if="user.name">if</u><s v-for="ch in user.tags">{{ ch }}</s>{{ user }}</p></div>`
	}
	tag, end := `template include="components/Who.vuego"`, "template"
	if c.Short {
		tag, end = "who", "who"
	}
	files := Files{"components/Who.vuego": comp, "page.vuego": `<` + tag + attr + `></` + end + `><p id="after">{{ user.name }}</p>`}
	data := map[string]any{"user": map[string]any{"name": "Ann", "tags": []string{"a", "b"}}, "guest": map[string]any{"role": "guest"}, "seven": 7, "emptymap": map[string]any{}, "items": []string{"x"}}
	ctx.Eval(1)
	out, err := renderPage(files, "page.vuego", data, vuego.WithComponents())
	if err != nil {
		ctx.Violation("render-error", "shadowpath", how, fmt.Sprintf("%s: %v", files, err))
		return
	}
	nodes := htmlcmp.Parse(out)
	cp := htmlcmp.ByID(nodes, "c")
	if cp == nil {
		ctx.Violation("prop-value", "shadowpath/"+how, "component-lost", fmt.Sprintf("%s out %q", files, out))
		return
	}
	got := strings.Join(strings.Fields(htmlcmp.Text(cp)), " ")
	ctx.Outcome(got)
	// nothing of the includer's user: no name, no title, no class, no v-if branch, no tags - only the component's own value
	want := "[]t" + inner
	if strings.ReplaceAll(got, " ", "") != strings.ReplaceAll(want, " ", "") || strings.Contains(out, `title="Ann"`) || strings.Contains(out, `class="on"`) {
		ctx.Violation("prop-value", "shadowpath/"+how, "includer-value-below-shadowed-name", fmt.Sprintf("%s\nthe component shows %q (out %q), want %q: its own user has no name and no tags", files, got, clip(out, 300), want))
	}
	if a := htmlcmp.ByID(nodes, "after"); a == nil || htmlcmp.Text(a) != "Ann" {
		ctx.Violation("leak", "shadowpath/"+how, "after", fmt.Sprintf("%s out %q", files, out))
	}
}

// c05JSONish: static prop texts that start like JSON. A text that IS one JSON array or object is
// decoded (the documented way of handing a list to a component from the tag); any other text is
// the string the template's author wrote. Want = what {{ p }} prints in the component.
var c05JSONish = []struct{ Text, Want string }{
	{`[1, 2]`, "[1 2]"}, {`{"a": 1}`, "map[a:1]"}, {`[]`, "[]"}, {`["x"]`, "[x]"},
	{`[1] Introduction`, "[1] Introduction"}, {`{} is the empty object`, "{} is the empty object"}, {`[draft] x`, "[draft] x"}, {`{a} b`, "{a} b"},
	{`[1,2] [3]`, "[1,2] [3]"}, {`{"a": 1} tail`, `{"a": 1} tail`}, {`[1]x`, "[1]x"}, {`[1],`, "[1],"}, {`[[1]] ]`, "[[1]] ]"}, {`{"a":{}}}`, `{"a":{}}}`},
	{`[`, "["}, {`{`, "{"}, {`[1`, "[1"}, {`1 [2]`, "1 [2]"}, {`"q" x`, `"q" x`},
}

func (c *c05Case) runJSONish(ctx *core.Ctx, e struct{ Text, Want string }) {
	ctx.NonTrivial()
	q := `"`
	if strings.Contains(e.Text, `"`) {
		q = `'`
	}
	for _, form := range []string{"static", "interp", "interp-part"} {
		attr := ` p=` + q + e.Text + q
		data := map[string]any{"year": 1, "v": e.Text}
		switch form {
		case "interp": // the whole text comes from data
			attr = ` p="{{ v }}"`
		case "interp-part":
			if !strings.Contains(e.Text, "1") {
				continue
			}
			attr = ` p=` + q + strings.Replace(e.Text, "1", "{{ year }}", 1) + q
		}
		inc := `<template include="components/Show.vuego"` + attr + `></template>`
		if c.Short {
			inc = `<show` + attr + `></show>`
		}
		files := Files{"components/Show.vuego": `<h2 id="p">{{ p }}</h2>`, "page.vuego": `<div>` + inc + `</div>`}
		ctx.Eval(1)
		out, err := renderPage(files, "page.vuego", data, vuego.WithComponents())
		if err != nil {
			ctx.Violation("render-error", "jsonish/"+form, "static-prop", fmt.Sprintf("page %q: %v", files["page.vuego"], err))
			continue
		}
		n := htmlcmp.ByID(htmlcmp.Parse(out), "p")
		got := "<lost>"
		if n != nil {
			got = htmlcmp.Text(n)
		}
		ctx.Outcome(got)
		if got != e.Want {
			kind := "text-that-continues-after-a-json-value"
			if json.Valid([]byte(e.Text)) {
				kind = "json-value"
			}
			ctx.Violation("prop-value", "jsonish/"+form, kind, fmt.Sprintf("page %q: the component prints %q for its prop, want %q", files["page.vuego"], got, e.Want))
		}
	}
}

// runWide: an include with N props of alternating forms (static, bound, interpolated, v-bind:)
func (c *c05Case) runWide(ctx *core.Ctx, n int) {
	ctx.NonTrivial()
	var props, body, want []string
	for i := 0; i < n; i++ {
		name := fmt.Sprintf("p%c", 'a'+i)
		switch i % 4 {
		case 0:
			props = append(props, fmt.Sprintf(`%s="s%d"`, name, i))
			want = append(want, fmt.Sprintf("s%d", i))
		case 1:
			props = append(props, fmt.Sprintf(`:%s="int7 + %d"`, name, i))
			want = append(want, fmt.Sprint(7+i))
		case 2:
			props = append(props, fmt.Sprintf(`%s="x{{ o }}%d"`, name, i))
			want = append(want, fmt.Sprintf("xOUT%d", i))
		case 3:
			props = append(props, fmt.Sprintf(`v-bind:%s="str"`, name))
			want = append(want, "s")
		}
		body = append(body, fmt.Sprintf(`<i class="v">{{ %s }}</i>`, name))
	}
	inc := `<template include="` + c05Comp + `" ` + strings.Join(props, " ") + `></template>`
	if c.Short {
		inc = `<comp-box ` + strings.Join(props, " ") + `></comp-box>`
	}
	files := Files{c05Comp: `<div class="comp">` + strings.Join(body, "") + `</div>`,
		"page.vuego": `<div id="inc">` + inc + `</div><p id="leak">` + strings.Join(body, "") + `</p>`}
	data := map[string]any{"o": "OUT", "int7": 7, "str": "s"}
	ctx.Eval(1)
	out, err := renderPage(files, "page.vuego", data, vuego.WithComponents())
	where := fmt.Sprintf("wide/%d", n)
	if err != nil {
		ctx.Violation("render-error", "wide", fmt.Sprint(c.Short), fmt.Sprintf("%v\n%s", err, files))
		return
	}
	nodes := htmlcmp.Parse(out)
	vals := func(id string) []string {
		root := htmlcmp.ByID(nodes, id)
		var r []string
		if root == nil {
			return nil
		}
		for _, e := range htmlcmp.Find([]*html.Node{root}, func(e *html.Node) bool { cl, _ := htmlcmp.Attr(e, "class"); return cl == "v" }) {
			r = append(r, htmlcmp.Text(e))
		}
		return r
	}
	if got := vals("inc"); strings.Join(got, "|") != strings.Join(want, "|") {
		ctx.Violation("prop-value", where, fmt.Sprint(c.Short), fmt.Sprintf("props seen by the component %q want %q\n%s", got, want, files))
	}
	if got := vals("leak"); strings.Join(got, "") != "" {
		ctx.Violation("leak", where, fmt.Sprint(c.Short), fmt.Sprintf("props visible after the include: %q\n%s", got, files))
	}
	ctx.Outcome(out)
}

// c05Places: where an include can be written. %s is the include (either spelling).
var c05Places = map[string]string{
	"svg":     `<svg viewBox="0 0 9 9"><g>%s</g></svg>`,
	"math":    `<math><mrow>%s</mrow></math>`,
	"table":   `<table><tbody><tr><td>%s</td></tr></tbody></table>`,
	"list":    `<ul><li>%s</li></ul>`,
	"p":       `<p>text %s more</p>`,
	"button":  `<button type="button">%s</button>`,
	"pre":     `<pre>%s</pre>`,
	"tmplif":  `<template v-if="o">%s</template>`,
	"details": `<details><summary>s</summary>%s</details>`,
	// (not inside <foreignObject>: golang.org/x/net/html loses a <template> there together with
	// everything that follows it, before vuego sees the document)
	"label":   `<label>l %s</label>`,
	"heading": `<h2>%s</h2>`,
}

// runPlace: a registered shorthand tag behaves exactly like the equivalent <template include>
// wherever it is written (differential: the two spellings give the same bytes / the same error)
func (c *c05Case) runPlace(ctx *core.Ctx, place string) {
	ctx.NonTrivial()
	comp := "---\nfill: red\n---\n<template :required=\"cx, r\"><circle :cx=\"cx\" :r=\"r\" :fill=\"fill\" data-l=\"{{ label }}\">{{ cx | type }}</circle></template>"
	props := ` :cx="int7" r="2" fill="blue" label="dot {{ o }}"`
	if c.Req == "crlf" || c.Req == "trail" {
		// the component file as an editor on Windows saves it / with blanks after the closing ---
		if c.Req == "crlf" {
			comp = strings.ReplaceAll(comp, "\n", "\r\n")
		} else {
			comp = strings.Replace(comp, "\n---\n", "\n---  \n", 1)
		}
		props = ` :cx="int7" r="2" label="dot {{ o }}"` // fill comes from the front-matter only
	}
	if c.Req == "a" {
		props = ` :cx="int7" label="x"` // r is missing
	}
	render := func(inc string) (string, error) {
		files := Files{"components/IconDot.vuego": comp, "components/Other.vuego": `<b>OTHER</b>`, "page.vuego": `<div id="inc">` + fmt.Sprintf(c05Places[place], inc) + `</div><p id="leak">{{ cx }}{{ r }}</p>`}
		ctx.Eval(1)
		return renderPage(files, "page.vuego", map[string]any{"o": "OUT", "int7": 7}, vuego.WithComponents())
	}
	explicit, err1 := render(`<template include="components/IconDot.vuego"` + props + `></template>`)
	shortProps := props
	if c.Req == "incattr" {
		shortProps = ` include="components/Other.vuego"` + props // the tag names the file, not an attribute of that name
	}
	short, err2 := render(`<icon-dot` + shortProps + `></icon-dot>`)
	if (err1 != nil) != (err2 != nil) || explicit != short {
		ctx.Violation("shorthand-differs", "place/"+place, "req="+c.Req, fmt.Sprintf("<template include> gives %q (err %v); the shorthand tag gives %q (err %v)", clip(explicit, 300), err1, clip(short, 300), err2))
		return
	}
	if c.Req == "a" {
		if err1 == nil || !strings.Contains(err1.Error(), "r") {
			ctx.Violation("required-not-enforced", "place/"+place, "explicit", fmt.Sprintf("missing r: err=%v out %q", err1, clip(explicit, 200)))
		}
		return
	}
	if err1 != nil {
		ctx.Violation("render-error", "place/"+place, "explicit", err1.Error())
		return
	}
	if !strings.Contains(explicit, `cx="7"`) || !strings.Contains(explicit, `fill="red"`) || !strings.Contains(explicit, `data-l="dot OUT"`) {
		ctx.Violation("prop-value", "place/"+place, "explicit", fmt.Sprintf("component not rendered with its props and front-matter: %q", clip(explicit, 300)))
	}
	ctx.Outcome(explicit)
}

func (c *c05Case) Run(ctx *core.Ctx) {
	if strings.HasPrefix(c.Shape, "place:") {
		c.runPlace(ctx, strings.TrimPrefix(c.Shape, "place:"))
		return
	}
	if strings.HasPrefix(c.Shape, "propname:") {
		c.runPropName(ctx, strings.TrimPrefix(c.Shape, "propname:"))
		return
	}
	if strings.HasPrefix(c.Shape, "shadowpath:") {
		c.runShadowPath(ctx, strings.TrimPrefix(c.Shape, "shadowpath:"))
		return
	}
	if strings.HasPrefix(c.Shape, "jsonish:") {
		var n int
		fmt.Sscanf(c.Shape, "jsonish:%d", &n)
		c.runJSONish(ctx, c05JSONish[n])
		return
	}
	if strings.HasPrefix(c.Shape, "wide:") {
		var n int
		fmt.Sscanf(c.Shape, "wide:%d", &n)
		c.runWide(ctx, n)
		return
	}
	files, data := c.files()
	ctx.Eval(1)
	ctx.NonTrivial()
	out, err := renderPage(files, "page.vuego", data, vuego.WithComponents())
	where := c.Shape
	if c.Short {
		where += "/short"
	}
	trig := c05Class(c.AForm)
	cfg := fmt.Sprintf("a=%s/b=%s/inc=%v/fm=%v/req=%s", c.AForm, c.BForm, c.IncA, c.FmA, c.Req)
	_ = cfg

	// --- required
	wa, aProvided, aDefined := c.wantA(c.AForm)
	if c.Shape == "inforsame" || c.Shape == "inforself" {
		aProvided, aDefined = true, true // bound to the loop variable (strings "x", "y")
	}
	bProvided := c.BForm != "omit"
	reqA := c.Req != "none"
	reqB := c.Req == "a,b" || c.Req == "a+b"
	// "provided" is only defined when the name exists nowhere else (includer scope, front-matter)
	reqDefined := aDefined && !(reqA && !aProvided && (c.IncA || c.FmA))
	wantErr := (reqA && !aProvided) || (reqB && !bProvided)
	if c.Shape == "twice" && reqA && !c.IncA && !c.FmA {
		wantErr = true // the second instance omits a
	}
	if !reqDefined {
		ctx.Zone("required-name-visible-elsewhere-or-undefined-binding")
	} else {
		if wantErr && err == nil {
			ctx.Violation("required-not-enforced", where, trig, fmt.Sprintf("render succeeded although a required prop is missing\n%s out %q", files, clip(out, 300)))
			return
		}
		if !wantErr && err != nil {
			ctx.Violation("required-false-alarm", where, trig, fmt.Sprintf("render failed although every required prop was provided: %v\n%s", err, files))
			return
		}
		if wantErr {
			name := "a"
			if reqA && aProvided && !(c.Shape == "twice") {
				name = "b"
			}
			if !strings.Contains(err.Error(), "'"+name+"'") && !strings.Contains(err.Error(), name) {
				ctx.Violation("required-error-text", where, trig, fmt.Sprintf("error %q does not name %q", err, name))
			}
			if out != "" {
				ctx.Violation("required-partial-output", where, trig, fmt.Sprintf("error %v but output %q", err, clip(out, 200)))
			}
			ctx.Outcome("required-error")
			return
		}
	}
	if err != nil {
		ctx.Outcome("error")
		return
	}
	if !aDefined {
		ctx.Zone("binding-of-nil-or-undefined")
		return
	}

	// --- values inside the component(s)
	nodes := htmlcmp.Parse(out)
	get := func(root *html.Node, class string) []string {
		var r []string
		for _, n := range htmlcmp.Find([]*html.Node{root}, func(n *html.Node) bool { cl, _ := htmlcmp.Attr(n, "class"); return cl == class }) {
			r = append(r, htmlcmp.Text(n))
		}
		return r
	}
	inc := htmlcmp.ByID(nodes, "inc")
	if inc == nil {
		ctx.Violation("component-lost", where, trig, fmt.Sprintf("no #inc in %q", out))
		return
	}
	n := 1
	if c.Shape == "infor" {
		n = 2
	}
	rep := func(s string) []string {
		var r []string
		for i := 0; i < n; i++ {
			r = append(r, s)
		}
		return r
	}
	chk := func(kind, class string, root *html.Node, want []string) {
		got := get(root, class)
		if strings.Join(got, "\x00") != strings.Join(want, "\x00") {
			ctx.Violation(kind, where+"/."+class, trig, fmt.Sprintf("[%s] .%s = %q want %q\n%s out %q", cfg, class, got, want, files, clip(out, 400)))
		}
	}
	if c.Shape == "inforsame" || c.Shape == "inforself" {
		w := []string{"x", "y"}
		if c.FmA {
			w = []string{"FM_A", "FM_A"}
		}
		chk("prop-value", "pa", inc, w)
		leak := htmlcmp.ByID(nodes, "leak")
		wl := ""
		if c.IncA {
			wl = "INC_A"
		}
		if leak == nil {
			ctx.Violation("component-lost", where, trig, fmt.Sprintf("no #leak in %q", out))
			return
		}
		chk("leak", "la", leak, []string{wl})
		chk("leak", "lb", leak, []string{""})
		ctx.Outcome(out)
		return
	}
	chk("prop-value", "pa", inc, rep(c05Str(wa)))
	chk("prop-value", "tail", inc, rep(c05Str(wa)))
	wt := "<nil>"
	if wa != nil {
		wt = fmt.Sprintf("%T", wa)
	}
	chk("prop-type", "ta", inc, rep(wt))
	wb := ""
	switch c.BForm {
	case "static":
		wb = "sb"
	case "bound":
		wb = "7"
	}
	chk("prop-value", "pb", inc, rep(wb))
	chk("includer-visible", "po", inc, rep("OUT"))
	if c.Shape == "slotinc" {
		chk("include-in-slot-content", "dx", inc, rep("OUT"))
	}
	if c.Shape == "nested" {
		chk("nested-prop", "dx", inc, rep(c05Str(wa)))
		chk("nested-visible", "da", inc, rep(c05Str(wa)))
		chk("nested-leak", "lx", inc, rep(""))
	}
	if c.Shape == "twice" {
		inc2 := htmlcmp.ByID(nodes, "inc2")
		if inc2 == nil {
			ctx.Violation("component-lost", where, trig, fmt.Sprintf("no #inc2 in %q", out))
			return
		}
		w2, _, _ := c.wantA("omit")
		chk("instance-leak", "pa", inc2, []string{c05Str(w2)})
		chk("instance-leak", "pb", inc2, []string{wb})
	}
	// --- nothing leaks to the includer's following content
	leak := htmlcmp.ByID(nodes, "leak")
	if leak == nil {
		ctx.Violation("component-lost", where, trig, fmt.Sprintf("no #leak in %q", out))
		return
	}
	wl := ""
	if c.IncA {
		wl = "INC_A"
	}
	chk("leak", "la", leak, []string{wl})
	chk("leak", "lb", leak, []string{""})
	ctx.Outcome(out)

	// --- shorthand must equal the explicit include byte for byte
	if c.Short {
		ex := *c
		ex.Short = false
		f2, d2 := ex.files()
		ctx.Eval(1)
		out2, err2 := renderPage(f2, "page.vuego", d2, vuego.WithComponents())
		if err2 != nil || out2 != out {
			ctx.Violation("shorthand-differs", where, trig, fmt.Sprintf("shorthand %q vs include %q (%v)", clip(out, 300), clip(out2, 300), err2))
		}
	}
}

func init() {
	core.Register(&core.Check{
		ID:    "C05",
		Level: "exploration",
		Rule: "every combination of prop a {omitted, static, interpolated, :bound / v-bind: to 11 values of every JSON-like type incl. 0/false/\"\"/nil/undefined, bound to 11 expressions that are not data paths (literals 0 / false / '' / 7 / true / 's', negations, comparisons, a sum)} x prop b {omitted, static, bound} x includer defines a / not x component front-matter defines a / defines it as null / not x :required {none, a, 'a, b', repeated, :require} x shape {single, twice with different props, inside v-for, nested include, include carrying v-if, include carrying v-else, include inside the slot content of the include} - the inner includes of the nested and slot shapes in shorthand form too - x {explicit include, registered shorthand}; plus the two spellings of an include compared byte for byte in 11 places (inside svg, math, table cells, lists, paragraphs, buttons, pre, labels, headings, details, a conditional template), with all props and with a required one missing; plus includes carrying 1..14 props of alternating forms (static, bound expression, interpolated, v-bind:); " +
			"oracle: reference scope model for the values and types printed inside, the includer's following siblings, error iff a required name was not provided, shorthand byte-identical. non-trivial = all",
		Bounds:      map[string]string{"quick": "full product (include depth <= 2, fan-out <= 2)", "thorough": "same product"},
		Assumptions: []string{"a required name that is visible from the includer's scope or the component's front-matter although the include does not pass it, and bindings of nil/undefined values, are unconstrained"},
		Decode:      core.DecodeAs[c05Case](),
		Enumerate: func(tier string, emit func(core.Case)) {
			aForms := []string{"omit", "static", "interp"}
			for _, n := range c05BoundNames {
				aForms = append(aForms, "bound:"+n)
			}
			aForms = append(aForms, "vbind:int7", "vbind:zero", "vbind:str")
			for _, n := range c05ExprNames {
				aForms = append(aForms, "expr:"+n)
			}
			for place := range c05Places {
				emit(&c05Case{Shape: "place:" + place, Req: "none"})
				emit(&c05Case{Shape: "place:" + place, Req: "a"})
				emit(&c05Case{Shape: "place:" + place, Req: "incattr"})
				if place == "list" || place == "p" {
					emit(&c05Case{Shape: "place:" + place, Req: "crlf"})
					emit(&c05Case{Shape: "place:" + place, Req: "trail"})
				}
			}
			for _, name := range []string{"key", "is", "ref", "slot", "name", "id", "title", "type", "index", "item", "data", "value"} {
				emit(&c05Case{Shape: "propname:" + name})
				emit(&c05Case{Shape: "propname:" + name, Short: true})
			}
			for _, how := range []string{"boundmap", "static", "boundint", "boundempty", "frontmatter", "loopvar"} {
				emit(&c05Case{Shape: "shadowpath:" + how})
				emit(&c05Case{Shape: "shadowpath:" + how, Short: true})
			}
			for n := range c05JSONish {
				emit(&c05Case{Shape: fmt.Sprintf("jsonish:%d", n)})
				emit(&c05Case{Shape: fmt.Sprintf("jsonish:%d", n), Short: true})
			}
			for n := 1; n <= 14; n++ {
				emit(&c05Case{Shape: fmt.Sprintf("wide:%d", n)})
				emit(&c05Case{Shape: fmt.Sprintf("wide:%d", n), Short: true})
			}
			for _, shape := range []string{"inforsame", "inforself"} {
				for _, short := range []bool{false, true} {
					for _, b := range []string{"omit", "static", "bound"} {
						for _, incA := range []bool{false, true} {
							for _, fmA := range []bool{false, true} {
								emit(&c05Case{AForm: "bound:a", BForm: b, IncA: incA, FmA: fmA, Req: "none", Shape: shape, Short: short})
								emit(&c05Case{AForm: "bound:a", BForm: b, IncA: incA, FmA: fmA, Req: "a", Shape: shape, Short: short})
							}
						}
					}
				}
			}
			for _, shape := range []string{"single", "twice", "infor", "nested"} {
				for _, short := range []bool{false, true} {
					for _, a := range aForms {
						for _, incA := range []bool{false, true} {
							emit(&c05Case{AForm: a, BForm: "omit", IncA: incA, FmNull: true, Req: "none", Shape: shape, Short: short})
						}
					}
				}
			}
			for _, shape := range []string{"single", "twice", "infor", "nested", "iftrue", "ifelse", "slotinc"} {
				for _, short := range []bool{false, true} {
					for _, a := range aForms {
						for _, b := range []string{"omit", "static", "bound"} {
							for _, incA := range []bool{false, true} {
								for _, fmA := range []bool{false, true} {
									for _, req := range []string{"none", "a", "a,b", "a+b", "require:a"} {
										emit(&c05Case{AForm: a, BForm: b, IncA: incA, FmA: fmA, Req: req, Shape: shape, Short: short})
									}
								}
							}
						}
					}
				}
			}
		},
	})
}
