// Package checks holds one file per property: generator, reference model, oracle, classifier.
package checks
