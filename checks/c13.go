package checks

import (
	"bytes"
	"fmt"
	"strings"
	"testing/fstest"

	"github.com/titpetric/vuego"

	"verif/engine/core"
	"verif/engine/htmlcmp"
)

// C13: an expression means the same everywhere; pipes compose left to right; failures name the function.

type c13Case struct {
	Part  string `json:"part"` // expr | pipe | error
	Expr  string `json:"expr"`
	Shape string `json:"shape"`           // shape class of the expression (for signatures)
	Want  string `json:"want,omitempty"`  // expected value in canonical form "type:value" (expr/pipe)
	Fn    string `json:"fn,omitempty"`    // error: function name that must be named
	First string `json:"first,omitempty"` // pair: the expression evaluated before Expr on the same engine
}

func (c *c13Case) Key() string { return c.Part + "|" + c.Expr + "|" + c.First }

// ---- typed environment and reference evaluation

type c13Struct struct {
	Field string `json:"tag"`
	Num   int
}

// c13Outer holds a struct in a field: paths of two steps by JSON tag
type c13Outer struct {
	In c13Struct `json:"in"`
}

func c13Env() map[string]any {
	return map[string]any{
		"n": 5, "k": 2, "e0": 0, "acc": "\u00e9lan VITAL \u00f6L", "pn": vPtr(7), "f": 1.5, "s": "str", "e": "", "t": true, "b": false, "ns": "42",
		"sp1": "a b", "sp2": "a  b", "up": "A  b",
		// variables whose names strconv would take for a boolean or a float
		"T": 2, "nan": 4, "F": "eff", "big": 300, "minus": -1, "ix": 1, "kk": "k", "formatDate": "FDVAR", "jsonPretty": 7, "yamlFile": "YF", "ue": "h\u00e9llo", "mm": map[string]any{"kk": "LIT", "k": "VAR"}, "fname": "secret.path", "secret": map[string]any{"path": "b.txt"}, "fbig": 1500000.0, "fsmall": 0.00002, "fneg": -2.5e7, "zp": "010", "zip": "08540", "eq3": "a===b", "ne3": "a!==b", "amp2": "a && b", "q3": "a ? b : c",
		"m":  map[string]any{"k": "mk", "l": []any{"x", "y"}, "n": 7},
		"l":  []int{10, 20},
		"st": c13Struct{Field: "SF", Num: 3},
		"sp": &c13Struct{Field: "PF", Num: 4}, "sl": []c13Struct{{Field: "LF", Num: 6}}, "so": c13Outer{In: c13Struct{Field: "OF", Num: 8}},
	}
}

// value in the reference evaluator
type c13V struct {
	T string // int | float | string | bool | nil
	I int
	F float64
	S string
	B bool
}

func (v c13V) String() string {
	switch v.T {
	case "int":
		return fmt.Sprint(v.I)
	case "float":
		return fmt.Sprint(v.F)
	case "string":
		return v.S
	case "bool":
		return fmt.Sprint(v.B)
	}
	return ""
}

func (v c13V) canon() string { return v.T + ":" + v.String() }

func (v c13V) truthy() bool {
	switch v.T {
	case "int":
		return v.I != 0
	case "float":
		return v.F != 0
	case "string":
		return v.S != ""
	case "bool":
		return v.B
	}
	return false
}

type c13E struct {
	Src   string
	V     c13V
	Shape string
	Leaf  bool
}

func c13Leaves() []c13E {
	return []c13E{
		{"n", c13V{T: "int", I: 5}, "path:var", true},
		{"k", c13V{T: "int", I: 2}, "path:var", true},
		{"f", c13V{T: "float", F: 1.5}, "path:var", true},
		{"s", c13V{T: "string", S: "str"}, "path:var", true},
		{"e", c13V{T: "string", S: ""}, "path:var", true},
		{"t", c13V{T: "bool", B: true}, "path:var", true},
		{"b", c13V{T: "bool", B: false}, "path:var", true},
		{"m.k", c13V{T: "string", S: "mk"}, "path:dotted", true},
		{"m.n", c13V{T: "int", I: 7}, "path:dotted", true},
		{"l[0]", c13V{T: "int", I: 10}, "path:index", true},
		{"m.l[1]", c13V{T: "string", S: "y"}, "path:dotted-index", true},
		{"st.Field", c13V{T: "string", S: "SF"}, "path:struct-field", true},
		{"st.Num", c13V{T: "int", I: 3}, "path:struct-field", true},
		// fields by their JSON tag: through a struct, a pointer, a slice element, a struct in a struct
		{"st.tag", c13V{T: "string", S: "SF"}, "path:struct-json-tag", true},
		{"sp.tag", c13V{T: "string", S: "PF"}, "path:struct-json-tag", true},
		{"sl[0].tag", c13V{T: "string", S: "LF"}, "path:struct-json-tag", true},
		{"so.in.tag", c13V{T: "string", S: "OF"}, "path:struct-json-tag", true},
		{"so.In.Num", c13V{T: "int", I: 8}, "path:struct-field", true},
		{"zz", c13V{T: "nil"}, "path:undefined", true},
		{"5", c13V{T: "int", I: 5}, "literal:int", true},
		{"0", c13V{T: "int", I: 0}, "literal:int", true},
		{"1.5", c13V{T: "float", F: 1.5}, "literal:float", true},
		{"'lit'", c13V{T: "string", S: "lit"}, "literal:string-single", true},
		{`"lit"`, c13V{T: "string", S: "lit"}, "literal:string-double", true},
		{"true", c13V{T: "bool", B: true}, "literal:bool", true},
		{"false", c13V{T: "bool", B: false}, "literal:bool", true},
	}
}

var c13BinOps = []string{"+", "-", "*", "/", "%", "==", "!=", "<", ">", "<=", ">=", "&&", "||", "===", "!=="}

func c13Bin(op string, a, b c13V) (c13V, bool) {
	switch op {
	case "+", "-", "*", "/", "%":
		if a.T == "string" && b.T == "string" && op == "+" {
			return c13V{T: "string", S: a.S + b.S}, true
		}
		if a.T != "int" || b.T != "int" {
			return c13V{}, false // mixed / float arithmetic: string form of floats is unconstrained
		}
		switch op {
		case "+":
			return c13V{T: "int", I: a.I + b.I}, true
		case "-":
			return c13V{T: "int", I: a.I - b.I}, true
		case "*":
			return c13V{T: "int", I: a.I * b.I}, true
		case "/":
			if b.I == 0 || a.I%b.I != 0 {
				return c13V{}, false // only exact divisions
			}
			return c13V{T: "int", I: a.I / b.I}, true
		case "%":
			if b.I == 0 {
				return c13V{}, false
			}
			return c13V{T: "int", I: a.I % b.I}, true
		}
	case "==", "!=", "===", "!==":
		if a.T != b.T || a.T == "nil" {
			return c13V{}, false // only same-type equalities
		}
		eq := a.canon() == b.canon()
		if op == "!=" || op == "!==" {
			eq = !eq
		}
		return c13V{T: "bool", B: eq}, true
	case "<", ">", "<=", ">=":
		var cmp int
		switch {
		case a.T == "int" && b.T == "int":
			cmp = a.I - b.I
		case a.T == "float" && b.T == "float":
			if a.F < b.F {
				cmp = -1
			} else if a.F > b.F {
				cmp = 1
			}
		case a.T == "string" && b.T == "string":
			cmp = strings.Compare(a.S, b.S)
		default:
			return c13V{}, false
		}
		r := map[string]bool{"<": cmp < 0, ">": cmp > 0, "<=": cmp <= 0, ">=": cmp >= 0}[op]
		return c13V{T: "bool", B: r}, true
	case "&&", "||":
		if a.T != "bool" || b.T != "bool" {
			return c13V{}, false
		}
		if op == "&&" {
			return c13V{T: "bool", B: a.B && b.B}, true
		}
		return c13V{T: "bool", B: a.B || b.B}, true
	}
	return c13V{}, false
}

func opClass(op string) string {
	switch op {
	case "+", "-", "*", "/", "%":
		return "arith"
	case "==", "!=":
		return "equality"
	case "===", "!==":
		return "strict-equality"
	case "<", ">", "<=", ">=":
		return "compare"
	}
	return "logical"
}

// c13Exprs enumerates all expression trees up to depth d.
func c13Exprs(depth int, emit func(c13E)) {
	level := c13Leaves()
	for _, l := range level {
		emit(l)
	}
	prev := level
	for d := 1; d <= depth; d++ {
		var next []c13E
		add := func(e c13E) {
			emit(e)
			next = append(next, e)
		}
		wrap := func(e c13E) string {
			if e.Leaf {
				return e.Src
			}
			return "(" + e.Src + ")"
		}
		for _, a := range prev {
			// unary not
			if a.V.T == "bool" || a.V.T == "nil" {
				add(c13E{Src: "!" + wrap(a), V: c13V{T: "bool", B: !a.V.truthy()}, Shape: "not:" + shapeOf(a)})
			}
			if !a.Leaf {
				add(c13E{Src: "(" + a.Src + ")", V: a.V, Shape: "paren:" + shapeOf(a)})
			}
		}
		for _, a := range prev {
			for _, b := range prev {
				// at depth 2 keep one side a leaf to bound the product
				if d >= 2 && !a.Leaf && !b.Leaf {
					continue
				}
				for _, op := range c13BinOps {
					v, ok := c13Bin(op, a.V, b.V)
					if !ok {
						continue
					}
					add(c13E{Src: wrap(a) + " " + op + " " + wrap(b), V: v, Shape: "binary:" + opClass(op) + ":" + operandClass(a, b)})
					// no-space variant where HTML-safe (right operand starts with a digit or quote)
					if d == 1 && len(b.Src) > 0 && (b.Src[0] >= '0' && b.Src[0] <= '9' || b.Src[0] == '\'') {
						add(c13E{Src: wrap(a) + op + wrap(b), V: v, Shape: "binary-nospace:" + opClass(op)})
					}
				}
			}
		}
		if d == 1 {
			for _, c := range prev {
				if c.V.T != "bool" {
					continue
				}
				for _, a := range prev {
					for _, b := range prev {
						if a.V.T != b.V.T || a.V.T == "nil" {
							continue
						}
						v := b.V
						if c.V.B {
							v = a.V
						}
						add(c13E{Src: c.Src + " ? " + a.Src + " : " + b.Src, V: v, Shape: "ternary:" + a.V.T})
					}
				}
			}
		} else {
			// ternary with a compound condition
			for _, c := range prev {
				if c.Leaf || c.V.T != "bool" || !strings.HasPrefix(c.Shape, "binary:") {
					continue
				}
				v := c13V{T: "string", S: "no"}
				if c.V.B {
					v = c13V{T: "string", S: "yes"}
				}
				add(c13E{Src: c.Src + " ? 'yes' : 'no'", V: v, Shape: "ternary-compound"})
			}
		}
		prev = next
	}
}

func shapeOf(e c13E) string {
	if i := strings.Index(e.Shape, ":"); i > 0 && !e.Leaf {
		return e.Shape[:i]
	}
	return e.Shape
}

func operandClass(a, b c13E) string {
	cl := func(e c13E) string {
		if !e.Leaf {
			return "compound"
		}
		if strings.HasPrefix(e.Shape, "literal") {
			return "literal"
		}
		return "path"
	}
	return cl(a) + "," + cl(b)
}

// ---- observation in each position

var c13Positions = []string{"mustache", "bind", "vif", "velseif", "vshow"}

func c13Funcs() vuego.FuncMap {
	return vuego.FuncMap{
		"double":  func(v int) int { return v * 2 },
		"small":   func(v int8) int { return int(v) },
		"natural": func(v uint) int { return int(v) },
		"half":    func(v float64) float64 { return v / 2 },
		"shout":   func(s string) string { return strings.ToUpper(s) + "!" },
		"neg":     func(b bool) bool { return !b },
		"joinall": func(parts ...string) string { return strings.Join(parts, "+") },
		"withctx": func(ctx *vuego.VueContext, s string) string { return "ctx:" + s },
		"fail":    func(s string) (string, error) { return "", fmt.Errorf("boom") },
		"addn":    func(v int, n int) int { return v + n },
		"prefix":  func(v string, pre string) string { return pre + v },
		"repeat":  func(s string, n int) string { return strings.Repeat(s, n) },
		"isbig":   func(v int) bool { return v > 3 },
		"ctxjoin": func(ctx *vuego.VueContext, parts ...string) string { return strings.Join(parts, "+") },
		"ctxpad": func(ctx *vuego.VueContext, width int, parts ...string) string {
			return fmt.Sprintf("%d:%s", width, strings.Join(parts, ","))
		},
		"sum": func(nums ...int) int {
			t := 0
			for _, n := range nums {
				t += n
			}
			return t
		},
	}
}

// c13Observe renders expr in a position. It returns the canonical observation:
// mustache: text; bind: attribute value or "<omitted>"; vif/velseif/vshow: "true"/"false".
func c13Observe(ctx *core.Ctx, pos, expr string) (string, error) {
	return c13ObserveOn(ctx, vuego.New(vuego.WithFuncs(c13Funcs())), pos, expr)
}

// c13ObserveOn does the same on a given (possibly already used) engine.
func c13ObserveOn(ctx *core.Ctx, t vuego.Template, pos, expr string) (string, error) {
	return c13ObserveEnv(ctx, t, pos, expr, c13Env())
}

// c13Retyped: the variables of the environment in other dynamic types (what a JSON decoder or
// a form delivers) or not there at all
func c13Retyped(kind string) map[string]any {
	env := c13Env()
	switch kind {
	case "floats":
		for k, v := range env {
			if i, ok := v.(int); ok {
				env[k] = float64(i)
			}
		}
		env["l"] = []any{10.0, 20.0}
		env["m"] = map[string]any{"k": "mk", "l": []string{"x", "y"}, "n": 7.0}
	case "strings":
		for k, v := range env {
			switch v.(type) {
			case int, float64, bool:
				env[k] = fmt.Sprint(v)
			}
		}
		env["st"] = map[string]any{"Field": "SF", "Num": "3"}
	case "absent":
		return map[string]any{}
	}
	return env
}

func c13ObserveEnv(ctx *core.Ctx, t vuego.Template, pos, expr string, env map[string]any) (string, error) {
	q := `"`
	if strings.Contains(expr, `"`) {
		if strings.Contains(expr, "'") && pos != "mustache" {
			return "", fmt.Errorf("unquotable") // cannot be written inside an attribute value
		}
		q = `'`
	}
	var tpl string
	switch pos {
	case "mustache":
		tpl = `<p id="r">[{{ ` + expr + ` }}]</p>`
	case "bind":
		tpl = `<p id="r" :title=` + q + expr + q + `>x</p>`
	case "vif":
		tpl = `<p id="r" v-if=` + q + expr + q + `>x</p>`
	case "velseif":
		tpl = `<b v-if="b">n</b><p id="r" v-else-if=` + q + expr + q + `>x</p>`
	case "vshow":
		tpl = `<p id="r" v-show=` + q + expr + q + `>x</p>`
	// further places that take an expression (used by the error part: a failing function ends the render there too)
	case "classobj":
		tpl = `<p id="r" :class=` + q + `{on: ` + expr + `, k: t}` + q + `>x</p>`
	case "styleobj":
		tpl = `<p id="r" style="top: 0" :style=` + q + `{color: ` + expr + `}` + q + `>x</p>`
	case "tmplbind":
		tpl = `<template :y=` + q + expr + q + `><p id="r">[{{ y }}]</p></template>`
	case "tmplbindif":
		tpl = `<template v-if="t" v-bind:y=` + q + expr + q + `><p id="r">[{{ y }}]</p></template>`
	case "tmplbindlong":
		tpl = `<template v-bind:y=` + q + expr + q + `><p id="r">[{{ y }}]</p></template>`
	case "objprop":
		tpl = `<template :o=` + q + `{a: ` + expr + `}` + q + `><p id="r">[{{ o.a }}]</p></template>`
	case "slotbind": // a prop that a component's slot binds, printed by the includer's slot content
		tpl = `<template include="c13slot.vuego"><template v-slot="sp"><p id="r">[{{ sp.y }}]</p></template></template>`
		t = vuego.New(vuego.WithFS(fstest.MapFS{"c13slot.vuego": {Data: []byte(`<div><slot :y=` + q + expr + q + `>fb</slot></div>`)}}), vuego.WithFuncs(c13Funcs()))
	}
	var buf bytes.Buffer
	ctx.Eval(1)
	if err := t.New().Fill(env).RenderString(bg, &buf, tpl); err != nil {
		return "", err
	}
	r := htmlcmp.ByID(htmlcmp.Parse(buf.String()), "r")
	switch pos {
	case "classobj":
		if r == nil {
			return "<lost>", nil
		}
		cl, _ := htmlcmp.Attr(r, "class")
		return fmt.Sprint(strings.Contains(" "+cl+" ", " on ")), nil
	case "mustache", "tmplbind", "tmplbindif", "tmplbindlong", "slotbind":
		if r == nil {
			return "<lost>", nil
		}
		t := htmlcmp.Text(r)
		return strings.TrimSuffix(strings.TrimPrefix(t, "["), "]"), nil
	case "bind":
		if r == nil {
			return "<lost>", nil
		}
		v, ok := htmlcmp.Attr(r, "title")
		if !ok {
			return "<omitted>", nil
		}
		return v, nil
	case "vif", "velseif":
		return fmt.Sprint(r != nil), nil
	case "vshow":
		if r == nil {
			return "<lost>", nil
		}
		st, _ := htmlcmp.Attr(r, "style")
		return fmt.Sprint(!strings.Contains(strings.ReplaceAll(st, " ", ""), "display:none")), nil
	}
	return "", nil
}

func c13Expected(pos string, v c13V) string {
	switch pos {
	case "mustache":
		return v.String()
	case "bind":
		if !v.truthy() || (v.T == "string" && v.S == "false") {
			return "<omitted>"
		}
		return v.String()
	}
	if v.T == "string" && v.S == "false" {
		return "false" // the engine's truthiness rule takes the text "false" for false, in every position (C03)
	}
	return fmt.Sprint(v.truthy())
}

func parseCanon(s string) c13V {
	t, val, _ := strings.Cut(s, ":")
	v := c13V{T: t}
	switch t {
	case "int":
		fmt.Sscan(val, &v.I)
	case "float":
		fmt.Sscan(val, &v.F)
	case "string":
		v.S = val
	case "bool":
		v.B = val == "true"
	}
	return v
}

func (c *c13Case) Run(ctx *core.Ctx) {
	ctx.NonTrivial()
	switch c.Part {
	case "expr", "pipe":
		want := parseCanon(c.Want)
		obs := map[string]string{}
		for _, pos := range c13Positions {
			if c.Part == "expr" && strings.Contains(c.Expr, "<") && pos == "mustache" && !strings.Contains(c.Expr, "< ") && !strings.Contains(c.Expr, "<=") {
				continue
			}
			got, err := c13Observe(ctx, pos, c.Expr)
			if err != nil {
				if err.Error() == "unquotable" {
					continue
				}
				ctx.Violation("expr-error", pos, c.Shape, fmt.Sprintf("%s in %s: render failed: %v (reference value %s)", c.Expr, pos, err, c.Want))
				obs[pos] = "<error>"
				continue
			}
			obs[pos] = got
			shape := c.Shape
			if c.Part == "pipe" && (strings.HasPrefix(shape, "pipe:") || strings.HasPrefix(shape, "literal-arg:") || (strings.Contains(c.Expr, " | ") && shape != "pipe-dot-expr")) && (pos == "vif" || pos == "velseif" || pos == "vshow") {
				shape = "filter-chain-in-condition"
			}
			if exp := c13Expected(pos, want); got != exp {
				mode := "wrong-value"
				if got == "" || got == "<omitted>" || got == "false" {
					mode = "evaluates-to-nothing"
				}
				ctx.Violation(mode, pos, shape, fmt.Sprintf("%s in %s: observed %q, conventional value %s gives %q", c.Expr, pos, got, c.Want, exp))
			}
		}
		// the value of a :class key is judged like the condition of a v-if
		if cond, ok := obs["vif"]; ok && cond != "<error>" && !strings.ContainsAny(c.Expr, "{}") {
			if got, err := c13Observe(ctx, "classobj", c.Expr); err == nil && got != cond {
				ctx.Violation("wrong-value", "classobj", c.Shape, fmt.Sprintf("%s as the value of a :class key sets the class: %s; as a v-if condition it is %s", c.Expr, got, cond))
			} else if err != nil && err.Error() != "unquotable" {
				ctx.Violation("expr-error", "classobj", c.Shape, fmt.Sprintf("%s as the value of a :class key: render failed: %v (v-if: %s)", c.Expr, err, cond))
			}
		}
		ctx.Outcome(fmt.Sprint(obs))
	case "tmplvalue":
		// what <template :y="expr"> binds is what {{ expr }} prints (short and long form, with and without v-if)
		want, err0 := c13Observe(ctx, "mustache", c.Expr)
		for _, pos := range []string{"tmplbind", "tmplbindlong", "tmplbindif", "slotbind"} {
			got, err := c13Observe(ctx, pos, c.Expr)
			if err != nil && err.Error() == "unquotable" {
				continue
			}
			if (err != nil) != (err0 != nil) || (err == nil && got != want) {
				ctx.Violation("wrong-value", pos, c.Shape, fmt.Sprintf("%s in %s binds %q (err %v); {{ }} prints %q (err %v)", c.Expr, pos, got, err, want, err0))
			}
		}
		ctx.Outcome(want)
	case "file":
		// file(), jsonFile(), yamlFile(): the argument's value is the file name - it is not looked up
		// in the data a second time (there "secret.path" is the path to "b.txt")
		fsys := fstest.MapFS{
			"secret.path": {Data: []byte("BYNAME")}, "b.txt": {Data: []byte("BYPATH")},
			"secret.json": {Data: []byte(`{"v":"JNAME"}`)}, "j.json": {Data: []byte(`{"v":"JPATH"}`)},
		}
		env := c13Env()
		env["jname"] = "secret.json"
		env["secret"] = map[string]any{"path": "b.txt", "json": "j.json"}
		for _, pos := range []string{"mustache", "bind"} {
			got, err := c13ObserveEnv(ctx, vuego.New(vuego.WithFS(fsys), vuego.WithFuncs(c13Funcs())), pos, c.Expr, env)
			if err != nil {
				ctx.Violation("expr-error", pos, c.Shape, fmt.Sprintf("%s in %s: render failed: %v (reference value %s)", c.Expr, pos, err, c.Want))
				continue
			}
			ctx.Outcome(got)
			if got != strings.TrimPrefix(c.Want, "string:") {
				ctx.Violation("wrong-value", pos, c.Shape, fmt.Sprintf("%s in %s: observed %q, the file named by the argument's value gives %s", c.Expr, pos, got, c.Want))
			}
		}
	case "shadow":
		// variables named like functions of the expression library (front-matter keys such as
		// type and date, a loop variable called last): the name means the variable
		env := c13Env()
		for k, v := range map[string]any{"type": "post", "date": "2024", "last": 9, "one": 1, "first": true, "min": 2, "max": 7, "count": 2, "sum": 6, "map": map[string]any{"k": "mv"}, "filter": "f", "keys": []string{"a", "b"}} {
			env[k] = v
		}
		want := parseCanon(c.Want)
		for _, pos := range c13Positions {
			got, err := c13ObserveEnv(ctx, vuego.New(vuego.WithFuncs(c13Funcs())), pos, c.Expr, env)
			if err != nil {
				if err.Error() == "unquotable" {
					continue
				}
				ctx.Violation("expr-error", pos, c.Shape, fmt.Sprintf("%s in %s: render failed: %v (reference value %s)", c.Expr, pos, err, c.Want))
				continue
			}
			if exp := c13Expected(pos, want); got != exp {
				mode := "wrong-value"
				if got == "" || got == "<omitted>" || got == "false" {
					mode = "evaluates-to-nothing"
				}
				ctx.Violation(mode, pos, c.Shape, fmt.Sprintf("%s in %s: observed %q, conventional value %s gives %q", c.Expr, pos, got, c.Want, exp))
			}
		}
	case "nilshadow":
		// a loop variable bound to nil shadows an outer variable of the same name in every position
		// (the path resolver and the expression environment must agree on what the name means)
		want := parseCanon(c.Want)
		for _, pos := range c13Positions {
			q := `"`
			var tpl string
			switch pos {
			case "mustache":
				tpl = `<p id="r">[{{ ` + c.Expr + ` }}]</p>`
			case "bind":
				tpl = `<p id="r" :title=` + q + c.Expr + q + `>x</p>`
			case "vif":
				tpl = `<p id="r" v-if=` + q + c.Expr + q + `>x</p>`
			case "velseif":
				tpl = `<b v-if="b">n</b><p id="r" v-else-if=` + q + c.Expr + q + `>x</p>`
			case "vshow":
				tpl = `<p id="r" v-show=` + q + c.Expr + q + `>x</p>`
			}
			env := c13Env()
			env["note"], env["notes"] = "outer", []any{nil}
			var buf bytes.Buffer
			ctx.Eval(1)
			if err := vuego.New(vuego.WithFuncs(c13Funcs())).Fill(env).RenderString(bg, &buf, `<div v-for="note in notes">`+tpl+`</div>`); err != nil {
				ctx.Violation("expr-error", pos, c.Shape, fmt.Sprintf("%s in %s: %v", c.Expr, pos, err))
				continue
			}
			r := htmlcmp.ByID(htmlcmp.Parse(buf.String()), "r")
			got := ""
			switch pos {
			case "mustache":
				if r != nil {
					got = strings.TrimSuffix(strings.TrimPrefix(htmlcmp.Text(r), "["), "]")
				}
			case "bind":
				got = "<omitted>"
				if r != nil {
					if v, ok := htmlcmp.Attr(r, "title"); ok {
						got = v
					}
				}
			case "vif", "velseif":
				got = fmt.Sprint(r != nil)
			case "vshow":
				st := ""
				if r != nil {
					st, _ = htmlcmp.Attr(r, "style")
				}
				got = fmt.Sprint(!strings.Contains(strings.ReplaceAll(st, " ", ""), "display:none"))
			}
			if exp := c13Expected(pos, want); got != exp {
				ctx.Violation("wrong-value", pos, c.Shape, fmt.Sprintf("%s in %s with the loop variable bound to nil over an outer variable of that name: observed %q, want %q", c.Expr, pos, got, exp))
			}
		}
	case "retype":
		// the same expression text on ONE engine with the variables in other dynamic types first:
		// the engine must not remember the types of an earlier evaluation
		for _, pos := range c13Positions {
			alone, err0 := c13Observe(ctx, pos, c.Expr)
			if err0 != nil && err0.Error() == "unquotable" {
				continue
			}
			for _, kind := range []string{"floats", "strings", "absent"} {
				shared := vuego.New(vuego.WithFuncs(c13Funcs()))
				_, _ = c13ObserveEnv(ctx, shared, pos, c.Expr, c13Retyped(kind))
				got, err := c13ObserveOn(ctx, shared, pos, c.Expr)
				if (err != nil) != (err0 != nil) || got != alone {
					ctx.Violation("depends-on-earlier-types", pos, kind, fmt.Sprintf("%s in %s: alone %q (err %v); after an evaluation of the same text with the variables as %s on the same engine %q (err %v)", c.Expr, pos, alone, err0, kind, got, err))
					break
				}
			}
		}
	case "pair":
		// two expressions that look alike, one after the other on ONE engine: the second must
		// have the value it has alone (compiled-expression caches, parsed-path caches)
		for _, pos := range c13Positions {
			alone, err0 := c13Observe(ctx, pos, c.Expr)
			if err0 != nil && err0.Error() == "unquotable" {
				continue
			}
			shared := vuego.New(vuego.WithFuncs(c13Funcs()))
			if _, err := c13ObserveOn(ctx, shared, pos, c.First); err != nil && err.Error() == "unquotable" {
				continue
			}
			got, err := c13ObserveOn(ctx, shared, pos, c.Expr)
			if (err != nil) != (err0 != nil) || got != alone {
				ctx.Violation("depends-on-earlier-expression", pos, c.Shape, fmt.Sprintf("%s in %s: alone %q (err %v), after %s on the same engine %q (err %v)", c.Expr, pos, alone, err0, c.First, got, err))
			}
		}
	case "error":
		positions := []string{"mustache", "bind", "vif", "vshow", "tmplbind", "tmplbindif", "tmplbindlong", "slotbind"}
		if !strings.Contains(c.Expr, "|") {
			positions = append(positions, "classobj", "styleobj", "objprop")
		}
		for _, pos := range positions {
			got, err := c13Observe(ctx, pos, c.Expr)
			if err != nil && err.Error() == "unquotable" {
				continue
			}
			if err == nil {
				shape := c.Shape
				if strings.Contains(c.Expr, "|") && (pos == "vif" || pos == "vshow") {
					shape += ":filter-chain-in-condition"
				}
				ctx.Violation("error-not-reported", pos, shape, fmt.Sprintf("%s in %s: render succeeded (observed %q) but the expression must fail naming %q", c.Expr, pos, got, c.Fn))
				continue
			}
			if !strings.Contains(err.Error(), c.Fn) {
				ctx.Violation("error-does-not-name-function", pos, c.Shape, fmt.Sprintf("%s in %s: error %q does not name %q", c.Expr, pos, err, c.Fn))
			}
		}
	}
}

// ---- pipes: reference = direct application of the Go functions

type c13Stage struct {
	Src   string
	Apply func(in c13V) (c13V, bool) // ok=false: not defined by the documented conversions
}

func c13Stages() []c13Stage {
	str := func(v c13V) (string, bool) {
		switch v.T {
		case "string":
			return v.S, true
		case "int", "bool":
			return v.String(), true // documented: converted to the parameter type
		}
		return "", false
	}
	num := func(v c13V) (int, bool) {
		switch v.T {
		case "int":
			return v.I, true
		case "string":
			var i int
			if _, err := fmt.Sscan(v.S, &i); err == nil && fmt.Sprint(i) == v.S {
				return i, true
			}
			// zero-padded decimal digits (ids, zip codes) are decimal numbers
			if d := strings.TrimLeft(v.S, "0"); d != "" && d != v.S && strings.Trim(d, "0123456789") == "" {
				if _, err := fmt.Sscan(d, &i); err == nil {
					return i, true
				}
			}
		}
		return 0, false
	}
	return []c13Stage{
		{"upper", func(v c13V) (c13V, bool) {
			if v.T == "string" {
				return c13V{T: "string", S: strings.ToUpper(v.S)}, true
			}
			return v, true
		}},
		{"lower", func(v c13V) (c13V, bool) {
			if v.T == "string" {
				return c13V{T: "string", S: strings.ToLower(v.S)}, true
			}
			return v, true
		}},
		{"len", func(v c13V) (c13V, bool) {
			if v.T == "string" {
				return c13V{T: "int", I: len(v.S)}, true
			}
			return c13V{T: "int", I: 0}, true
		}},
		{"string", func(v c13V) (c13V, bool) { return c13V{T: "string", S: v.String()}, v.T != "nil" && v.T != "float" }},
		{`default("d")`, func(v c13V) (c13V, bool) {
			if v.T == "nil" || (v.T == "string" && v.S == "") {
				return c13V{T: "string", S: "d"}, true
			}
			return v, true
		}},
		{`default('d')`, func(v c13V) (c13V, bool) {
			if v.T == "nil" || (v.T == "string" && v.S == "") {
				return c13V{T: "string", S: "d"}, true
			}
			return v, true
		}},
		{"double", func(v c13V) (c13V, bool) { i, ok := num(v); return c13V{T: "int", I: i * 2}, ok }},
		{"small", func(v c13V) (c13V, bool) { i, ok := num(v); return c13V{T: "int", I: i}, ok && i >= -128 && i <= 127 }},
		{"natural", func(v c13V) (c13V, bool) { i, ok := num(v); return c13V{T: "int", I: i}, ok && i >= 0 }},
		{"addn(3)", func(v c13V) (c13V, bool) { i, ok := num(v); return c13V{T: "int", I: i + 3}, ok }},
		{"addn(k)", func(v c13V) (c13V, bool) { i, ok := num(v); return c13V{T: "int", I: i + 2}, ok }},
		{"addn(T)", func(v c13V) (c13V, bool) { i, ok := num(v); return c13V{T: "int", I: i + 2}, ok }},
		{"addn(nan)", func(v c13V) (c13V, bool) { i, ok := num(v); return c13V{T: "int", I: i + 4}, ok }},
		{"prefix(F)", func(v c13V) (c13V, bool) { s, ok := str(v); return c13V{T: "string", S: "eff" + s}, ok }},
		{`addn("010")`, func(v c13V) (c13V, bool) { i, ok := num(v); return c13V{T: "int", I: i + 10}, ok }},
		{`addn("4")`, func(v c13V) (c13V, bool) { i, ok := num(v); return c13V{T: "int", I: i + 4}, ok }},
		{"shout", func(v c13V) (c13V, bool) { s, ok := str(v); return c13V{T: "string", S: strings.ToUpper(s) + "!"}, ok }},
		{`prefix("p-")`, func(v c13V) (c13V, bool) { s, ok := str(v); return c13V{T: "string", S: "p-" + s}, ok }},
		{`prefix('q-')`, func(v c13V) (c13V, bool) { s, ok := str(v); return c13V{T: "string", S: "q-" + s}, ok }},
		{"prefix(s)", func(v c13V) (c13V, bool) { s, ok := str(v); return c13V{T: "string", S: "str" + s}, ok }},
		{"repeat(2)", func(v c13V) (c13V, bool) { s, ok := str(v); return c13V{T: "string", S: s + s}, ok }},
		{"withctx", func(v c13V) (c13V, bool) { s, ok := str(v); return c13V{T: "string", S: "ctx:" + s}, ok }},
		{`joinall("a", "b")`, func(v c13V) (c13V, bool) { s, ok := str(v); return c13V{T: "string", S: s + "+a+b"}, ok }},
		{`ctxjoin("a")`, func(v c13V) (c13V, bool) { s, ok := str(v); return c13V{T: "string", S: s + "+a"}, ok }},
		{"ctxjoin", func(v c13V) (c13V, bool) { s, ok := str(v); return c13V{T: "string", S: s}, ok }},
		{`ctxpad("p", 'q')`, func(v c13V) (c13V, bool) { i, ok := num(v); return c13V{T: "string", S: fmt.Sprintf("%d:p,q", i)}, ok }},
		{"sum(2, k)", func(v c13V) (c13V, bool) { i, ok := num(v); return c13V{T: "int", I: i + 4}, ok }},
		{"isbig", func(v c13V) (c13V, bool) { i, ok := num(v); return c13V{T: "bool", B: i > 3}, ok }},
		{"neg", func(v c13V) (c13V, bool) { return c13V{T: "bool", B: !v.B}, v.T == "bool" }},
	}
}

func init() {
	core.Register(&core.Check{
		ID:    "C13",
		Level: "exploration",
		Rule: "expression part: all type-correct expression trees up to the bound over 21 leaves (paths into ints/floats/strings/bools/nested maps/slices/struct, undefined, literals in both quote styles) and 15 binary operators, !, ?: and parentheses (spaced and unspaced variants), each observed in 5 positions ({{ }}, :attr, v-if, v-else-if, v-show) against a reference evaluator; " +
			"pipe part: every chain up to the bound over 19 filter stages (built-ins and registered functions with int/float/string/bool/variadic/context parameters, arguments as literals in both quote styles, numbers, variables) from 6 initial values, plus every string literal argument of <=3 tokens over {letter, the other quote character, space, comma, parentheses, pipe, dash, dot, colon} in both quote styles against direct application of the Go functions; shadow part: 15 expressions over variables named like functions of the expression library (type, date, last, one, first, min, max, count, sum, map, filter, keys) in the 5 positions; nil-shadow part: 6 expressions over a loop variable bound to nil that shadows an outer variable, in the 5 positions; retype part: every expression of depth <= 1 evaluated on one engine after an evaluation of the same text with the variables as float64 / as strings / absent must have the value it has alone; error part: unknown function, wrong arity, impossible conversion, function error in 4 positions must fail naming the function. non-trivial = all",
		Bounds:      map[string]string{"quick": "expression depth <= 2 (one compound operand), pipe chains of length <= 2", "thorough": "expression depth <= 2, pipe chains of length <= 3"},
		Assumptions: []string{"only exact integer divisions, same-type equalities and bool operands of && || are generated (conventions differ elsewhere)", "string form of float arithmetic is unconstrained", "int->float/float->int parameter conversions are unconstrained"},
		Decode:      core.DecodeAs[c13Case](),
		Enumerate: func(tier string, emit func(core.Case)) {
			c13Exprs(2, func(e c13E) {
				shape := e.Shape
				if strings.Contains(e.Src, "zz") && !e.Leaf {
					shape += "+undef"
				}
				emit(&c13Case{Part: "expr", Expr: e.Src, Shape: shape, Want: e.V.canon()})
			})
			for _, e := range []struct{ src, want string }{
				{"type == 'post'", "bool:true"}, {"type != 'post'", "bool:false"}, {"date + '!'", "string:2024!"}, {"last > 1", "bool:true"}, {"one + 1", "int:2"}, {"map.k", "string:mv"},
				{"first ? 'y' : 'n'", "string:y"}, {"min < max", "bool:true"}, {"count + 1", "int:3"}, {"sum == 6", "bool:true"}, {"filter == 'f'", "bool:true"}, {"keys[1]", "string:b"},
				{"len(s) + one", "int:4"}, {"type == 'post' && last > max", "bool:true"}, {"n + 1", "int:6"},
			} {
				emit(&c13Case{Part: "shadow", Expr: e.src, Shape: "variable-named-like-a-library-function", Want: e.want})
			}
			for _, e := range []struct{ src, want string }{{"note == nil", "bool:true"}, {"note ? 'set' : 'unset'", "string:unset"}, {"!note", "bool:true"}, {"note || t", "bool:true"}, {"note && t", "bool:false"}, {"note != 'outer'", "bool:true"}} {
				emit(&c13Case{Part: "nilshadow", Expr: e.src, Shape: "nil-binding-shadows-outer-variable", Want: e.want})
			}
			// a name in brackets is a variable; expressions at the head of a pipe; calls as arguments; paths that end in nothing
			for _, e := range []struct{ part, src, shape, want string }{
				{"expr", "l[ix]", "variable-index", "int:20"}, {"expr", "m[kk]", "variable-index", "string:mk"}, {"expr", "mm[kk]", "variable-index", "string:VAR"}, {"pipe", "mm[kk] | shout", "variable-index", "string:VAR!"}, {"expr", "mm[kk] == 'VAR'", "variable-index", "bool:true"}, {"expr", "m.l[ix]", "variable-index", "string:y"}, {"expr", "l[ix] + 1", "variable-index", "int:21"},
				{"pipe", "l[ix] | double", "variable-index", "int:40"}, {"pipe", "m[kk] | shout", "variable-index", "string:MK!"},
				{"pipe", "!b | shout", "pipe:expression-head", "string:TRUE!"}, {"pipe", "n>k | shout", "pipe:expression-head", "string:TRUE!"},
				{"pipe", "double(addn(n, 3))", "call:nested", "int:16"}, {"pipe", "n | addn(double(k))", "call:nested", "int:9"}, {"pipe", "addn(double(n), double(k))", "call:nested", "int:14"}, {"pipe", "shout(prefix(s, 'a,b'))", "call:nested", "string:A,BSTR!"},
				{"pipe", "e | default(m.zz) | shout", "path-argument-to-nothing", "string:!"}, {"pipe", "e | default(l[9]) | shout", "path-argument-to-nothing", "string:!"},
			} {
				emit(&c13Case{Part: e.part, Expr: e.src, Shape: e.shape, Want: e.want})
			}
			for _, e := range [][2]string{
				{"file(fname)", "BYNAME"}, {"fname | file", "BYNAME"}, {"file('secret.path')", "BYNAME"}, {"'secret.path' | file", "BYNAME"}, {"file(secret.path)", "BYPATH"},
				{"fname | file | shout", "BYNAME!"}, {"jsonFile(jname) | json", `{"v":"JNAME"}`}, {"jname | jsonFile | json", `{"v":"JNAME"}`},
			} {
				emit(&c13Case{Part: "file", Expr: e[0], Shape: "file-by-name", Want: "string:" + e[1]})
			}
			for _, e := range []string{"n", "s", "m.k", "l[1]", "st.tag", "n + 1", "s | upper", "upper(s)", "double(n) + 1", "n > k ? s : e", "'lit'", "5", "true", "zz", "!b", "n | . + 1",
				// variables named like registered functions, by their bare name
				"formatDate", "jsonPretty", "yamlFile", "yamlFile | upper", "jsonPretty + 1", "formatDate + '!'"} {
				shape := "template-binding"
				if strings.HasPrefix(e, "formatDate") || strings.HasPrefix(e, "jsonPretty") || strings.HasPrefix(e, "yamlFile") {
					shape = "template-binding:variable-named-like-registered-function"
				}
				emit(&c13Case{Part: "tmplvalue", Expr: e, Shape: shape})
			}
			// floats whose string form has an exponent: one value, one text in every position
			for _, e := range []struct {
				src string
				f   float64
			}{{"fbig", 1500000.0}, {"fsmall", 0.00002}, {"fneg", -2.5e7}, {"fbig * k", 3000000.0}, {"k > 1 ? fbig : fsmall", 1500000.0}, {"fbig + 0.5", 1500000.5}} {
				emit(&c13Case{Part: "expr", Expr: e.src, Shape: "float-magnitude", Want: c13V{T: "float", F: e.f}.canon()})
			}
			// shadow part: 15 expressions over variables named like functions of the expression library (type, date, last, one, first, min, max, count, sum, map, filter, keys) in the 5 positions; retype part: every expression of depth <= 1 (leaves and one operator) and the documented call forms
			c13Exprs(1, func(e c13E) {
				emit(&c13Case{Part: "retype", Expr: e.Src, Shape: e.Shape})
			})
			for _, src := range []string{"n | double", "s | upper", "double(n)", "addn(n, 3)", "n | addn(k)", "isbig(n)", "n == k", "s == 'str'", "n > k ? s : e", "st.Field", "m.n + 1", "l[0]"} {
				emit(&c13Case{Part: "retype", Expr: src, Shape: "call"})
			}
			inits := []c13E{
				{Src: "n", V: c13V{T: "int", I: 5}}, {Src: "s", V: c13V{T: "string", S: "str"}}, {Src: "ns", V: c13V{T: "string", S: "42"}},
				{Src: "t", V: c13V{T: "bool", B: true}}, {Src: "e", V: c13V{T: "string", S: ""}}, {Src: "zz", V: c13V{T: "nil"}}, {Src: "m.k", V: c13V{T: "string", S: "mk"}},
				{Src: "zp", V: c13V{T: "string", S: "010"}}, {Src: "zip", V: c13V{T: "string", S: "08540"}}, {Src: `"007"`, V: c13V{T: "string", S: "007"}},
				// a literal or a function call as the head of a pipe
				{Src: `"abc"`, V: c13V{T: "string", S: "abc"}}, {Src: `'q r'`, V: c13V{T: "string", S: "q r"}}, {Src: "7", V: c13V{T: "int", I: 7}},
				{Src: "double(n)", V: c13V{T: "int", I: 10}}, {Src: "shout(s)", V: c13V{T: "string", S: "STR!"}},
			}
			maxLen := 2
			if tier == "thorough" {
				maxLen = 3
			}
			stages := c13Stages()
			var rec func(src string, v c13V, n int, names string)
			rec = func(src string, v c13V, n int, names string) {
				if n > 0 {
					emit(&c13Case{Part: "pipe", Expr: src, Shape: "pipe:" + names, Want: v.canon()})
				}
				if n == maxLen {
					return
				}
				for _, st := range stages {
					nv, ok := st.Apply(v)
					if !ok {
						continue
					}
					nm := st.Src
					if i := strings.Index(nm, "("); i > 0 {
						nm = nm[:i] + "(" + argClass(nm[i+1:])
					}
					sep := ">"
					if names == "" {
						sep = ""
					}
					rec(src+" | "+st.Src, nv, n+1, names+sep+nm)
				}
			}
			for _, in := range inits {
				rec(in.Src, in.V, 0, "")
			}
			// literal arguments: every content string up to 3 tokens, in both quote styles
			litTok := []string{"a", "Q", " ", ",", ")", "(", "|", "-", ".", ":"}
			tokenStrings(litTok, 3, func(tok []int) {
				for _, q := range []string{`"`, `'`} {
					other := `'`
					if q == `'` {
						other = `"`
					}
					content := strings.ReplaceAll(joinTokens(litTok, tok), "Q", other)
					cls := "plain"
					switch {
					case strings.Contains(content, other):
						cls = "other-quote"
					case strings.ContainsAny(content, ",()|"):
						cls = "syntax-char"
					case strings.Contains(content, " "):
						cls = "space"
					}
					emit(&c13Case{Part: "pipe", Expr: "s | prefix(" + q + content + q + ")", Shape: "literal-arg:" + cls, Want: c13V{T: "string", S: content + "str"}.canon()})
					if len(tok) <= 2 {
						emit(&c13Case{Part: "pipe", Expr: "zz | default(" + q + content + q + ") | shout", Shape: "literal-arg:" + cls, Want: c13V{T: "string", S: strings.ToUpper(content) + "!"}.canon()})
					}
				}
			})
			// function-call syntax
			emit(&c13Case{Part: "pipe", Expr: "double(n)", Shape: "call", Want: "int:10"})
			emit(&c13Case{Part: "pipe", Expr: "len(s)", Shape: "call", Want: "int:3"})
			emit(&c13Case{Part: "pipe", Expr: "shout(s)", Shape: "call", Want: "string:STR!"})
			emit(&c13Case{Part: "pipe", Expr: "addn(n, 3)", Shape: "call", Want: "int:8"})
			emit(&c13Case{Part: "pipe", Expr: "isbig(n)", Shape: "call", Want: "bool:true"})
			emit(&c13Case{Part: "pipe", Expr: "f | small", Shape: "float-cut-off", Want: "int:1"})
			// letters of more than one byte at the start of a word; a pointer to a number through the printing filters
			emit(&c13Case{Part: "pipe", Expr: "acc | title", Shape: "non-ascii-first-letter", Want: "string:\u00c9lan Vital \u00d6l"})
			emit(&c13Case{Part: "pipe", Expr: "ue | title", Shape: "non-ascii-first-letter", Want: "string:H\u00e9llo"})
			emit(&c13Case{Part: "pipe", Expr: "pn | string", Shape: "pointer-to-scalar", Want: "string:7"})
			emit(&c13Case{Part: "pipe", Expr: "pn | escape", Shape: "pointer-to-scalar", Want: "string:7"})
			emit(&c13Case{Part: "pipe", Expr: "pn | string | prefix('n=')", Shape: "pointer-to-scalar", Want: "string:n=7"})
			emit(&c13Case{Part: "pipe", Expr: "fsmall | natural", Shape: "float-cut-off", Want: "int:0"})
			emit(&c13Case{Part: "pipe", Expr: "n | . > 3 ? 'big' : 'small'", Shape: "pipe-dot-expr", Want: "string:big"})
			emit(&c13Case{Part: "pipe", Expr: "n | double | . > 3", Shape: "pipe-dot-expr", Want: "bool:true"})
			for _, e := range [][2]string{
				{"k | . > 3 ? 'big' : 'small'", "string:small"}, {"s | upper | . + 'x'", "string:STRx"}, {"n | (. + 1) * 2", "int:12"}, {"n | . > 3 || b", "bool:true"}, {"k | . > 3 || b", "bool:false"},
				{"m | .k == 'mk'", "bool:true"}, {"st | .tag == 'SF'", "bool:true"}, {"n | double | . + k", "int:12"}, {"n | . * 2 | double", "int:20"}, {"f | . > 1.25", "bool:true"}, {"l[0] | . + 0.5", "float:10.5"},
				{"s | . == 'a|.b'", "bool:false"}, {"n | . - 1 | . - 1", "int:3"}, {"n | . >= 5 && t", "bool:true"},
			} {
				emit(&c13Case{Part: "pipe", Expr: e[0], Shape: "pipe-dot-expr", Want: e[1]})
			}
			// string literals that contain operator text
			for _, e := range []struct{ expr, want string }{
				{`eq3 == 'a===b'`, "bool:true"}, {`eq3 === 'a===b'`, "bool:true"}, {`eq3 == "a==b"`, "bool:false"}, {`ne3 == 'a!==b'`, "bool:true"}, {`ne3 !== 'a!==b'`, "bool:false"},
				{`amp2 == 'a && b'`, "bool:true"}, {`amp2 == 'a && b' ? 'y' : 'n'`, "string:y"}, {`q3 == 'a ? b : c'`, "bool:true"}, {`s | prefix('a===b')`, "string:a===bstr"},
				{`s | prefix('x || y')`, "string:x || ystr"}, {`s | prefix('a ? b : c')`, "string:a ? b : cstr"}, {`zz | default('n/a >= 1')`, "string:n/a >= 1"},
			} {
				if strings.Contains(e.expr, " | ") {
					emit(&c13Case{Part: "pipe", Expr: e.expr, Shape: "literal-arg:operator-text", Want: e.want})
					continue
				}
				emit(&c13Case{Part: "expr", Expr: e.expr, Shape: "literal-with-operator-text", Want: e.want})
			}
			// a registered function called inside an operator expression
			for _, e := range []struct{ expr, want string }{
				{"double(n) + 1", "int:11"}, {"double(n) > 5", "bool:true"}, {"shout(s) == 'STR!'", "bool:true"}, {"isbig(n) && t", "bool:true"}, {"isbig(n) ? 'big' : 'small'", "string:big"}, {"len(s) + 1", "int:4"},
				{"!isbig(n)", "bool:false"}, {"!isbig(k)", "bool:true"}, {"isbig(k) || isbig(n)", "bool:true"}, {"double(addn(n, 3)) + 1", "int:17"}, {"double(n) + double(k)", "int:14"}, {"n + double(k) * 2", "int:13"},
				// registered functions that share their name with one of the expression library: the registered one is meant
				{"len(ue) == 6", "bool:true"}, {"len(ue) + 0", "int:6"}, {"len(ue) > 5 && t", "bool:true"}, {"type(f) == 'float64'", "bool:true"}, {"type(n) + '!'", "string:int!"}, {"upper(ue) + '!'", "string:H\u00c9LLO!"},
				{"'nosuch(1)' + s", "string:nosuch(1)str"},
				// calls joined by an operator without spaces around it
				{"double(n)+double(k)", "int:14"}, {"double(n)+1", "int:11"}, {"double(n)>5", "bool:true"}, {"shout(s)=='STR!'", "bool:true"}, {"double(n)*double(k)", "int:40"}, {"len(s)+len(ue)", "int:9"},
				// a variable that cannot be called does not hide the registered function of its name from a call
				{"jsonPretty(n) + '!'", "string:5!"}, {"jsonPretty(n) == '5'", "bool:true"},
				// a name that is registered as a function but only mentioned (not called) is the variable of that name - here: undefined
				{"len(l) > 0 && title", "bool:false"}, {"len(l) > 0 && !title", "bool:true"}, {"(title)", "nil:"}, {"double(n) > 0 && shout", "bool:false"}, {"(upper) == nil", "bool:true"}, {"(n) + 1", "int:6"}, {"not (n > k)", "bool:false"},
			} {
				emit(&c13Case{Part: "expr", Expr: e.expr, Shape: "registered-function-in-operator-expression", Want: e.want})
			}
			// a signed operand of a logical operator, of ! and as the condition of ?: is judged by the truthiness rule
			for _, e := range []struct{ expr, want string }{
				{"-n && t", "bool:true"}, {"t && -n", "bool:true"}, {"-n ? 'neg' : 'zero'", "string:neg"}, {"-minus || b", "bool:true"}, {"+n && t", "bool:true"}, {"!(-n)", "bool:false"}, {"-e0 || b", "bool:false"}, {"(-n) && (-k)", "bool:true"},
			} {
				emit(&c13Case{Part: "expr", Expr: e.expr, Shape: "signed-operand-of-logical-operator", Want: e.want})
			}
			// look-alike pairs on one engine
			alike := []string{
				`sp2 == 'a  b'`, `sp2 == 'a b'`, `sp1 == 'a b'`, `sp1 == 'a  b'`, `sp2 == "a  b"`, `sp2=='a  b'`, ` sp2 == 'a  b' `, `sp2  ==  'a  b'`,
				`sp2 == 'A  b'`, `up == 'A  b'`, `sp2 != 'a b'`, `'a  b' == sp2`, `'a b' == sp2`, `sp2 == 'a  b' ? 'one' : 'two'`, `sp2 == 'a b' ? 'one' : 'two'`,
				`sp1 | prefix('x  ')`, `sp1 | prefix('x ')`, `sp1 | prefix("x  ")`, `n == 5`, `n ==5`, `n == 50`, `n == 5.0`, `m.k == 'mk'`, `m.k == 'mk '`, `m.k == ' mk'`,
				`m.l[0] == 'x'`, `m.l[1] == 'x'`, `m.l[ 0 ] == 'x'`, `l[0] + l[1]`, `l[1] + l[0]`, `l[0]+l[1]`, `s`, ` s `, `s | upper`, `s|upper`, `S`, `st.Field`, `st.field`,
			}
			for _, e1 := range alike {
				for _, e2 := range alike {
					if e1 != e2 {
						emit(&c13Case{Part: "pair", First: e1, Expr: e2, Shape: "look-alike"})
					}
				}
			}
			// errors
			for _, e := range []struct{ expr, shape, fn string }{
				{"s | nosuch", "unknown-function", "nosuch"}, {"nosuch(s)", "unknown-function-call", "nosuch"}, {"fail(s)", "function-error-call", "fail"}, {"double(s)", "impossible-conversion-call", "double"}, {"addn(n)", "wrong-arity-call", "addn"}, {"s | upper | nosuch2", "unknown-function", "nosuch2"},
				{"n | addn", "wrong-arity", "addn"}, {"n | addn(1, 2)", "wrong-arity", "addn"}, {"s | double", "impossible-conversion", "double"},
				{"l | double", "impossible-conversion", "double"}, {"s | fail", "function-error", "fail"}, {"s | upper | fail | lower", "function-error", "fail"},
				{"m | shout", "impossible-conversion", "shout"},
				// a number that does not fit the parameter type cannot be converted either
				{"big | small", "impossible-conversion", "small"}, {`"300" | small`, "impossible-conversion", "small"}, {"small(big)", "impossible-conversion-call", "small"},
				{"minus | natural", "impossible-conversion", "natural"}, {`"-1" | natural`, "impossible-conversion", "natural"},
				// ... nor a float whose whole part does not fit (2.7 is cut off to 2; 1500000.0 is no int8, -25000000.0 no uint)
				{"fbig | small", "impossible-conversion", "small"}, {"fneg | natural", "impossible-conversion", "natural"}, {"small(fbig)", "impossible-conversion-call", "small"}, {"fneg | small", "impossible-conversion", "small"}, {"small(fbig) + 1", "impossible-conversion-in-operator-expression", "small"},
				// the same failures with the call inside an operator expression
				{"fail(s) + 'x'", "function-error-in-operator-expression", "fail"}, {"!fail(s)", "function-error-in-operator-expression", "fail"}, {"t && fail(s)", "function-error-in-operator-expression", "fail"},
				{"double(s) > 1", "impossible-conversion-in-operator-expression", "double"}, {"addn(n) + 1", "wrong-arity-in-operator-expression", "addn"},
				{"nosuch(n) + 1", "unknown-function-in-operator-expression", "nosuch"}, {"t && nosuch(n)", "unknown-function-in-operator-expression", "nosuch"}, {"double(nosuch(n)) + 1", "unknown-function-in-operator-expression", "nosuch"},
			} {
				emit(&c13Case{Part: "error", Expr: e.expr, Shape: e.shape, Fn: e.fn})
			}
		},
	})
}

func argClass(rest string) string {
	switch {
	case strings.HasPrefix(rest, `"`):
		return "dq)"
	case strings.HasPrefix(rest, `'`):
		return "sq)"
	case len(rest) > 0 && rest[0] >= '0' && rest[0] <= '9':
		return "num)"
	}
	return "var)"
}
