package checks

import (
	"bytes"
	"fmt"
	"sort"
	"strings"

	"github.com/titpetric/vuego"
	"golang.org/x/net/html"

	"verif/engine/core"
	"verif/engine/htmlcmp"
)

// C14: attribute binding — falsy omits, class and style merge, directives never leak,
// bracketed attributes are literal.

type c14Case struct {
	// reuse part: one element evaluated several times with different values
	Part   string   `json:"part,omitempty"` // "" (element) | reuse
	Form   string   `json:"form,omitempty"`
	Ctx    string   `json:"ctx,omitempty"`
	Vals   []string `json:"vals,omitempty"`
	TitleS string   `json:"ts"` // none | static | interp
	TitleB string   `json:"tb"` // none | <truth value name> | vbind
	ClassS bool     `json:"cs"`
	ClassB string   `json:"cb"` // none | str | obj1 | obj2 | obj3
	StyleS bool     `json:"ss"`
	StyleB string   `json:"sb"` // none | obj1 | obj2 | str
	Show   string   `json:"show"`
	Dir    string   `json:"dir"`
	Brk    string   `json:"brk"`
	Order  string   `json:"order"` // sf (static first) | bf
}

func (c *c14Case) Key() string { return core.KeyOf(c) }

var c14TitleVals = []string{"str_x", "str_empty", "int0", "int1", "false", "true", "nil", "missing", "str_false", "float64_0", "uint8_0", "float_small", "float_huge", "float_frac", "uint64_max", "int64_min", "float32_third", "ptr_str", "ptr_int7", "ptr_zero", "ptr_true"}

func c14Data() map[string]any {
	d := map[string]any{"w": "W", "sx": "SX", "cv": "b1 b2", "t": true, "f": false, "one": 1, "zero": 0, "col": "blue", "ss": "color: blue; top: 0", "cnt": 3, "nilv": nil, "lst": []int{1, 2, 3}}
	for _, n := range c14TitleVals {
		if n == "missing" {
			continue
		}
		d["v_"+n] = truthByName(n).V
	}
	return d
}

func (c *c14Case) build() (tpl string, want map[string]string, wantClass []string, wantStyle map[string]string, defined bool, staticOrder []string) {
	var stat, bound []string
	want = map[string]string{}
	defined = true
	// title
	switch c.TitleS {
	case "static":
		stat = append(stat, `title="st"`)
		want["title"] = "st"
	case "interp":
		stat = append(stat, `title="a{{ w }}b"`)
		want["title"] = "aWb"
	case "edge": // spaces that are not HTML white space at the ends of a static value are content
		stat = append(stat, "title=\"&nbsp;st\u3000\" data-e=\"\u2003\"")
		want["title"], want["data-e"] = "\u00a0st\u3000", "\u2003"
	}
	switch c.TitleB {
	case "none":
	case "vbind":
		bound = append(bound, `v-bind:title="sx"`)
		want["title"] = "SX"
	default:
		tv := truthByName(c.TitleB)
		bound = append(bound, `:title="v_`+c.TitleB+`"`)
		truthy := tv.Truth > 0
		if tv.Truth == 0 { // "false" string: pinned falsy
			truthy = false
		}
		if truthy {
			want["title"] = printedForm(tv.V)
		} else if c.TitleS != "none" {
			defined = false // falsy binding next to a static attribute of the same name: not stated
		}
	}
	// class
	if c.ClassS {
		stat = append(stat, `class="s1 s2"`)
		wantClass = append(wantClass, "s1", "s2")
	}
	switch c.ClassB {
	case "str":
		bound = append(bound, `:class="cv"`)
		wantClass = append(wantClass, "b1", "b2")
	case "objquote": // string literals that contain the other kind of quote, with further keys behind them
		bound = append(bound, `:class="{mine: w != &quot;O'Brien&quot;, said: w != '&quot;hi&quot;, she said', bold: t, off: f, last: one}"`)
		wantClass = append(wantClass, "mine", "said", "bold", "last")
	case "objcall": // values that are calls and index expressions with commas and brackets of their own
		bound = append(bound, `:class="{many: len(lst) > 1, first: lst[0] == 1, none: min(one, zero) > 0, pair: [1, 2][1] == 2}"`)
		wantClass = append(wantClass, "many", "first", "pair")
	case "obj1":
		bound = append(bound, `:class="{on: t, off: f}"`)
		wantClass = append(wantClass, "on")
	case "obj2":
		bound = append(bound, `:class="{'x-y': one, bare: zero, 'q': sx}"`)
		wantClass = append(wantClass, "x-y", "q")
	case "obj3":
		bound = append(bound, `:class="{on: sx, off: nilv, gone: missing}"`)
		wantClass = append(wantClass, "on")
	case "num": // a bound class that is not a string
		bound = append(bound, `:class="cnt"`)
		wantClass = append(wantClass, "3")
	case "obj5": // utility-class names contain colons
		bound = append(bound, `:class="{'md:flex': t, 'a:b:c': one, 'hover:x': f}"`)
		wantClass = append(wantClass, "md:flex", "a:b:c")
	case "obj4": // JSON-style double-quoted keys (the attribute is written with single quotes)
		bound = append(bound, `:class='{"dq": t, "off": f, "k-2": one}'`)
		wantClass = append(wantClass, "dq", "k-2")
	}
	// style
	wantStyle = map[string]string{}
	if c.StyleS {
		stat = append(stat, `style="color: red; margin: 0"`)
		wantStyle["color"], wantStyle["margin"] = "red", "0"
	}
	switch c.StyleB {
	case "obj1":
		bound = append(bound, `:style="{color: col, fontSize: '12px'}"`)
		wantStyle["color"], wantStyle["font-size"] = "blue", "12px"
	case "obj2":
		bound = append(bound, `:style="{'--c': col, 'margin-top': '1px'}"`)
		wantStyle["--c"], wantStyle["margin-top"] = "blue", "1px"
	case "str":
		bound = append(bound, `:style="ss"`)
		wantStyle["color"], wantStyle["top"] = "blue", "0"
	}
	switch c.Show {
	case "t":
		bound = append(bound, `v-show="t"`)
	case "sx":
		bound = append(bound, `v-show="sx"`)
	case "f":
		bound = append(bound, `v-show="f"`)
		wantStyle["display"] = "none"
	case "zero":
		bound = append(bound, `v-show="zero"`)
		wantStyle["display"] = "none"
	}
	switch c.Dir {
	case "vif":
		bound = append(bound, `v-if="t"`)
	case "vonce":
		bound = append(bound, `v-once`)
	case "both":
		bound = append(bound, `v-if="t"`, `v-once`)
	}
	switch c.Brk {
	case "vif":
		stat = append(stat, `[v-if]="cnt"`)
		want["v-if"] = "cnt"
	case "bound":
		stat = append(stat, `[:title2]="x"`)
		want[":title2"] = "x"
	case "mustache":
		stat = append(stat, `[data-b]="{{ w }}"`)
		want["data-b"] = "{{ w }}"
	case "class2":
		stat = append(stat, `[class2]="lit a"`)
		want["class2"] = "lit a"
	}
	want["id"] = "e"
	all := append([]string{`id="e"`}, stat...)
	if c.Order == "sf" {
		all = append(all, bound...)
	} else {
		all = append(append([]string{`id="e"`}, bound...), stat...)
	}
	for _, s := range append([]string{`id="e"`}, stat...) {
		name := s[:strings.Index(s, "=")]
		name = strings.Trim(name, "[]")
		staticOrder = append(staticOrder, name)
	}
	return `<div><p ` + strings.Join(all, " ") + `>x</p></div>`, want, wantClass, wantStyle, defined, staticOrder
}

// splitDecls splits a style value at semicolons outside parentheses and quotes.
func splitDecls(s string) []string {
	var parts []string
	depth, quote, start := 0, byte(0), 0
	for i := 0; i < len(s); i++ {
		ch := s[i]
		switch {
		case quote != 0:
			if ch == quote {
				quote = 0
			}
		case ch == '"' || ch == '\'':
			quote = ch
		case ch == '(':
			depth++
		case ch == ')' && depth > 0:
			depth--
		case ch == ';' && depth == 0:
			parts = append(parts, s[start:i])
			start = i + 1
		}
	}
	return append(parts, s[start:])
}

func parseStyle(s string) map[string]string {
	m := map[string]string{}
	for _, part := range splitDecls(s) {
		k, v, ok := strings.Cut(part, ":")
		if !ok {
			continue
		}
		m[strings.TrimSpace(k)] = strings.TrimSpace(v)
	}
	return m
}

// --- reuse part

var c14Forms = map[string]string{
	"show-style":   `<p id="e" style="color: red" v-show="v.on">k</p>`,
	"show-nostyle": `<p id="e" v-show="v.on">k</p>`,
	"show-bstyle":  `<p id="e" style="margin: 0" :style="{color: v.c}" v-show="v.on">k</p>`,
	"title":        `<p id="e" :title="v.t" class="s">k</p>`,
	"title-static": `<p id="e" title="a{{ v.t }}b">k</p>`,
	"class-obj":    `<p id="e" class="s" :class="{on: v.on, off: v.t}">k</p>`,
	"class-str":    `<p id="e" class="s" :class="v.c">k</p>`,
	"style-obj":    `<p id="e" style="margin: 0; color: black" :style="{color: v.c}">k</p>`,
	"vif-show":     `<p id="e" v-if="v.c" style="top: 0" v-show="v.on" :title="v.t">k</p>`,
	"else-show":    `<i v-if="v.none">n</i><p id="e" v-else style="top: 0" v-show="v.on" :class="v.c">k</p>`,
	"html-show":    `<p id="e" style="top: 0" v-show="v.on" v-html="v.c"></p>`,
	"text-title":   `<p id="e" :title="v.t" v-text="v.c" style="top: 0" v-show="v.on"></p>`,
	"data-bool":    `<input id="e" :disabled="v.on" :data-t="v.t" type="text">`,
}

var c14FormNames = func() []string {
	var ns []string
	for k := range c14Forms {
		ns = append(ns, k)
	}
	sort.Strings(ns)
	return ns
}()

var c14ReuseVals = map[string]map[string]any{
	"A": {"on": true, "t": "x", "c": "red"},
	"B": {"on": false, "t": "", "c": "blue"},
	"C": {"on": true, "t": "y", "c": "green"},
}

var c14ReuseCtx = []string{"for", "slotfor", "slot2", "compfor", "comp2", "renders", "tmplfor"}

func c14ElemString(out string, all bool) []string {
	var res []string
	for _, n := range htmlcmp.Find(htmlcmp.Parse(out), func(n *html.Node) bool { id, _ := htmlcmp.Attr(n, "id"); return id == "e" }) {
		res = append(res, oneLine(htmlcmp.String(htmlcmp.Project([]*html.Node{n}, htmlcmp.Options{Values: true}))))
	}
	return res
}

func (c *c14Case) runReuse(ctx *core.Ctx) {
	elem := c14Forms[c.Form]
	var vals []any
	for _, v := range c.Vals {
		vals = append(vals, c14ReuseVals[v])
	}
	if len(vals) > 1 {
		ctx.NonTrivial()
	}
	files := Files{
		"elem.vuego":    elem,
		"slotfor.vuego": `<ul><li v-for="x in list"><slot :v="x"></slot></li></ul>`,
		"slot2.vuego":   `<div><slot></slot></div><section><slot></slot></section>`,
	}
	// reference: the element alone, once per value, each on a fresh engine
	var want []string
	for _, v := range vals {
		ctx.Eval(1)
		out, err := renderPage(files, "elem.vuego", map[string]any{"v": v})
		if err != nil {
			ctx.Violation("render-error", "reuse/"+c.Form, "alone", fmt.Sprintf("%q: %v", elem, err))
			return
		}
		want = append(want, strings.Join(c14ElemString(out, true), "+"))
	}
	var got []string
	var tpl string
	ctx.Eval(1)
	switch c.Ctx {
	case "for":
		tpl = `<div v-for="v in list">` + elem + `</div>`
	case "tmplfor":
		tpl = `<template v-for="v in list">` + elem + `</template>`
	case "slotfor":
		tpl = `<template include="slotfor.vuego" :list="list"><template v-slot="{ v }">` + elem + `</template></template>`
	case "slot2":
		// the same content used twice with the same value, then the next include with the next value
		for i := range vals {
			tpl += fmt.Sprintf(`<template :v="list[%d]"></template><template include="slot2.vuego">`, i) + elem + `</template>`
		}
	case "compfor":
		tpl = `<div v-for="x in list"><template include="elem.vuego" :v="x"></template></div>`
	case "comp2":
		for i := range vals {
			tpl += fmt.Sprintf(`<template include="elem.vuego" :v="list[%d]"></template>`, i)
		}
	}
	if c.Ctx == "renders" {
		// sequential renders on one engine
		t := vuego.NewFS(files.FS())
		v := vuego.NewVue(files.FS())
		for _, val := range vals {
			var b1, b2 bytes.Buffer
			if err := t.Load("elem.vuego").Fill(map[string]any{"v": val}).Render(bg, &b1); err != nil {
				ctx.Violation("render-error", "reuse/"+c.Form, c.Ctx, err.Error())
				return
			}
			if err := v.Render(&b2, "elem.vuego", map[string]any{"v": val}); err != nil {
				ctx.Violation("render-error", "reuse/"+c.Form, c.Ctx, err.Error())
				return
			}
			g1, g2 := strings.Join(c14ElemString(b1.String(), true), "+"), strings.Join(c14ElemString(b2.String(), true), "+")
			if g1 != g2 {
				got = append(got, g1+" / Vue.Render: "+g2)
			} else {
				got = append(got, g1)
			}
		}
	} else {
		files["page.vuego"] = tpl
		out, err := renderPage(files, "page.vuego", map[string]any{"list": vals})
		if err != nil {
			ctx.Violation("render-error", "reuse/"+c.Form, c.Ctx, fmt.Sprintf("tpl %q: %v", tpl, err))
			return
		}
		got = c14ElemString(out, true)
		if c.Ctx == "slot2" {
			// two uses per value
			var w2 []string
			for _, w := range want {
				if w == "" {
					continue
				}
				w2 = append(w2, w, w)
			}
			want = w2
		}
	}
	if c.Ctx != "slot2" && c.Ctx != "renders" {
		var w2 []string
		for _, w := range want {
			if w != "" { // an element removed by v-if leaves no instance
				w2 = append(w2, w)
			}
		}
		want = w2
	}
	ctx.Outcome(strings.Join(got, ","))
	if strings.Join(got, "\n") != strings.Join(want, "\n") {
		ctx.Violation("reuse", c.Form+"/"+c.Ctx, "values-differ", fmt.Sprintf("element %q evaluated for values %v in context %s:\n got %q\nwant %q (the element alone on a fresh engine)\ntpl %q", elem, c.Vals, c.Ctx, got, want, tpl))
	}
}

// --- ns part: attributes that the parser puts into a namespace inside <svg> (xlink:href, xml:lang)
// are attributes of their own: a binding replaces the static attribute of its own full name only.
// Form: the static attributes (plain | ns | both | none), TitleB: the bound ones, Vals[0]: t | f.

func (c *c14Case) runNS(ctx *core.Ctx) {
	ctx.NonTrivial()
	truthy := c.Vals[0] == "t"
	want := map[string]string{}
	var attrs []string
	if c.Form == "ns" || c.Form == "both" {
		attrs = append(attrs, `xlink:href="#sns"`, `xml:lang="en"`)
		want["xlink:href"], want["xml:lang"] = "#sns", "en"
	}
	if c.Form == "plain" || c.Form == "both" {
		attrs = append(attrs, `href="#spl"`, `lang="de"`)
		want["href"], want["lang"] = "#spl", "de"
	}
	val := map[bool]string{true: "hv", false: "nothing"}[truthy]
	set := func(name, v string) {
		if truthy {
			want[name] = v
		} else if _, static := want[name]; static {
			want[name] = "?" // a falsy binding next to a static attribute of the same name: not stated
		}
	}
	if c.TitleB == "plain" || c.TitleB == "both" {
		attrs = append(attrs, `:href="`+val+`"`, `v-bind:lang="`+val+`"`)
		set("href", "#b")
		set("lang", "#b")
	}
	if c.TitleB == "ns" || c.TitleB == "both" {
		attrs = append(attrs, `:xlink:href="`+val+`"`, `:xml:lang="`+val+`"`)
		set("xlink:href", "#b")
		set("xml:lang", "#b")
	}
	if c.Order == "bf" {
		for i, j := 0, len(attrs)-1; i < j; i, j = i+1, j-1 {
			attrs[i], attrs[j] = attrs[j], attrs[i]
		}
	}
	tpl := `<svg><use id="e" ` + strings.Join(attrs, " ") + `></use></svg>`
	ctx.Eval(1)
	out, err := renderString(tpl, map[string]any{"hv": "#b"})
	if err != nil {
		ctx.Violation("render-error", "ns", c.Form+"/"+c.TitleB, fmt.Sprintf("tpl %q: %v", tpl, err))
		return
	}
	e := htmlcmp.ByID(htmlcmp.Parse(out), "e")
	if e == nil {
		ctx.Violation("element-lost", "ns", c.Form+"/"+c.TitleB, fmt.Sprintf("tpl %q out %q", tpl, out))
		return
	}
	got := map[string][]string{}
	for _, a := range e.Attr {
		k := a.Key
		if a.Namespace != "" {
			k = a.Namespace + ":" + a.Key
		}
		if k != "id" {
			got[k] = append(got[k], a.Val)
		}
	}
	ctx.Outcome(fmt.Sprint(got))
	for k, vs := range got {
		w, ok := want[k]
		if !ok || len(vs) != 1 || (w != "?" && vs[0] != w) {
			ctx.Violation("attribute-value", "ns/static="+c.Form+"/bound="+c.TitleB, k, fmt.Sprintf("tpl %q: attribute %s has the values %q, want %q (out %q)", tpl, k, vs, w, out))
		}
	}
	for k, w := range want {
		if _, ok := got[k]; !ok && w != "?" {
			ctx.Violation("attribute-value", "ns/static="+c.Form+"/bound="+c.TitleB, k+"-missing", fmt.Sprintf("tpl %q: attribute %s=%q is missing (out %q)", tpl, k, w, out))
		}
	}
}

// --- style-values part: static declarations whose values contain semicolons, colons, quotes

var c14StyleStatics = map[string]map[string]string{
	`background: url(data:image/png;base64,AAA); margin: 0`: {"background": "url(data:image/png;base64,AAA)", "margin": "0"},
	`content: ";"; color: red`:                              {"content": `";"`, "color": "red"},
	`font-family: 'a;b', serif; top: 0`:                     {"font-family": `'a;b', serif`, "top": "0"},
	`background: url("x;y.png") no-repeat; color: red;`:     {"background": `url("x;y.png") no-repeat`, "color": "red"},
	`color: red`: {"color": "red"},
	// property names are case-insensitive for CSS, but every declaration written stays
	`Margin: 0; padding: 1px`:          {"margin": "0", "padding": "1px"},
	`BORDER: none; Top: 0; z-index: 2`: {"border": "none", "top": "0", "z-index": "2"},
	// the same property declared more than once (fallback values): every declaration stays, in order
	`display: -webkit-box; display: flex; margin: 0`:              {"display": "flex", "margin": "0"},
	`width: 100px; width: calc(100% - 2px); width: min(1px, 2px)`: {"width": "min(1px, 2px)"},
	// declarations whose text ends like what the bindings write: other properties all the same
	`--menu-display:none;color:red`:                {"--menu-display": "none", "color": "red"},
	`x-color:blue;font-size:12px;;max-width:100px`: {"x-color": "blue", "font-size": "12px", "max-width": "100px"},
	`border-color: blue; top: 0`:                   {"border-color": "blue", "top": "0"},
}

func (c *c14Case) runStyleValues(ctx *core.Ctx) {
	ctx.NonTrivial()
	want := map[string]string{}
	for k, v := range c14StyleStatics[c.Form] {
		want[k] = v
	}
	attrs := ` style="` + strings.ReplaceAll(c.Form, `"`, "&quot;") + `"`
	data := c14Data()
	if c.Ctx == "interp" { // the same declarations, substituted into the attribute
		attrs = ` style="{{ sstat }}"`
		data["sstat"] = c.Form
	}
	switch c.StyleB {
	case "obj1":
		attrs += ` :style="{color: col, fontSize: '12px'}"`
		want["color"], want["font-size"] = "blue", "12px"
	case "str":
		attrs += ` :style="ss"`
		want["color"], want["top"] = "blue", "0"
	case "objdisp": // the bound style sets display itself: v-show still hides
		attrs += ` :style="{display: 'flex', fontSize: '12px'}"`
		want["display"], want["font-size"] = "flex", "12px"
	case "objw": // a property whose declaration is the tail of a static one (max-width:100px)
		attrs += ` :style="{width: '100px'}"`
		want["width"] = "100px"
	case "objzero": // zero is a value
		attrs += ` :style="{opacity: 0, zIndex: zero, margin: 0.0}"`
		want["opacity"], want["z-index"], want["margin"] = "0", "0", "0"
	}
	switch c.Show {
	case "f":
		attrs += ` v-show="f"`
		want["display"] = "none"
	case "t":
		attrs += ` v-show="t"`
	}
	tpl := `<div><p id="e"` + attrs + `>x</p></div>`
	ctx.Eval(1)
	out, err := renderString(tpl, data)
	if err != nil {
		ctx.Violation("render-error", "style-values", c.StyleB+"/"+c.Show, fmt.Sprintf("tpl %q: %v", tpl, err))
		return
	}
	e := htmlcmp.ByID(htmlcmp.Parse(out), "e")
	if e == nil {
		ctx.Violation("element-lost", "style-values", c.StyleB, fmt.Sprintf("tpl %q out %q", tpl, out))
		return
	}
	st, _ := htmlcmp.Attr(e, "style")
	got := map[string]string{}
	for k, v := range parseStyle(st) {
		got[strings.ToLower(k)] = v // (names compared without regard to case)
	}
	ctx.Outcome(st)
	// the values a property is given in the static attribute are still there, in their order
	// (unless the bound style sets that property)
	seq := func(style string) map[string][]string {
		m := map[string][]string{}
		for _, part := range splitDecls(style) {
			if k, v, ok := strings.Cut(part, ":"); ok {
				k = strings.ToLower(strings.TrimSpace(k))
				m[k] = append(m[k], strings.TrimSpace(v))
			}
		}
		return m
	}
	outSeq := seq(st)
	for k, vs := range seq(c.Form) {
		if (c.StyleB == "obj1" && k == "color") || (c.StyleB == "str" && (k == "color" || k == "top")) || ((c.Show == "f" || c.StyleB == "objdisp") && k == "display") || (c.StyleB == "objzero" && (k == "margin" || k == "opacity" || k == "z-index")) || (c.StyleB == "objw" && k == "width") {
			continue
		}
		if fmt.Sprint(outSeq[k]) != fmt.Sprint(vs) {
			ctx.Violation("style-merge", "style-values/bound="+c.StyleB+"/show="+c.Show, "repeated-declaration", fmt.Sprintf("tpl %q: style %q gives %s the values %q, the static attribute gave it %q", tpl, st, k, outSeq[k], vs))
		}
	}
	if fmt.Sprint(sortedKV(got)) != fmt.Sprint(sortedKV(want)) {
		ctx.Violation("style-merge", "style-values/bound="+c.StyleB+"/show="+c.Show, "semicolon-or-colon-inside-a-value", fmt.Sprintf("tpl %q: style %q parses to %v, want %v", tpl, st, sortedKV(got), sortedKV(want)))
	}
}

// c14Exprs: bound expressions that are not a plain variable, with their conventional value
// ("" = falsy: the attribute is omitted). Several begin and end with a string literal.
var c14Exprs = []struct{ Src, Want string }{
	{`'lit'`, "lit"}, {`"lit"`, "lit"}, {`'btn-' + sx`, "btn-SX"}, {`sx + '-lg'`, "SX-lg"}, {`'btn-' + sx + '-lg'`, "btn-SX-lg"}, {`"a-" + sx + "-z"`, "a-SX-z"},
	{`t ? 'yes' : 'no'`, "yes"}, {`f ? 'yes' : 'no'`, "no"}, {`'SX' == sx ? 'yes' : 'no'`, "yes"}, {`'p' == sx ? 'yes' : 'no'`, "no"},
	{`'a' == 'b'`, ""}, {`'a' == 'a'`, "true"}, {`'a' != 'b'`, "true"}, {`cnt + 1`, "4"}, {`cnt - 3`, ""}, {`''`, ""}, {`'' + ''`, ""}, {`'x' + 'y'`, "xy"},
	// values whose text reads like character references: written so that a parser reads the value back
	{`'/s?a=1&amp;region=eu&amp;copy=1'`, "/s?a=1&region=eu&copy=1"}, {`'a&amp;amp;b'`, "a&amp;b"}, {`'&amp;lt;i&amp;gt;'`, "&lt;i&gt;"}, {`'x&amp;#39;y' + sx`, "x&#39;ySX"}, {`'&amp;notin; &amp;amp' + sx`, "&notin; &ampSX"},
	{`sx == 'SX'`, "true"}, {`sx == 'nope'`, ""}, {`t && 'a' == 'a'`, "true"}, {`'it''s'`, "?"},
}

// runExpr: a bound attribute whose expression is compound is emitted with the value's string form
func (c *c14Case) runExpr(ctx *core.Ctx) {
	var e struct{ Src, Want string }
	for _, x := range c14Exprs {
		if x.Src == c.Form {
			e = x
		}
	}
	if e.Want == "?" {
		ctx.Zone("malformed-expression")
		_, _ = renderString(`<p id="e" :title="`+e.Src+`">x</p>`, c14Data())
		return
	}
	ctx.NonTrivial()
	q := `"`
	if strings.Contains(e.Src, `"`) {
		q = `'`
	}
	static := ""
	if c.ClassS {
		static = ` class="s1 s2"`
	}
	attr := c.Ctx // title | class | data-k | v-bind:title
	name := strings.TrimPrefix(attr, "v-bind:")
	bind := ":" + attr
	if strings.HasPrefix(attr, "v-bind:") {
		bind = attr
	}
	tpl := `<p id="e"` + static + ` ` + bind + `=` + q + e.Src + q + `>x</p>`
	ctx.Eval(1)
	out, err := renderString(tpl, c14Data())
	if err != nil {
		ctx.Violation("render-error", "bound-expression/"+name, c14ExprClass(e.Src), fmt.Sprintf("tpl %s: %v", tpl, err))
		return
	}
	el := htmlcmp.ByID(htmlcmp.Parse(out), "e")
	if el == nil {
		ctx.Violation("element-lost", "bound-expression", name, fmt.Sprintf("tpl %s out %q", tpl, out))
		return
	}
	got, has := htmlcmp.Attr(el, name)
	want, wantHas := e.Want, e.Want != ""
	if name == "class" && c.ClassS {
		wantHas = true
		want = strings.TrimSpace("s1 s2 " + e.Want)
		got = strings.Join(strings.Fields(got), " ")
	}
	ctx.Outcome(fmt.Sprint(has, got))
	if has != wantHas || (has && got != want) {
		ctx.Violation("bound-expression-value", name, c14ExprClass(e.Src), fmt.Sprintf("tpl %s: attribute %s present=%v value %q; want present=%v value %q (out %q)", tpl, name, has, got, wantHas, want, out))
	}
}

func c14ExprClass(src string) string {
	switch {
	case strings.Contains(src, "?"):
		return "ternary"
	case strings.Contains(src, "=="), strings.Contains(src, "!="):
		return "comparison"
	case strings.Contains(src, "+"), strings.Contains(src, "-"):
		return "concatenation-or-arithmetic"
	}
	return "literal"
}

func (c *c14Case) Run(ctx *core.Ctx) {
	if c.Part == "expr" {
		c.runExpr(ctx)
		return
	}
	if c.Part == "style-values" {
		c.runStyleValues(ctx)
		return
	}
	if c.Part == "reuse" {
		c.runReuse(ctx)
		return
	}
	if c.Part == "ns" {
		c.runNS(ctx)
		return
	}
	tpl, want, wantClass, wantStyle, defined, staticOrder := c.build()
	if !defined {
		ctx.Zone("falsy-binding-next-to-static-attribute")
		return
	}
	ctx.NonTrivial()
	ctx.Eval(1)
	out, err := renderString(tpl, c14Data())
	cfg := fmt.Sprintf("%+v", *c)
	if err != nil {
		ctx.Violation("render-error", "element", c.TitleB+"/"+c.ClassB+"/"+c.StyleB, fmt.Sprintf("tpl %q: %v", tpl, err))
		return
	}
	ctx.Outcome(out)
	e := htmlcmp.ByID(htmlcmp.Parse(out), "e")
	if e == nil {
		ctx.Violation("element-lost", "element", c.Dir, fmt.Sprintf("tpl %q out %q", tpl, out))
		return
	}
	got := map[string]string{}
	var gotOrder []string
	for _, a := range e.Attr {
		got[a.Key] = a.Val
		gotOrder = append(gotOrder, a.Key)
	}
	// directives and internal attributes never leak
	for k := range got {
		if _, literal := want[k]; literal {
			continue
		}
		if strings.HasPrefix(k, "v-") || strings.HasPrefix(k, ":") || strings.HasPrefix(k, "[") || strings.HasPrefix(k, "data-v-") {
			ctx.Violation("directive-leaked", attrClass(k), c.Dir+"/"+c.Show, fmt.Sprintf("%s\ntpl %q: attribute %q in output %q", cfg, tpl, k, out))
		}
	}
	// plain attributes
	for k, w := range want {
		g, ok := got[k]
		if !ok {
			ctx.Violation("attribute-missing", c14Where(c, k), c14Trig(c, k), fmt.Sprintf("%s\ntpl %q: %s missing (want %q) in %q", cfg, tpl, k, w, out))
		} else if strings.Trim(g, " \t\n\r\f") != w { // (HTML white space at the ends is not compared; any other space is content)
			ctx.Violation("attribute-value", c14Where(c, k), c14Trig(c, k), fmt.Sprintf("%s\ntpl %q: %s=%q want %q", cfg, tpl, k, g, w))
		}
	}
	for k, g := range got {
		if k == "class" || k == "style" {
			continue
		}
		if _, ok := want[k]; !ok && !strings.HasPrefix(k, "v-") && !strings.HasPrefix(k, ":") {
			ctx.Violation("attribute-extra", c14Where(c, k), c14Trig(c, k), fmt.Sprintf("%s\ntpl %q: unexpected %s=%q (falsy bindings are omitted)", cfg, tpl, k, g))
		}
	}
	// class as token list (order: static first)
	gc := strings.Fields(got["class"])
	if strings.Join(gc, " ") != strings.Join(wantClass, " ") {
		ctx.Violation("class-merge", fmt.Sprintf("static=%v/bound=%s", c.ClassS, c.ClassB), c.Order, fmt.Sprintf("%s\ntpl %q: class %q want %q", cfg, tpl, gc, wantClass))
	}
	// style as property map
	gs := parseStyle(got["style"])
	if fmt.Sprint(sortedKV(gs)) != fmt.Sprint(sortedKV(wantStyle)) {
		ctx.Violation("style-merge", fmt.Sprintf("static=%v/bound=%s/show=%s", c.StyleS, c.StyleB, c.Show), c.Order, fmt.Sprintf("%s\ntpl %q: style %q want %v", cfg, tpl, got["style"], sortedKV(wantStyle)))
	}
	// static attributes keep their relative order
	idx := map[string]int{}
	for i, k := range gotOrder {
		idx[k] = i
	}
	last := -1
	for _, k := range staticOrder {
		i, ok := idx[k]
		if !ok {
			continue
		}
		if i < last {
			ctx.Violation("static-order", "element", c.Order, fmt.Sprintf("%s\ntpl %q: static attributes out of order in %q", cfg, tpl, out))
			break
		}
		last = i
	}
}

func attrClass(k string) string {
	switch {
	case strings.HasPrefix(k, "v-"):
		return k
	case strings.HasPrefix(k, ":"):
		return "colon-binding"
	case strings.HasPrefix(k, "["):
		return "bracketed"
	}
	return "internal"
}

func c14Where(c *c14Case, k string) string {
	switch k {
	case "title":
		return "title/static=" + c.TitleS
	case "id":
		return "id"
	}
	return "bracketed/" + c.Brk
}

func c14Trig(c *c14Case, k string) string {
	if k == "title" {
		return "bound=" + c.TitleB + "/" + c.Order
	}
	return c.Order
}

func sortedKV(m map[string]string) []string {
	var out []string
	for k, v := range m {
		out = append(out, k+":"+v)
	}
	sort.Strings(out)
	return out
}

func init() {
	core.Register(&core.Check{
		ID:    "C14",
		Level: "exploration",
		Rule: "one element carrying every combination of: static / interpolated title x title bound to 17 values of every truthiness and with string forms that have several spellings (exponent notation, extreme integers) (and v-bind:) x static class x 7 bound class forms (string, number, objects with bare/single-quoted/double-quoted/hyphenated/colon-bearing keys and truthy/falsy/nil/undefined values) x static style x 3 bound style forms (camelCase object, custom property object, string) x v-show {none,true,truthy string,false,0} x directive attributes x 4 bracketed attributes (incl. a mustache value) x both source orders; " +
			"plus static style values containing semicolons, colons and quotes (data URLs, quoted strings) x bound style x v-show; plus a reuse part: 13 element forms (v-show with/without static and bound style, bound/interpolated title, :class object/string, :style over static style, v-if / v-else + v-show, v-html / v-text + v-show, boolean attribute) evaluated for every sequence of <=3 values out of 3 in 7 contexts where one source node is evaluated repeatedly (v-for on a parent, <template v-for>, scoped slot inside a component loop, slot used twice per include, component in a loop, component included repeatedly, successive renders on one engine through Load/Render and Vue.Render), oracle: every instance equals the element rendered alone on a fresh engine; " +
			"plus an expression part: 22 compound bound expressions (string literals in both quote styles, concatenations that begin and end with a literal, ternaries, comparisons of literals, arithmetic) on :title, :class (with and without static classes), :data-k and v-bind:title, emitted with the value's string form or omitted when falsy; " +
			"plus a namespace part: static and bound href / lang and xlink:href / xml:lang on an element inside <svg>, every combination, both orders, truthy and falsy: a binding replaces the static attribute of its own full name only, and no attribute is written twice; " +
			"oracle: reference attribute model (values, class token list, style property map, static order, no directive/internal attribute in the output, bracketed literal). non-trivial = all with defined semantics",
		Bounds:      map[string]string{"quick": "full product (528k elements)", "thorough": "same"},
		Assumptions: []string{"a falsy binding next to a static attribute of the same name is unconstrained", "relative order of style declarations and of bound attributes without a static counterpart is C10's subject"},
		Decode:      core.DecodeAs[c14Case](),
		Enumerate: func(tier string, emit func(core.Case)) {
			for st := range c14StyleStatics {
				for _, sb := range []string{"none", "obj1", "str", "objdisp", "objzero", "objw"} {
					for _, sh := range []string{"none", "t", "f"} {
						emit(&c14Case{Part: "style-values", Form: st, StyleB: sb, Show: sh})
						emit(&c14Case{Part: "style-values", Form: st, StyleB: sb, Show: sh, Ctx: "interp"})
					}
				}
			}
			for _, e := range c14Exprs {
				for _, attr := range []string{"title", "class", "data-k", "v-bind:title"} {
					emit(&c14Case{Part: "expr", Form: e.Src, Ctx: attr})
					if attr == "class" {
						emit(&c14Case{Part: "expr", Form: e.Src, Ctx: attr, ClassS: true})
					}
				}
			}
			for _, st := range []string{"none", "plain", "ns", "both"} {
				for _, b := range []string{"none", "plain", "ns", "both"} {
					for _, tv := range []string{"t", "f"} {
						for _, o := range []string{"sf", "bf"} {
							emit(&c14Case{Part: "ns", Form: st, TitleB: b, Vals: []string{tv}, Order: o})
						}
					}
				}
			}
			valNames := []string{"A", "B", "C"}
			for _, form := range c14FormNames {
				for _, cx := range c14ReuseCtx {
					tokenStrings(valNames, 3, func(tok []int) {
						var vs []string
						for _, i := range tok {
							vs = append(vs, valNames[i])
						}
						emit(&c14Case{Part: "reuse", Form: form, Ctx: cx, Vals: vs})
					})
				}
			}
			tbs := append([]string{"none", "vbind"}, c14TitleVals...)
			for _, ts := range []string{"none", "static", "interp", "edge"} {
				for _, tb := range tbs {
					for _, cs := range []bool{false, true} {
						for _, cb := range []string{"none", "str", "obj1", "obj2", "obj3", "obj4", "obj5", "num", "objcall", "objquote"} {
							for _, ss := range []bool{false, true} {
								for _, sb := range []string{"none", "obj1", "obj2", "str"} {
									for _, sh := range []string{"none", "t", "sx", "f", "zero"} {
										for _, dir := range []string{"none", "vif", "vonce", "both"} {
											for _, brk := range []string{"none", "vif", "bound", "mustache", "class2"} {
												for _, ord := range []string{"sf", "bf"} {
													emit(&c14Case{TitleS: ts, TitleB: tb, ClassS: cs, ClassB: cb, StyleS: ss, StyleB: sb, Show: sh, Dir: dir, Brk: brk, Order: ord})
												}
											}
										}
									}
								}
							}
						}
					}
				}
			}
		},
	})
}
