package checks

import (
	"bytes"
	"fmt"
	"io/fs"
	"sort"
	"strings"

	"github.com/titpetric/vuego"

	"golang.org/x/net/html"
	"verif/engine/core"
	"verif/engine/htmlcmp"
)

// C11: every render call returns — no panic, no unbounded recursion, no hang.

type c11Case struct {
	Part string `json:"part"` // types | graph | source
	// types
	Pos string `json:"pos,omitempty"`
	Val string `json:"val,omitempty"`
	// graph: per file a list of edges "target:mode"
	A []string `json:"a,omitempty"`
	B []string `json:"b,omitempty"`
	C []string `json:"c,omitempty"`
	// Wrap: what surrounds the includes of each file: "" = <section>x…</section>, bare = nothing
	// (the include is the first node of the file), tmpl = a <template> root
	Wrap string `json:"wrap,omitempty"`
	// slots: content / supply form / component / depth
	Content string `json:"content,omitempty"`
	Supply  string `json:"supply,omitempty"`
	Comp    string `json:"comp,omitempty"`
	Depth   string `json:"depth,omitempty"`
	// source
	Tokens []int  `json:"tokens,omitempty"`
	As     string `json:"as,omitempty"` // string | file | frontmatter
	Src    string `json:"src,omitempty"`
}

func (c *c11Case) Key() string { return core.KeyOf(c) }

func (c *c11Case) CrashWhere() string {
	switch c.Part {
	case "funcs":
		return "funcs/" + c.Pos
	case "api":
		return "api"
	case "style":
		return "style/" + c.Pos
	case "less":
		return "less/" + c.Pos
	case "depth":
		return "depth/" + c.Pos
	case "ctor":
		return "ctor/" + c.Pos
	case "types":
		return "types/" + c.Pos
	case "graph":
		return "graph"
	case "slots":
		return "slots/" + c.Depth
	}
	return "source/" + c.As
}

// c11StyleTexts: what a hand-written style (or class) attribute may contain
var c11StyleTexts = []string{"hidden", "color red; width:1px", ":", ";", ";;", "a:", ":b", "a:b;c", "a:b;c;", "url(x;y", `"unterminated; a:b`, "a:b;  ;", " ", "", "{{ x }}", "a:{{ x }};b", "a:b:c", "a : b ; ; c", "--x: 1; --X: 2", "a:b;\n", "\u00a0", "a:b\x00;c:d", "((", "a:url(", "content: ';'", "!important"}

// c11StyleBinders: S is the static text
var c11StyleBinders = map[string]string{
	"bound-string":  `<p style="S" :style="ss">t</p>`,
	"bound-bad":     `<p style="S" :style="bad">t</p>`,
	"bound-object":  `<p style="S" :style="{color: col, top: 0}">t</p>`,
	"bound-value":   `<p style="S" :style="x">t</p>`,
	"vshow-false":   `<p style="S" v-show="f">t</p>`,
	"vshow-true":    `<p style="S" v-show="t">t</p>`,
	"vshow-value":   `<p style="S" v-show="x" :style="ss">t</p>`,
	"class-bound":   `<p class="S" :class="ss">t</p>`,
	"class-object":  `<p class="S" :class="{on: t, off: x}">t</p>`,
	"bound-is-text": `<p style="a:b" :style="'S'">t</p>`,
	"loop":          `<p v-for="i in 'ab'" style="S" :style="ss" v-show="f">t</p>`,
}

// positions: template text with X for the expression
var c11Positions = []struct{ Name, Tpl string }{
	{"mustache", `<p>{{ X }}</p>`},
	{"upper", `<p>{{ X | upper }}</p>`},
	{"len", `<p>{{ X | len }}</p>`},
	{"default", `<p>{{ X | default("d") }}</p>`},
	{"json", `<p>{{ X | json }}</p>`},
	{"int", `<p>{{ X | int }}</p>`},
	{"string-title", `<p>{{ X | string | title }}</p>`},
	{"formatTime", `<p>{{ X | formatTime("2006") }}</p>`},
	{"filter-arg", `<p>{{ "a" | default(X) }}</p>`},
	{"trim-escape", `<p>{{ X | trim | escape }}</p>`},
	{"type", `<p>{{ X | type }}</p>`},
	{"call", `<p>{{ len(X) }}</p>`},
	{"ternary", `<p>{{ X ? "y" : "n" }}</p>`},
	{"arith", `<p>{{ X + 1 }}</p>`},
	{"compare", `<p>{{ X == 1 }}</p>`},
	{"vif", `<p v-if="X">y</p><p v-else>n</p>`},
	{"vif-gt", `<p v-if="X > 1">y</p>`},
	{"vif-not", `<p v-if="!X">y</p>`},
	{"velseif", `<p v-if="f">a</p><p v-else-if="X">b</p>`},
	{"vfor", `<ul><li v-for="it in X">{{ it }}</li></ul>`},
	{"vfor-ix", `<ul><li v-for="(i, it) in X" :data-i="i">{{ it.a }}</li><li v-else>none</li></ul>`},
	{"vfor-nested", `<ul><li v-for="row in X"><b v-for="c in row">{{ c }}</b></li></ul>`},
	{"bind", `<p :title="X">t</p>`},
	{"bind-class", `<p class="s" :class="X">t</p>`},
	{"class-object", `<p :class="{on: X, off: !X}">t</p>`},
	{"bind-style", `<p :style="X">t</p>`},
	{"static+bound-style", `<p style="color: red" :style="X">t</p>`},
	{"style-object", `<p style="a: b" :style="{color: X}">t</p>`},
	{"vshow", `<p v-show="X" style="c: d">t</p>`},
	{"vhtml", `<div v-html="X"></div>`},
	{"vtext", `<div v-text="X"></div>`},
	{"include-prop", `<template include="c.vuego" :p="X"></template>`},
	{"include-interp", `<template include="c.vuego" p="a{{ X }}b"></template>`},
	{"slot-prop", `<template include="s.vuego" :p="X"><template v-slot="sp">{{ sp.item }}</template></template>`},
	{"path-a", `<p>{{ X.a }}</p>`},
	{"path-ab", `<p>{{ X.a.b }}</p>`},
	{"index0", `<p>{{ X[0] }}</p>`},
	{"index1a", `<p>{{ X[1].a }}</p>`},
	{"index-neg", `<p>{{ X[-1] }} {{ X[-3] }} {{ X[-9] }} {{ X.-2 }}</p><i :title="X[-4]" v-if="X[-1]">y</i><b v-for="it in X[-2]">{{ it }}</b>`},
	{"index-huge", `<p>{{ X[99999999999999999999] }} {{ X[9223372036854775807] }} {{ X[-9223372036854775808] }} {{ X[1e3] }} {{ X[0x10] }} {{ X[+1] }} {{ X[ 1 ] }}</p>`},
	{"index-var", `<template :i="-5"><p>{{ X[i] }}</p></template><template :j="7"><p>{{ X[j] }} {{ X[j][j] }}</p></template>`},
	{"field", `<p>{{ X.Name }}</p>`},
	{"unexported", `<p>{{ X.priv }}</p>`},
	{"embedded-field", `<p>{{ X.Label }} {{ X.Next.Next.Name }}</p>`},
	{"template-bind", `<template :y="X"><p>{{ y }}</p></template>`},
	{"attr-interp", `<p title="a{{ X }}b" data-x="{{ X.a }}">t</p>`},
	{"vonce-for", `<p v-for="it in X" v-once>{{ it }}</p>`},
}

// registered functions of every shape the FuncMap accepts (it takes any value), none of which
// panics itself: whatever the engine does to call them must end in a value or an error
var c11Funcs = func() map[string]any {
	var nilFn func(string) string
	return map[string]any{
		"str1":     func(s string) string { return s },
		"int1":     func(n int) int { return n },
		"float1":   func(f float64) float64 { return f },
		"bool1":    func(b bool) bool { return b },
		"any1":     func(x any) any { return x },
		"noarg":    func() string { return "n" },
		"two":      func(a, b int) int { return a + b },
		"variadic": func(parts ...string) string { return strings.Join(parts, ",") },
		"fixvar":   func(a, b int, rest ...int) int { return a + b + len(rest) },
		"ctxstr":   func(ctx *vuego.VueContext, s string) string { return s },
		"ctxvar":   func(ctx *vuego.VueContext, parts ...any) string { return fmt.Sprint(len(parts)) },
		"ctxfix":   func(ctx *vuego.VueContext, width int, parts ...any) string { return fmt.Sprint(width, len(parts)) },
		"ctxfixs": func(ctx *vuego.VueContext, name string, parts ...string) string {
			return name + strings.Join(parts, "")
		},
		"witherr":  func(s string) (string, error) { return s, nil },
		"failing":  func(s string) (string, error) { return "", fmt.Errorf("no") },
		"commaok":  func(s string) (string, bool) { return s, true },
		"three":    func(s string) (string, int, error) { return s, 1, nil },
		"noresult": func(s string) {},
		"arr":      func(a [4]int) int { return a[0] },
		"sl":       func(a []string) int { return len(a) },
		"mp":       func(m map[string]any) int { return len(m) },
		"ptr":      func(p *vStruct) string { return "p" },
		"strct":    func(p vStruct) string { return p.Name },
		"fn":       func(f func() string) string { return "f" },
		"iface":    func(e error) string { return "e" },
		"nilentry": nil,
		"nilfunc":  nilFn,
		"notfunc":  42,
		"strval":   "text",
	}
}()

var c11FuncNames = func() []string {
	var ns []string
	for k := range c11Funcs {
		ns = append(ns, k)
	}
	sort.Strings(ns)
	return ns
}()

var c11CallForms = []struct{ Name, Tpl string }{
	{"call", `<p>{{ F(x) }}</p>`},
	{"call0", `<p>{{ F() }}</p>`},
	{"call3", `<p>{{ F(x, 1, "a") }}</p>`},
	{"callxx", `<p>{{ F(x, x) }}</p>`},
	{"pipe", `<p>{{ x | F }}</p>`},
	{"pipeargs", `<p>{{ x | F(2, "b") }}</p>`},
	{"pipemissing", `<p>{{ nothing | F }}</p>`},
	{"vif", `<p v-if="F(x)">y</p><p v-else>n</p>`},
	{"bind", `<p :title="F(x)">t</p>`},
	{"bindpipe", `<p :title="x | F">t</p>`},
	{"vfor", `<p v-for="it in F(x)">{{ it }}</p>`},
	{"chain", `<p>{{ x | F | F }}</p>`},
}

var c11Tokens = []string{"<", ">", "</", "{{", "}}", "\"", "=", "<template", " include=", " v-for=\"", " v-if=\"", "<slot>", "---\n", "\x00", "a", "<!--", " v-html=\"", "|", "(", " in ", "'", "\\", "'a\\"}

// openLimitFS refuses a file once it has been opened more than limit times.
type openLimitFS struct {
	fs.FS
	limit   int
	opens   map[string]int
	refused string
}

func (l *openLimitFS) Open(name string) (fs.File, error) {
	l.opens[name]++
	if l.opens[name] > l.limit {
		l.refused = name
		return nil, fmt.Errorf("open %s: opened too often", name)
	}
	return l.FS.Open(name)
}

func (c *c11Case) Run(ctx *core.Ctx) {
	ctx.NonTrivial()
	var buf bytes.Buffer
	switch c.Part {
	case "less":
		// @import graphs of LESS files behind the LESS processor: cycles and long chains end in an
		// error or in CSS, not in the end of the process
		// (shape-css: the imported files are called *.css - the library takes them in like any other)
		pos, ext := c.Pos, ".less"
		if strings.HasSuffix(pos, "-css") {
			pos, ext = strings.TrimSuffix(pos, "-css"), ".css"
		}
		files := Files{"page.vuego": "<style type=\"text/css+less\">\n@import \"f0" + ext + "\";\n.page { color: red; }\n</style><p>x</p>"}
		var n int
		fmt.Sscanf(c.Val, "%d", &n)
		for i := 0; i < n; i++ {
			next := ""
			switch {
			case i+1 < n:
				next = fmt.Sprintf("@import \"f%d%s\";\n", i+1, ext)
			case pos == "cycle":
				next = "@import \"f0" + ext + "\";\n"
			case pos == "self":
				next = fmt.Sprintf("@import \"f%d%s\";\n", i, ext)
			case pos == "selftwice": // two imports of itself in every file: refused imports must not be retried 2^depth times
				next = fmt.Sprintf("@import \"f%d%s\";\n@import \"f%d%s\";\n", i, ext, i, ext)
			case pos == "missing":
				next = "@import \"nowhere.less\";\n"
			}
			if pos == "diamond" && i+2 < n {
				next += fmt.Sprintf("@import \"f%d%s\";\n", i+2, ext)
			}
			files[fmt.Sprintf("f%d%s", i, ext)] = next + fmt.Sprintf(".c%d { top: %dpx; }\n", i, i)
		}
		ctx.Eval(2)
		err1 := vuego.NewFS(files.FS(), vuego.WithLessProcessor()).Load("page.vuego").Render(bg, &buf)
		err2 := vuego.NewFS(files.FS(), vuego.WithLessProcessor()).Load("page.vuego").Render(bg, &buf)
		if (pos == "cycle" || pos == "self" || pos == "selftwice") && (err1 == nil || err2 == nil) {
			ctx.Violation("no-error", "less/"+c.Pos, "import-cycle", fmt.Sprintf("an @import cycle over %d files rendered without error", n))
		}
		ctx.Outcome(fmt.Sprint(err1 != nil, err2 != nil))
	case "style":
		// static style / class texts of every (mal)formed shape next to each thing that rewrites them
		tpl := strings.ReplaceAll(c11StyleBinders[c.Pos], "S", strings.ReplaceAll(c.Src, `"`, "&quot;"))
		data := map[string]any{"x": wrongByName(c.Val), "f": false, "t": true, "ss": "margin:0", "bad": "no colon here; ;:", "col": "red"}
		ctx.Eval(2)
		err1 := vuego.New().Fill(data).RenderString(bg, &buf, tpl)
		err2 := vuego.NewVue(Files{"page.vuego": tpl}.FS()).Render(&buf, "page.vuego", data)
		ctx.Outcome(fmt.Sprint(err1 != nil, err2 != nil))
	case "api":
		// the exported accessors of the variable stack on every value, and RenderNodes on node lists with holes
		v := wrongByName(c.Val)
		st := vuego.NewStack(map[string]any{"x": v, "o": map[string]any{"x": v}, "l": []any{v}})
		n := 0
		for _, path := range []string{"x", "x.a", "x[0]", "x.Name", "o.x", "o.x.a", "l[0]", "l[0].a", "x.x.x", "missing"} {
			ctx.Eval(7)
			_, _ = st.Resolve(path)
			_, _ = st.Lookup(path)
			_, _ = st.GetString(path)
			_, _ = st.GetInt(path)
			_, _ = st.GetSlice(path)
			_, _ = st.GetMap(path)
			_ = st.ForEach(path, func(int, any) error { n++; return nil })
		}
		_ = st.EnvMap()
		_ = st.Copy().EnvMap()
		st2 := vuego.NewStackWithData(map[string]any{"a": 1}, v)
		_, _ = st2.Resolve("Name")
		_, _ = st2.GetString("a")
		_ = st2.EnvMap()
		vue := vuego.NewVue(Files{}.FS())
		nodes := htmlcmp.ParseFragment(`<p :title="x">{{ x }}</p><i v-for="q in x">{{ q }}</i>`)
		ctx.Eval(3)
		err1 := vue.RenderNodes(&buf, append([]*html.Node{nil}, nodes...), map[string]any{"x": v})
		err2 := vue.RenderNodes(&buf, append(append([]*html.Node{}, nodes...), nil, nil), map[string]any{"x": v})
		err3 := vue.RenderNodes(&buf, nil, v)
		ctx.Outcome(fmt.Sprint(n, err1 != nil, err2 != nil, err3 != nil))
	case "funcs":
		var tpl string
		for _, f := range c11CallForms {
			if f.Name == c.Pos {
				tpl = strings.ReplaceAll(f.Tpl, "F", c.Src)
			}
		}
		data := map[string]any{"x": wrongByName(c.Val)}
		ctx.Eval(2)
		err1 := vuego.New(vuego.WithFuncs(vuego.FuncMap(c11Funcs))).Fill(data).RenderString(bg, &buf, tpl)
		v := vuego.NewVue(Files{"page.vuego": tpl}.FS())
		v.Funcs(vuego.FuncMap(c11Funcs))
		err2 := v.Render(&buf, "page.vuego", data)
		ctx.Outcome(fmt.Sprint(err1 != nil, err2 != nil))
	case "types":
		var tpl string
		for _, p := range c11Positions {
			if p.Name == c.Pos {
				tpl = p.Tpl
			}
		}
		v := wrongByName(c.Val)
		files := Files{"c.vuego": `<i>{{ p }}</i><b :title="p">{{ p.a }}</b>`, "s.vuego": `<div><slot :item="p">fb</slot></div>`}
		if c.Pos == "root" {
			// the value itself is the root data
			ctx.Eval(2)
			_ = vuego.NewFS(files.FS()).Fill(v).RenderString(bg, &buf, `<p>{{ a }} {{ Name }} {{ name }}</p><i v-if="a">x</i>`)
			files["page.vuego"] = `<p>{{ a }} {{ Name }}</p><i v-for="it in a">{{ it }}</i>`
			_ = vuego.NewFS(files.FS()).Load("page.vuego").Fill(v).Render(bg, &buf)
			return
		}
		tpl = strings.ReplaceAll(tpl, "X", "x")
		data := map[string]any{"x": v, "f": false}
		files["page.vuego"] = tpl
		ctx.Eval(2)
		err1 := vuego.NewFS(files.FS()).Fill(data).RenderString(bg, &buf, tpl)
		err2 := vuego.NewFS(files.FS()).Load("page.vuego").Fill(data).Render(bg, &buf)
		ctx.Outcome(fmt.Sprint(err1 != nil, err2 != nil))
	case "graph":
		files := Files{"s.vuego": `<div><slot></slot></div>`}
		mk := func(edges []string) string {
			var b strings.Builder
			switch c.Wrap {
			case "bare":
			case "tmpl":
				b.WriteString("<template>")
			case "onceroot": // the file starts with a <template v-once> (styles emitted once); the includes follow it
				b.WriteString("<template v-once><style>.k{}</style></template>")
			default:
				b.WriteString("<section>x")
			}
			for _, e := range edges {
				t, mode, _ := strings.Cut(e, ":")
				inc := `<template include="` + t + `.vuego"></template>`
				switch mode {
				case "direct":
					b.WriteString(inc)
				case "vif":
					b.WriteString(`<div v-if="t">` + inc + `</div>`)
				case "vif-false":
					b.WriteString(`<div v-if="f">` + inc + `</div>`)
				case "vfor":
					b.WriteString(`<div v-for="i in two">` + inc + `</div>`)
				case "slot":
					b.WriteString(`<template include="s.vuego">` + inc + `</template>`)
				case "vslot":
					b.WriteString(`<template include="s.vuego"><template v-slot>` + inc + `</template></template>`)
				}
			}
			switch c.Wrap {
			case "bare", "onceroot":
			case "tmpl":
				b.WriteString("</template>")
			default:
				b.WriteString("</section>")
			}
			return b.String()
		}
		files["a.vuego"], files["b.vuego"], files["c.vuego"] = mk(c.A), mk(c.B), mk(c.C)
		ctx.Eval(1)
		err := vuego.NewFS(files.FS()).Load("a.vuego").Fill(map[string]any{"t": true, "f": false, "two": []int{1, 2}}).Render(bg, &buf)
		// reference: is a cycle reachable from a through edges that are actually taken?
		adj := map[string][]string{}
		for f, edges := range map[string][]string{"a": c.A, "b": c.B, "c": c.C} {
			for _, e := range edges {
				t, mode, _ := strings.Cut(e, ":")
				if mode != "vif-false" {
					adj[f] = append(adj[f], t)
				}
			}
		}
		cyc := false
		state := map[string]int{}
		var dfs func(n string)
		dfs = func(n string) {
			state[n] = 1
			for _, m := range adj[n] {
				if state[m] == 1 {
					cyc = true
				} else if state[m] == 0 {
					dfs(m)
				}
			}
			state[n] = 2
		}
		dfs("a")
		ctx.Outcome(fmt.Sprint(cyc, err != nil))
		if cyc && err == nil {
			ctx.Violation("cycle-not-reported", "include-graph", cycleClass(c), fmt.Sprintf("include cycle reachable from a.vuego but render returned nil (%d bytes)\n%s", buf.Len(), files))
		}
		if !cyc && err != nil {
			ctx.Violation("acyclic-graph-fails", "include-graph", cycleClass(c), fmt.Sprintf("no cycle but render failed: %v\n%s", err, files))
		}
	case "slots":
		comps := map[string]string{
			"default": `<div><slot>cfb</slot></div>`,
			"named":   `<div><slot name="x">cfb</slot></div>`,
			"twice":   `<div><slot></slot><slot name="x"></slot><slot></slot></div>`,
			"infor":   `<ul><li v-for="i in two"><slot :i="i">cfb</slot></li></ul>`,
		}
		contents := map[string]string{
			"slot":        `<slot></slot>`,
			"slot-fb":     `<p>x</p><slot>inner fallback</slot>`,
			"slot-named":  `<slot name="x">q</slot>`,
			"slot-in-inc": `<template include="comp.vuego"><slot></slot></template>`,
			"self-inc":    `<template include="comp.vuego"><template #x><slot name="x"></slot></template><slot></slot></template>`,
			// content whose evaluation hands back a node of its own (a <template v-html>, a kept <template>)
			"tmpl-vhtml":       `<template v-html="h"></template>`,
			"tmpl-vhtml-mixed": `<b>z</b><template v-html="h"></template><i>y</i>`,
			"tmpl-keep":        `<template v-keep><u>k</u></template>`,
			"tmpl-vars":        `<template :q="two"></template><p v-for="i in q">{{ i }}</p>`,
		}
		content := contents[c.Content]
		var supplied string
		switch c.Supply {
		case "plain":
			supplied = content
		case "vslot":
			supplied = `<template v-slot>` + content + `</template>`
		case "hash-x":
			supplied = `<template #x>` + content + `</template>`
		case "both":
			supplied = `<template #x>` + content + `</template>` + content
		}
		files := Files{"comp.vuego": comps[c.Comp], "mid.vuego": `<section><template include="comp.vuego">` + supplied + `</template></section>`}
		page := "page.vuego"
		switch c.Depth {
		case "top":
			files["page.vuego"] = `<template include="comp.vuego">` + supplied + `</template>`
		case "middle":
			files["page.vuego"] = `<template include="mid.vuego">` + supplied + `</template>`
		case "layout":
			files["page.vuego"] = "---\nlayout: l\n---\n" + supplied + `<template include="comp.vuego">` + supplied + `</template>`
			files["layouts/l.vuego"] = `<main><slot name="x">lfb</slot><slot></slot><div v-html="content"></div><template include="comp.vuego"></template></main>`
		}
		ctx.Eval(1)
		err := vuego.NewFS(files.FS()).Load(page).Fill(map[string]any{"two": []int{1, 2}, "h": "<em>hi</em>"}).Render(bg, &buf)
		ctx.Outcome(fmt.Sprint(err != nil))
	case "ctor":
		// every ordered selection of <=3 construction options, then one render of each kind
		files := Files{"page.vuego": `<p>{{ n }}</p><x-b></x-b>`, "components/XB.vuego": `<b>b</b>`, "theme.yml": "n: 1\n"}
		optByName := map[string]func() vuego.LoadOption{
			"fs":         func() vuego.LoadOption { return vuego.WithFS(files.FS()) },
			"nilfs":      func() vuego.LoadOption { return vuego.WithFS(nil) },
			"components": func() vuego.LoadOption { return vuego.WithComponents() },
			"less":       func() vuego.LoadOption { return vuego.WithLessProcessor() },
			"funcs": func() vuego.LoadOption {
				return vuego.WithFuncs(vuego.FuncMap{"f": func(s string) string { return s }})
			},
			"nilfuncs": func() vuego.LoadOption { return vuego.WithFuncs(nil) },
			"proc":     func() vuego.LoadOption { return vuego.WithProcessor(&c12Proc{failAt: -1}) },
		}
		var opts []vuego.LoadOption
		for _, n := range c.A {
			opts = append(opts, optByName[n]())
		}
		ctx.Eval(3)
		var t vuego.Template
		switch c.Pos {
		case "New":
			t = vuego.New(opts...)
		case "NewFS":
			t = vuego.NewFS(files.FS(), opts...)
		case "NewFS-nil":
			t = vuego.NewFS(nil, opts...)
		}
		_ = t.Fill(map[string]any{"n": 2}).RenderString(bg, &buf, `<i>{{ n }}</i><x-b></x-b>`)
		_ = t.Load("page.vuego").Fill(map[string]any{"n": 2}).Render(bg, &buf)
		_ = t.New().RenderFile(bg, &buf, "missing.vuego")
	case "layoutcycle":
		// layout cycles whose layouts use the content 1..3 times (the content multiplies on every
		// lap: a cycle that is only stopped by the depth limit of 100 never gets there). The file
		// system refuses a file that is opened more than 60 times during one render: the engine
		// must have found the cycle itself long before.
		uses := strings.Repeat(`<div v-html="content"></div>`, len(c.Val))
		if c.Val == "mixed" {
			uses = `<div v-html="content"></div>{{ content }}`
		}
		files := Files{}
		switch c.Pos {
		case "self": // the page names itself (a name is looked up next to the naming file first)
			files["page.vuego"] = "---\nlayout: page\n---\n<p>x</p>" + uses
		case "pair": // page -> layouts/a -> page
			files["page.vuego"] = "---\nlayout: a\n---\n<p>x</p>" + uses
			files["layouts/a.vuego"] = "---\nlayout: ../page\n---\n<section>" + uses + "</section>"
		case "layself": // a layout that names itself
			files["page.vuego"] = "---\nlayout: a\n---\n<p>x</p>"
			files["layouts/a.vuego"] = "---\nlayout: a\n---\n<section>" + uses + "</section>"
		case "laypair":
			files["page.vuego"] = "---\nlayout: a\n---\n<p>x</p>"
			files["layouts/a.vuego"] = "---\nlayout: b\n---\n<section>" + uses + "</section>"
			files["layouts/b.vuego"] = "---\nlayout: a\n---\n<article>" + uses + "</article>"
		case "asapage": // a layout with a cycle of its own rendered as the page
			files["layouts/a.vuego"] = "---\nlayout: a\n---\n<section>" + uses + "</section>"
		}
		page := "page.vuego"
		if c.Pos == "asapage" {
			page = "layouts/a.vuego"
		}
		lim := &openLimitFS{FS: files.FS(), limit: 60, opens: map[string]int{}}
		ctx.Eval(1)
		err := vuego.NewFS(lim).Load(page).Render(bg, &buf)
		ctx.Outcome(fmt.Sprint(err != nil, lim.refused))
		if lim.refused != "" {
			ctx.Violation("unbounded-work", "layoutcycle/"+c.Pos, "content-used-"+c.Val, fmt.Sprintf("%s: %s was opened more than 60 times during one render (err %v)", files, lim.refused, err))
		} else if err == nil {
			ctx.Violation("no-error", "layoutcycle/"+c.Pos, "content-used-"+c.Val, fmt.Sprintf("%s: a layout cycle rendered without error", files))
		}
	case "depth":
		// N elements nested in one another (tables of precomputed indentation, stacks of open
		// elements and recursion depth all have their limits somewhere)
		var n int
		fmt.Sscanf(c.Val, "%d", &n)
		open, close := "", ""
		for i := 0; i < n; i++ {
			switch c.Pos {
			case "div":
				open, close = open+"<div>", "</div>"+close
			case "mixed": // an inline sibling at every level
				open, close = open+"<div><i>a</i>", "</div>"+close
			case "inline":
				open, close = open+"<span>", "</span>"+close
			case "list":
				open, close = open+"<ul><li>", "</li></ul>"+close
			}
		}
		src := open + "<b>{{ name }}</b>" + close
		if c.Pos == "component" {
			// a component that includes itself n levels deep, one element per level
			src = `<template include="rec.vuego" :n="` + fmt.Sprint(n) + `"></template>`
		}
		files := Files{"page.vuego": src, "rec.vuego": `<div><template v-if="n > 0" include="rec.vuego" :n="n - 1"></template><b v-else>{{ name }}</b></div>`}
		data := map[string]any{"name": "x"}
		ctx.Eval(4)
		_ = vuego.NewFS(files.FS()).Fill(data).RenderString(bg, &buf, src)
		_ = vuego.NewFS(files.FS()).Load("page.vuego").Fill(data).Render(bg, &buf)
		_ = vuego.NewVue(files.FS()).Render(&buf, "page.vuego", data)
		_ = vuego.NewVue(files.FS()).RenderFragment(&buf, "page.vuego", data)
	case "source":
		src := c.Src
		ctx.Eval(1)
		switch c.As {
		case "string":
			_ = vuego.New().Fill(map[string]any{"a": []int{1, 2}}).RenderString(bg, &buf, src)
		case "file":
			files := Files{"page.vuego": src, "a": "x"}
			_ = vuego.NewFS(files.FS()).Load("page.vuego").Fill(map[string]any{"a": []int{1, 2}}).Render(bg, &buf)
		case "frontmatter":
			files := Files{"page.vuego": "---\n" + src + "\n---\n<p>{{ a }}</p>"}
			_ = vuego.NewFS(files.FS()).Load("page.vuego").Fill(map[string]any{"a": 1}).Render(bg, &buf)
		case "vue":
			files := Files{"page.vuego": src}
			_ = vuego.NewVue(files.FS()).Render(&buf, "page.vuego", map[string]any{"a": []int{1, 2}})
		}
	}
}

func cycleClass(c *c11Case) string {
	modes := map[string]bool{}
	for _, l := range [][]string{c.A, c.B, c.C} {
		for _, e := range l {
			_, m, _ := strings.Cut(e, ":")
			modes[m] = true
		}
	}
	var ms []string
	for _, m := range []string{"direct", "vif", "vfor", "slot", "vslot", "vif-false"} {
		if modes[m] {
			ms = append(ms, m)
		}
	}
	if c.Wrap != "" {
		return c.Wrap + ":" + strings.Join(ms, "+")
	}
	return strings.Join(ms, "+")
}

func init() {
	core.Register(&core.Check{
		ID:        "C11",
		Level:     "exploration",
		CPUBudget: 15,
		Rule: fmt.Sprintf("(1) %d directive positions (+ the value as root data) x %d Go values of every kind (scalars, NaN, nil and typed nils, maps with non-string keys, structs with unexported/embedded fields, func, chan, self-referential pointer, 1000-deep nesting), each through RenderString and Load+Render; a value of a pointer type that points to itself (type P *P) in the 18 positions that resolve it as a path; ", len(c11Positions), len(wrongValues)) +
			fmt.Sprintf("(1b) %d registered functions of every shape (fixed, variadic, context-taking, with error / comma-ok / three / no results, array, slice, map, pointer, struct, func and interface parameters, nil entries, values that are not functions) x %d call forms (call with 0..3 arguments, pipes with and without arguments, v-if, :attr, v-for) x the same values as argument; ", len(c11Funcs), len(c11CallForms)) +
			"(1d) engines constructed with every ordered selection of <=3 options out of {WithFS, WithFS(nil), WithComponents, WithLessProcessor, WithFuncs, WithFuncs(nil), WithProcessor} through New, NewFS(fs) and NewFS(nil), followed by a string render, a file render and a render of a missing file; " +
			"(1c) templates of 31 nesting depths from 1 to 600 (around 16, 32, 64, 128, 256, 512) as nested divs, divs with an inline sibling per level, spans, lists and a self-including component, through 4 entry points; " +
			"(2) all include graphs over 3 files where each file includes <=2 targets in 6 modes (direct, v-if true/false, v-for, as plain slot content, as v-slot content), the includes wrapped in an element, standing bare as the first nodes of the file, inside a <template> root, or after a <template v-once> root: must return, with an error iff a cycle is reachable; (3) every token string up to the bound over a 23-token alphabet as template source (string / file / Vue.Render) and as front-matter; (4) @import graphs behind the LESS processor - chains, cycles, files importing themselves once and twice, a missing file, diamonds - over 1..150 files called *.less and *.css: a cycle ends in an error, everything ends; (5) layout cycles of 5 shapes (the page naming itself, through a layout back to the page, a layout naming itself, two layouts, a cyclic layout rendered as the page) whose members use the content once, twice, three times: an error, and no file opened more than 60 times. " +
			"oracle: the call returns - no panic (recovered per case), no fatal error or stack overflow (64 MiB stack cap, worker subprocess), no hang (CPU budget per case). non-trivial = all",
		Bounds:      map[string]string{"quick": "graphs with <=1 edge per file in all modes plus 2 edges in {direct, vfor}; token strings of length <=3", "thorough": "graphs with <=1 edge per file in all 6 modes plus 2 edges in {direct, v-if, v-for, slot content}; token strings of length <=4"},
		Assumptions: []string{"panics raised by the body of a user-registered function are the user's: the registered functions here never panic themselves", "cyclic maps/slices (not JSON-like) are not generated"},
		Decode:      core.DecodeAs[c11Case](),
		Enumerate: func(tier string, emit func(core.Case)) {
			for _, p := range c11Positions {
				for _, w := range wrongValues {
					emit(&c11Case{Part: "types", Pos: p.Name, Val: w.Name})
				}
			}
			// a value of a pointer type that points to itself, in the positions that do not hand it to
			// the expression library (whose own pointer-following is not the engine's)
			for _, pos := range []string{"mustache", "upper", "len", "default", "json", "int", "string-title", "trim-escape", "type", "vfor", "vfor-ix", "vfor-nested", "bind", "bind-class", "bind-style", "static+bound-style", "vhtml", "root"} {
				emit(&c11Case{Part: "types", Pos: pos, Val: "selfptrtype"})
			}
			for _, shape := range []string{"chain", "cycle", "self", "missing", "diamond", "selftwice", "chain-css", "cycle-css", "self-css", "selftwice-css"} {
				for _, n := range []int{1, 2, 3, 5, 20, 99, 100, 101, 150} {
					if shape == "diamond" && n > 20 {
						continue // (the LESS library re-reads shared imports: 2^n work)
					}
					emit(&c11Case{Part: "less", Pos: shape, Val: fmt.Sprint(n)})
				}
			}
			for _, shape := range []string{"self", "pair", "layself", "laypair", "asapage"} {
				for _, uses := range []string{"1", "11", "111", "mixed"} {
					emit(&c11Case{Part: "layoutcycle", Pos: shape, Val: uses})
				}
			}
			for _, st := range c11StyleTexts {
				for b := range c11StyleBinders {
					for _, v := range []string{"string", "nil", "map", "int", "true"} {
						emit(&c11Case{Part: "style", Pos: b, Src: st, Val: v})
					}
				}
			}
			for _, w := range wrongValues {
				emit(&c11Case{Part: "api", Val: w.Name})
				emit(&c11Case{Part: "types", Pos: "root", Val: w.Name})
			}
			for _, fn := range c11FuncNames {
				for _, form := range c11CallForms {
					for _, w := range wrongValues {
						emit(&c11Case{Part: "funcs", Pos: form.Name, Src: fn, Val: w.Name})
					}
				}
			}
			ctorOpts := []string{"fs", "nilfs", "components", "less", "funcs", "nilfuncs", "proc"}
			for _, ctor := range []string{"New", "NewFS", "NewFS-nil"} {
				emit(&c11Case{Part: "ctor", Pos: ctor})
				tokenStrings(ctorOpts, 3, func(tok []int) {
					var names []string
					for _, i := range tok {
						names = append(names, ctorOpts[i])
					}
					emit(&c11Case{Part: "ctor", Pos: ctor, A: names})
				})
			}
			for _, shape := range []string{"div", "mixed", "inline", "list", "component"} {
				for _, n := range []int{1, 2, 15, 16, 17, 31, 32, 33, 50, 62, 63, 64, 65, 100, 126, 127, 128, 129, 130, 200, 254, 255, 256, 257, 258, 300, 510, 511, 512, 513, 600} {
					emit(&c11Case{Part: "depth", Pos: shape, Val: fmt.Sprint(n)})
				}
			}
			// graphs
			targets := []string{"a", "b", "c"}
			modesAll := []string{"direct", "vif", "vif-false", "vfor", "slot", "vslot"}
			modes2 := []string{"direct", "vfor"}
			if tier == "thorough" {
				modes2 = []string{"direct", "vif", "vfor", "slot"}
			}
			var opts [][]string
			opts = append(opts, nil)
			for _, t := range targets {
				for _, m := range modesAll {
					opts = append(opts, []string{t + ":" + m})
				}
			}
			for i, t1 := range targets {
				for _, t2 := range targets[i:] {
					for _, m1 := range modes2 {
						for _, m2 := range modes2 {
							opts = append(opts, []string{t1 + ":" + m1, t2 + ":" + m2})
						}
					}
				}
			}
			for _, a := range opts {
				if len(a) == 0 {
					continue
				}
				for _, b := range opts {
					for _, cc := range opts {
						emit(&c11Case{Part: "graph", A: a, B: b, C: cc})
						if len(a) == 1 && len(b) <= 1 && len(cc) <= 1 {
							emit(&c11Case{Part: "graph", A: a, B: b, C: cc, Wrap: "bare"})
							emit(&c11Case{Part: "graph", A: a, B: b, C: cc, Wrap: "tmpl"})
							emit(&c11Case{Part: "graph", A: a, B: b, C: cc, Wrap: "onceroot"})
						}
					}
				}
			}
			for _, content := range []string{"slot", "slot-fb", "slot-named", "slot-in-inc", "self-inc", "tmpl-vhtml", "tmpl-vhtml-mixed", "tmpl-keep", "tmpl-vars"} {
				for _, supply := range []string{"plain", "vslot", "hash-x", "both"} {
					for _, comp := range []string{"default", "named", "twice", "infor"} {
						for _, depth := range []string{"top", "middle", "layout"} {
							emit(&c11Case{Part: "slots", Content: content, Supply: supply, Comp: comp, Depth: depth})
						}
					}
				}
			}
			maxLen := 3
			if tier == "thorough" {
				maxLen = 4
			}
			tokenStrings(c11Tokens, maxLen, func(tok []int) {
				src := joinTokens(c11Tokens, tok)
				for _, as := range []string{"string", "file", "frontmatter", "vue"} {
					emit(&c11Case{Part: "source", Tokens: append([]int(nil), tok...), As: as, Src: src})
				}
			})
		},
	})
}
