package checks

import (
	"fmt"
	"io/fs"
	"os"
	"path/filepath"
	"regexp"
	"sort"
	"strings"

	"golang.org/x/net/html"
	"golang.org/x/net/html/atom"

	"github.com/titpetric/vuego/formatter"

	"verif/engine/core"
	"verif/engine/htmlcmp"
)

// C19: formatting is idempotent and preserves what the template means.

type c19Case struct {
	Part string `json:"part"` // corpus | gen
	Name string `json:"name"` // corpus: file path / snippet id
	Src  string `json:"src"`
}

func (c *c19Case) Key() string { return c.Part + "|" + c.Name + "|" + c.Src }

func repoDir() string {
	if d := os.Getenv("VERIF_REPO"); d != "" {
		return d
	}
	return "/repo"
}

var fenceRe = regexp.MustCompile("(?s)```html\n(.*?)```")
var mustacheRe = regexp.MustCompile(`(?s)\{\{.*?\}\}`)

func c19Corpus(emit func(name, src string)) {
	root := repoDir()
	var files []string
	filepath.WalkDir(root, func(p string, d fs.DirEntry, err error) error {
		if err != nil {
			return nil
		}
		if d.IsDir() && (d.Name() == ".git" || d.Name() == "node_modules") {
			return filepath.SkipDir
		}
		if !d.IsDir() && strings.HasSuffix(p, ".vuego") {
			files = append(files, p)
		}
		return nil
	})
	sort.Strings(files)
	for _, f := range files {
		b, err := os.ReadFile(f)
		if err == nil {
			rel, _ := filepath.Rel(root, f)
			emit(rel, string(b))
		}
	}
	docs, _ := filepath.Glob(filepath.Join(root, "docs", "*.md"))
	docs = append(docs, filepath.Join(root, "README.md"))
	sort.Strings(docs)
	for _, d := range docs {
		b, err := os.ReadFile(d)
		if err != nil {
			continue
		}
		rel, _ := filepath.Rel(root, d)
		for i, m := range fenceRe.FindAllStringSubmatch(string(b), -1) {
			emit(fmt.Sprintf("%s#%d", rel, i), m[1])
		}
	}
}

// splitFM mirrors the documented front-matter convention (--- lines).
func c19SplitFM(s string) (fm, body string) {
	if !strings.HasPrefix(s, "---") {
		return "", s
	}
	lines := strings.Split(s, "\n")
	for i := 1; i < len(lines); i++ {
		if strings.HasPrefix(lines[i], "---") {
			return strings.Join(lines[:i+1], "\n") + "\n", strings.Join(lines[i+1:], "\n")
		}
	}
	return "", s
}

type c19Tok struct {
	Kind string // open | text | pre
	Tag  string
	Val  string
}

var rawOrPre = map[string]bool{"script": true, "style": true, "pre": true, "textarea": true}

// c19Meaning projects a template body to what the property calls its meaning.
// c19TableContext: a fragment that starts with a table-scoped element (a row partial, a cell
// partial) is part of a table: the element it is parsed in. Comments and white space before the
// first tag do not count, however long they are. nil = an ordinary fragment (body).
func c19TableContext(body string) *html.Node {
	s := body
	for {
		s = strings.TrimLeft(s, " \t\n\r\f")
		if strings.HasPrefix(s, "<!--") {
			if i := strings.Index(s, "-->"); i >= 0 {
				s = s[i+3:]
				continue
			}
		}
		break
	}
	if !strings.HasPrefix(s, "<") {
		return nil
	}
	end := 1
	for end < len(s) && (s[end] >= 'a' && s[end] <= 'z' || s[end] >= 'A' && s[end] <= 'Z' || s[end] >= '0' && s[end] <= '9') {
		end++
	}
	switch strings.ToLower(s[1:end]) {
	case "td", "th":
		return &html.Node{Type: html.ElementNode, Data: "tr", DataAtom: atom.Tr}
	case "tr":
		return &html.Node{Type: html.ElementNode, Data: "tbody", DataAtom: atom.Tbody}
	case "thead", "tbody", "tfoot", "caption", "colgroup":
		return &html.Node{Type: html.ElementNode, Data: "table", DataAtom: atom.Table}
	case "col":
		return &html.Node{Type: html.ElementNode, Data: "colgroup", DataAtom: atom.Colgroup}
	}
	return nil
}

func c19Meaning(body string) (toks []string, must []string, doctype string) {
	nodes := htmlcmp.Parse(body)
	if strings.Contains(strings.ToLower(body), "</html>") {
		nodes = htmlcmp.ParseDocument(body) // tag names are case-insensitive: <HTML> ... </HTML> is a document
	} else if in := c19TableContext(body); in != nil {
		if ns, err := html.ParseFragment(strings.NewReader(body), in); err == nil {
			nodes = ns
		}
	}
	var text strings.Builder
	flush := func() {
		t := strings.Join(strings.FieldsFunc(text.String(), htmlcmp.IsHTMLSpace), "")
		if t != "" {
			toks = append(toks, "T:"+t)
		}
		text.Reset()
	}
	var walk func(n *html.Node, verbatim bool)
	walk = func(n *html.Node, verbatim bool) {
		switch n.Type {
		case html.TextNode:
			if verbatim {
				flush()
				toks = append(toks, "V:"+strings.TrimSpace(n.Data))
			} else {
				text.WriteString(n.Data)
			}
		case html.ElementNode:
			flush()
			var attrs []string
			for _, a := range n.Attr {
				key := a.Key
				if a.Namespace != "" {
					key = a.Namespace + ":" + key // xlink:href and href are different attributes
				}
				attrs = append(attrs, key+"="+strings.Join(strings.FieldsFunc(a.Val, htmlcmp.IsHTMLSpace), " "))
			}
			sort.Strings(attrs)
			toks = append(toks, "<"+n.Data+" "+strings.Join(attrs, "|")+">")
			for c := n.FirstChild; c != nil; c = c.NextSibling {
				walk(c, verbatim || rawOrPre[n.Data])
			}
			flush()
			toks = append(toks, "</"+n.Data+">")
		case html.DoctypeNode:
			doctype = strings.ToLower(n.Data)
		case html.DocumentNode:
			for c := n.FirstChild; c != nil; c = c.NextSibling {
				walk(c, verbatim)
			}
		}
	}
	for _, n := range nodes {
		walk(n, false)
	}
	flush()
	// mustache expressions as the parser sees them: in text nodes and attribute values
	var collect func(n *html.Node)
	collect = func(n *html.Node) {
		if n.Type == html.TextNode {
			for _, m := range mustacheRe.FindAllString(n.Data, -1) {
				must = append(must, c19NormMustache(m))
			}
		}
		for _, a := range n.Attr {
			for _, m := range mustacheRe.FindAllString(a.Val, -1) {
				// (the property allows whitespace inside attribute values to be collapsed)
				must = append(must, c19NormMustache(strings.Join(strings.FieldsFunc(m, htmlcmp.IsHTMLSpace), " ")))
			}
		}
		for c := n.FirstChild; c != nil; c = c.NextSibling {
			collect(c)
		}
	}
	for _, n := range nodes {
		collect(n)
	}
	sort.Strings(must)
	return
}

// c19NormMustache removes whitespace outside string literals; inside them every character counts.
func c19NormMustache(m string) string {
	var b strings.Builder
	quote := byte(0)
	for i := 0; i < len(m); i++ {
		ch := m[i]
		switch {
		case quote != 0:
			b.WriteByte(ch)
			if ch == quote {
				quote = 0
			}
		case ch == '"' || ch == '\'':
			quote = ch
			b.WriteByte(ch)
		case ch == ' ' || ch == '\t' || ch == '\n' || ch == '\r' || ch == '\f':
		default:
			b.WriteByte(ch)
		}
	}
	return b.String()
}

func c19FirstDiff(a, b []string) string {
	n := len(a)
	if len(b) < n {
		n = len(b)
	}
	for i := 0; i < n; i++ {
		if a[i] != b[i] {
			return fmt.Sprintf("#%d formatted %q vs source %q", i, a[i], b[i])
		}
	}
	if len(a) != len(b) {
		return fmt.Sprintf("length %d vs %d", len(a), len(b))
	}
	return ""
}

func c19DiffClass(a, b []string) string {
	n := len(a)
	if len(b) < n {
		n = len(b)
	}
	for i := 0; i < n; i++ {
		if a[i] != b[i] {
			ka, kb := a[i][:1], b[i][:1]
			switch {
			case ka == "<" && kb == "<" && !strings.HasPrefix(a[i], "</") && !strings.HasPrefix(b[i], "</"):
				ta, tb := strings.Fields(a[i][1:])[0], strings.Fields(b[i][1:])[0]
				if strings.TrimSuffix(ta, ">") == strings.TrimSuffix(tb, ">") {
					return "attributes:" + attrValueClass(a[i], b[i])
				}
				return "structure"
			case ka == "T" && kb == "T":
				return "text"
			case ka == "V" || kb == "V":
				return "verbatim-content"
			}
			return "structure"
		}
	}
	return "structure"
}

var entityLikeRe = regexp.MustCompile(`&(#[0-9]+|#x[0-9a-fA-F]+|[a-zA-Z][a-zA-Z0-9]*);`)

// attrValueClass classifies the source value of the first attribute that differs.
func attrValueClass(formatted, source string) string {
	parse := func(t string) map[string]string {
		m := map[string]string{}
		t = strings.TrimSuffix(t, ">")
		if i := strings.Index(t, " "); i >= 0 {
			for _, kv := range strings.Split(t[i+1:], "|") {
				k, v, _ := strings.Cut(kv, "=")
				m[k] = v
			}
		}
		return m
	}
	fa, sa := parse(formatted), parse(source)
	var keys []string
	for k := range sa {
		keys = append(keys, k)
	}
	sort.Strings(keys)
	for _, k := range keys {
		v := sa[k]
		if fv, ok := fa[k]; ok && fv == v {
			continue
		}
		switch {
		case strings.Contains(v, `"`):
			return "value-with-double-quote"
		case entityLikeRe.MatchString(v):
			return "value-with-entity-text"
		case strings.Contains(v, "&"):
			return "value-with-ampersand"
		case strings.Contains(v, "<") || strings.Contains(v, ">"):
			return "value-with-angle"
		case v == "":
			return "empty-value"
		}
		return "other-value"
	}
	return "attribute-set"
}

func srcClass(src string) string {
	var cl []string
	if strings.Contains(src, `"`) && strings.Contains(src, `'`) {
		cl = append(cl, "both-quotes")
	}
	if strings.Contains(src, "&amp;") || strings.Contains(src, "&lt;") || strings.Contains(src, "&quot;") {
		cl = append(cl, "entities")
	}
	if strings.Contains(src, "{{") {
		cl = append(cl, "mustache")
	}
	if strings.Contains(src, "<pre") {
		cl = append(cl, "pre")
	}
	for _, t := range []string{"<noscript", "<iframe", "<xmp", "<noembed", "<noframes"} {
		if strings.Contains(src, t) {
			cl = append(cl, "rawtext:"+t[1:])
		}
	}
	if strings.Contains(src, "<svg") || strings.Contains(src, "<math") {
		cl = append(cl, "foreign")
	}
	if strings.Contains(src, "&nbsp;") || strings.Contains(src, "\u00a0") {
		cl = append(cl, "nbsp")
	}
	if i := strings.Index(strings.ToLower(src), "<!doctype"); i > 0 {
		cl = append(cl, "doctype-not-first")
	}
	if strings.Contains(src, "{{ '") || strings.Contains(src, "{{ s == \"") || strings.Contains(src, "{{ \"") {
		cl = append(cl, "mustache-string-literal")
	}
	if len(cl) == 0 {
		return "plain"
	}
	return strings.Join(cl, "+")
}

func (c *c19Case) Run(ctx *core.Ctx) {
	fm, body := c19SplitFM(c.Src)
	// parser-stability filter (same as C02): the HTML5 parser's own serialisation must re-parse
	// to the same tree, otherwise a difference is not the formatter's
	if lb := strings.ToLower(strings.TrimSpace(body)); strings.HasPrefix(lb, "<td") || strings.HasPrefix(lb, "<th") || strings.HasPrefix(lb, "<tr") || strings.HasPrefix(lb, "<tbody") || strings.HasPrefix(lb, "<thead") || strings.HasPrefix(lb, "<tfoot") || strings.HasPrefix(lb, "<caption") || strings.HasPrefix(lb, "<col") {
		// what a table-scoped fragment means depends on the context it is parsed in
		ctx.Zone("table-scoped-fragment")
		return
	}
	if !c02Stable(body) {
		ctx.Zone("not-parser-stable")
		return
	}
	ctx.NonTrivial()
	ctx.Eval(2)
	f1, err := formatter.FormatString(c.Src)
	where := c.Part
	if c.Part == "corpus" {
		where = "corpus:" + c.Name
	}
	if err != nil {
		ctx.Violation("format-error", where, srcClass(c.Src), fmt.Sprintf("%s: %v", c.Name, err))
		return
	}
	f2, err := formatter.FormatString(f1)
	if err != nil {
		ctx.Violation("format-error", where, srcClass(c.Src), fmt.Sprintf("%s: second pass: %v", c.Name, err))
		return
	}
	ctx.Outcome(f1)
	if f2 != f1 {
		ctx.Violation("not-idempotent", where, srcClass(c.Src), fmt.Sprintf("%s\nsource  %q\nonce    %q\ntwice   %q", c.Name, clip(c.Src, 400), clip(f1, 400), clip(f2, 400)))
	}
	ffm, fbody := c19SplitFM(f1)
	if ffm != fm {
		ctx.Violation("front-matter-changed", where, srcClass(c.Src), fmt.Sprintf("%s: front-matter %q -> %q", c.Name, fm, ffm))
	}
	st, sm, sd := c19Meaning(body)
	ft, fmu, fd := c19Meaning(fbody)
	if sd != fd {
		ctx.Violation("doctype-changed", where, srcClass(c.Src), fmt.Sprintf("%s: doctype %q -> %q", c.Name, sd, fd))
	}
	if strings.Join(st, "\x00") != strings.Join(ft, "\x00") {
		ctx.Violation("meaning-changed", where+"/"+c19DiffClass(ft, st), "-", fmt.Sprintf("%s: %s\nsource    %q\nformatted %q", c.Name, c19FirstDiff(ft, st), clip(c.Src, 400), clip(f1, 400)))
	} else if strings.Join(sm, "\x00") != strings.Join(fmu, "\x00") {
		ctx.Violation("mustache-changed", where, srcClass(c.Src), fmt.Sprintf("%s: mustaches %q -> %q", c.Name, sm, fmu))
	}
}

var (
	c19AttrVals = []string{`"a"`, `"a b"`, `'say "hi"'`, `"it's"`, `"a &amp; b"`, `"a &lt; b"`, `"x < y && z"`, "\"multi\nline\"", `""`, `"{{ a < b }}"`, `'{"k": "v"}'`, `"&amp;lt;"`, `" padded "`, `"&amp;#39;x"`, `"&amp;#x27;"`, `"a&amp;b=c&amp;d_e"`, `"&amp;&amp;amp;"`, `"&#38;copy;"`}
	c19Texts    = []string{"t", "&amp;#39;", "a &amp; b", "{{ a < b && c > d }}", "x {{ y }} z", "&lt;b&gt;", "two  spaces", "a {{ '<' }} b", "&amp;amp;", "{{ a }} &lt;b&gt; {{ c }}", "{{ a }}&lt;/p&gt;{{ c }} &amp;amp; {{ d }}", "{{ a }} &amp;amp;lt; {{ c }}"}
)

func c19Generate(tier string, emit func(src string)) {
	blocks := []string{"div", "p", "ul", "section", "h1"}
	inlines := []string{"span", "a", "b", "code", "button"}
	all := append(append([]string{}, blocks...), inlines...)
	all = append(all, "td", "li", "pre", "textarea", "script", "style", "template", "slot")
	// single element x attribute value x text
	for _, tag := range all {
		for _, av := range c19AttrVals {
			for _, tx := range c19Texts {
				emit(fmt.Sprintf("<%s title=%s>%s</%s>", tag, av, tx, tag))
			}
			emit(fmt.Sprintf("<%s :class=%s v-if=%s></%s>", tag, av, av, tag))
		}
	}
	// void elements
	for _, tag := range []string{"br", "img", "input", "hr", "meta"} {
		for _, av := range c19AttrVals {
			emit(fmt.Sprintf("<div><%s alt=%s>text</div>", tag, av))
		}
	}
	// nesting: parent > child (+ sibling), with text placements
	for _, p := range all {
		for _, ch := range all {
			for _, tx := range c19Texts[:5] {
				emit(fmt.Sprintf("<%s>%s<%s>%s</%s>%s</%s>", p, tx, ch, tx, ch, tx, p))
				emit(fmt.Sprintf("<%s><%s>%s</%s> <%s>k</%s></%s>", p, ch, tx, ch, ch, ch, p))
				if tier == "thorough" {
					for _, g := range all {
						emit(fmt.Sprintf("<%s><%s>%s<%s>g</%s></%s>tail</%s>", p, ch, tx, g, g, ch, p))
					}
				}
			}
		}
	}
	// pre and raw text whitespace
	for _, body := range []string{"  two\n    lines  ", "<b> x </b>\n  y", "a &lt; b", "{{ v }}\n\n", "\n\nlead", "<!-- c -->k"} {
		emit("<pre>" + body + "</pre>")
		emit("<div><pre class=\"c\">" + body + "</pre></div>")
	}
	// pre / textarea content as a grammar: newlines and spaces at every position, also at the
	// start of nested elements
	preTok := []string{"\n", "  ", "x", "<b>y</b>", "{{ v }}"}
	maxPre := 3
	if tier == "thorough" {
		maxPre = 5
	}
	tokenStrings(preTok, maxPre, func(tok []int) {
		body := joinTokens(preTok, tok)
		emit("<pre>" + body + "</pre>")
		emit("<pre><code>" + body + "</code></pre>")
		emit("<div>\n  <pre><span><i>" + body + "</i></span>\n</pre>\n</div>")
		if !strings.Contains(body, "<b>") {
			emit("<textarea>" + body + "</textarea>")
			emit("<p><textarea name=\"t\">" + body + "</textarea></p>")
		}
	})
	for _, body := range []string{"var a = 1 < 2 && b;", "\n  if (x) {\n    y();\n  }\n", "/* {{ m }} */", ".a > .b { color: red }"} {
		emit("<script>" + body + "</script>")
		emit("<style>" + body + "</style>")
		emit("<div><script type=\"x\">" + body + "</script></div>")
	}
	// other raw-text elements, prologues before fragments and documents, foreign content,
	// mustache expressions with string literals and entities, non-breaking spaces
	for _, src := range []string{
		`<noscript><img src="x"></noscript>`, `<div><noscript><p>a &amp; b</p></noscript></div>`, `<iframe><b>x</b></iframe>`, `<xmp><b>x</b> &amp;</xmp>`, `<noembed><i>y</i></noembed>`,
		"<!-- row -->\n<tr><td>x</td></tr>", "<!-- c --><td>x</td>", "<tr\r\n  v-for=\"r in rows\"><td>x</td></tr>", "<tr\tclass=\"a\"><td>x</td></tr>",
		"<!-- x -->\n<!DOCTYPE html>\n<html><body><p>a</p></body></html>", "\n<!DOCTYPE html><html><head></head><body><p>a</p></body></html>",
		`<svg><use xlink:href="#a"></use></svg>`, `<svg viewBox="0 0 1 1"><path d="M0 0"/></svg>`,
		// every prefixed attribute the parser knows in foreign content, and some it does not
		`<div><svg xmlns="http://www.w3.org/2000/svg" xmlns:xlink="http://www.w3.org/1999/xlink" viewBox="0 0 1 1"><use xlink:href="#a" xml:space="preserve" xlink:title="t" xlink:show="new" xlink:actuate="x" xlink:arcrole="r" xlink:role="o" xlink:type="simple" xml:lang="en" xml:base="/b"></use></svg></div>`,
		`<math xmlns:xlink="http://www.w3.org/1999/xlink" xmlns:foo="urn:x" foo:bar="1"><mi xlink:href="#m" xml:lang="de">x</mi></math>`, `<p xmlns:xlink="x" xlink:href="y" xml:lang="en">html element</p>`, `<svg><style>.a &gt; .b{}</style></svg>`, `<math><mi>x</mi></math>`,
		`<p>{{ 'a  b' }}</p>`, `<p>{{ s == "x  y" ? 1 : 2 }}</p>`, `<p>{{ "don't   stop" }}</p>`, `<td>{{ '6"   nail' }}</td>`, `<span>{{ 'say "hi"   now' }} and {{ "it's   ok" }}</span>`, "<p>{{ 'a\n  b' }}</p>", `<p title="{{ 'a  b' }}">t</p>`, `<p>{{ a &amp;lt; b }}</p>`, `<p>{{ a &lt; b }}</p>`,
		`<p>a&nbsp;</p>`, `<p>&nbsp;a</p>`, `<p title="&nbsp;x&nbsp;">t</p>`, `<p>a&nbsp;&nbsp;b</p>`, `<b>x</b>&nbsp;<i>y</i>`,
		`<html-view>x</html-view>`, `<htmlx a="b">k</htmlx><p>y</p>`,
		`<script>var s = "</html>";</script>`, `<p>a</p><script>var s = "</html>";</script>`,
		`<svg><style>a&lt;b c</style></svg>`, `<math><mi>x</mi><annotation-xml><script>a&lt;b</script></annotation-xml></math>`, `<svg><title>a&lt;b</title><desc>&amp;lt;</desc></svg>`,
		"\u00a0<html><body><p>x</p></body></html>", "\u00a0<!DOCTYPE html><html><body><p>x</p></body></html>",
		`<!-- c --><!DOCTYPE html PUBLIC "-//W3C//DTD HTML 4.01//EN" "http://www.w3.org/TR/html4/strict.dtd"><html><body><p>a</p></body></html>`, `<!-- c --><!DOCTYPE html SYSTEM "about:legacy-compat"><html><body><p>a</p></body></html>`,
		`<!DOCTYPE html PUBLIC "-//W3C//DTD HTML 4.01//EN" "http://www.w3.org/TR/html4/strict.dtd"><html><body><p>a</p></body></html>`,
		"---\r\ntitle: x\r\nlist:\r\n  - a\r\n---\r\n<p>a</p>\r\n", "---\r\ntitle: x\r\n---\r\n<!DOCTYPE html>\r\n<html>\r\n<body>\r\n<p>a</p>\r\n</body>\r\n</html>\r\n",
		"<!DOCTYPE html PUBLIC \"-//W3C//DTD XHTML 1.0 Strict//EN\"\r\n  \"http://www.w3.org/TR/xhtml1/DTD/xhtml1-strict.dtd\">\r\n<html><body><p>a</p></body></html>", "<div>\r\n  <p>crlf text\r\n  more</p>\r\n</div>\r\n", "<pre>a\r\nb</pre>",
		// raw-text elements (their content is not markup and has no character references) in every kind of parent
		`<p>Map: <iframe src="/map">No frames &amp; no <b>map</b> here</iframe></p>`, `<span>x <iframe>a &lt; b</iframe></span>`, `<td><iframe>&amp;amp;</iframe> t</td>`, `<div><iframe>a<b>c</b> &amp;</iframe></div>`,
		`<p>n <noscript>&lt;img src=x&gt; &amp;</noscript> m</p>`, `<h2>t <xmp>a<b>&amp;</xmp></h2>`, `<label>l <noembed>&lt;p&gt;</noembed></label>`, `<a href="#">k<script>if (a < b && c) {}</script></a>`, `<li>i <style>a > b { content: "&amp;" }</style></li>`,
		// names that are void in HTML only, table fragments behind several comments or with CR / FF after the tag name, textarea inside pre, upper-case documents
		`<svg><link>x</link><source>y</source></svg>`, `<p>a <svg><param>k</param></svg> b</p>`, `<math><mi>a</mi><embed>e</embed></math>`, `<svg><a><link>in</link></a></svg>`,
		"<!-- a --><!-- b -->\n<tr><td>x</td></tr>", "<!-- a -->\n<!-- b --><td>x</td>", "<td\r\n  class=\"a\">x</td>", "<tr\r><td>x</td></tr>", "<tr\f class=\"a\"><td>x</td></tr>", "<tr/><td>x</td>", "<!-- c --><tbody><tr><td>x</td></tr></tbody>",
		"<pre><textarea>\n\nx</textarea></pre>", "<pre>a <textarea>\n\ny</textarea> b</pre>", "<pre><pre>\n\nz</pre></pre>",
		"<HTML><BODY><P>a</P></BODY></HTML>", "<Html lang=\"en\"><Head><Title>t</Title></Head><Body><p>x</p></Body></Html>",
		// preformatted and raw-text elements two levels below an element that is laid out on one line
		"<p><label>Bio <textarea>\nline 1\n  line 2\nline 3</textarea></label></p>", "<span><a href=\"#\"><pre>a\n  b\n\tc</pre></a></span>", "<span><span><script>if (a < b && c) {}</script></span></span>",
		"<table><tr><td><a href=\"/x\"><pre>x\n y</pre></a></td></tr></table>", "<h2><em><style>a > b { content: \"&\" }</style></em></h2>", "<button><b><textarea>  two\n  lines</textarea></b></button>", "<p><i><b><pre>deep\n  er</pre></b></i></p>",
		"<label><span><textarea>{{ a }}\n  {{ b }}</textarea></span> l</label>",
		// attribute values spelled like the attribute's name (in any case), "true", "false", a lone space
		`<form><label for="for">l</label><input name="name" value="value" checked="checked" disabled="DISABLED"></form>`, `<div class="Class"><slot name="name">fb</slot></div>`, `<select><option selected="selected" value="Value">o</option></select>`,
		`<p hidden="hidden" title="Title" id="ID" lang="lang">x</p>`, `<input required="true" readonly="false" type="type">`, `<template include="include" :name="name" v-if="v-if"></template>`,
		// attribute values that need collapsing and hold spaces that are not HTML white space
		"<p title=\"Distance:\n    10&nbsp;km\">x</p>", "<p :class=\"{ 'a\u3000b':\n  on }\">x</p>", "<p title=\"a  b\u2003c\">x</p>", "<p title=\"\u00a0 a\t b \u00a0\">x</p>", "<p title=\"a\u0085\n b\">x</p>", "<p data-x=\"\u2028x\n\ny\u2029\">x</p>",
		"<a href=\"/p?a=1&amp;b=2\n\" title=\"&nbsp;\n&nbsp;\">x</a>", "<input value=\"a\u00a0\u00a0b  c\">",
		`<p>{{ a &amp;lt b }}</p>`, `<p>{{ a &amp;amp b }} &amp;amp c</p>`, `<p>{{ a &amp;&amp; b &amp;y }}</p>`,
	} {
		emit(src)
	}
	// what a fragment is a part of is decided by its first tag, however much comes before it:
	// comments (a licence header) and white space of lengths around the usual buffer sizes
	for _, frag := range []string{"<tr><td>x</td></tr>", "<td>x</td><td>y</td>", "<th scope=\"col\">h</th>", "<tbody><tr><td>x</td></tr></tbody>", "<thead><tr><th>h</th></tr></thead>", "<tfoot><tr><td>f</td></tr></tfoot>", "<caption>c</caption>", "<colgroup><col span=\"2\"></colgroup>", "<col span=\"2\">"} {
		for _, n := range []int{8, 31, 32, 33, 50, 63, 64, 65, 100, 127, 128, 129, 255, 256, 257, 511, 512, 513, 1023, 1024, 1025, 4095, 4096, 4097, 9000} {
			emit("<!-- " + strings.Repeat("c", n) + " -->\n" + frag)
			emit(strings.Repeat(" ", n) + "\n" + frag)
			emit("<!-- a -->" + strings.Repeat("\n", n) + "<!-- b -->" + frag)
		}
	}
	// ... also when that first tag is written self-closing, with the slash right after the name
	for _, src := range []string{`<col/><col span="2"/>`, "<td/>\n<td>{{ a }}</td>", `<tr/><tr><td>x</td></tr>`, `<th/><th scope="col">h</th>`, `<tbody/><tbody><tr><td>x</td></tr></tbody>`, `<caption/><caption>c</caption>`, `<colgroup/><colgroup><col></colgroup>`, `<thead/><thead><tr><th>h</th></tr></thead>`, "<!-- c --><td/><td>y</td>", `<tfoot/><tfoot><tr><td>f</td></tr></tfoot>`} {
		emit(src)
	}
	// front-matter and documents
	fms := []string{"", "---\ntitle: x\n---\n", "---\nlayout: base\nitems:\n  - a\n  - b\n---\n", "---\n---\n", "---\ntitle: \"a: b\"\n---\n\n"}
	docs := []string{"<p>{{ title }}</p>", "<div class=\"a\">\n  <span>x</span>\n</div>\n", "<!DOCTYPE html>\n<html>\n<head>\n<title>T</title>\n</head>\n<body>\n<p>x</p>\n</body>\n</html>\n",
		"<!doctype html><html lang=\"en\"><head><meta charset=\"utf-8\"></head><body><div v-html=\"content\"></div></body></html>", "<html><body><p>no doctype</p></body></html>"}
	for _, fm := range fms {
		for _, d := range docs {
			emit(fm + d)
		}
	}
}

func init() {
	core.Register(&core.Check{
		ID:    "C19",
		Level: "exploration",
		Rule: "corpus part (finite, complete): every .vuego file under the repository and every ```html fence of docs/*.md and README.md; generated part: one element of 18 kinds x 13 attribute values (quotes, entities, operators, newlines, mustaches, JSON) x 8 texts; all parent/child pairs x text placements; pre / script / style whitespace; pre and textarea content from a grammar (every string of <=3 tokens over {newline, spaces, text, element, mustache}, bare and inside nested elements); front-matter x documents. " +
			"oracle: Format(Format(x)) == Format(x); Format(x) parses to the same elements, attribute names and whitespace-collapsed values, the same non-whitespace text, the same mustache expressions, identical front-matter, doctype and pre/raw-text content. non-trivial = parser-stable input",
		Bounds:      map[string]string{"quick": "corpus + generated fragments of depth <=2", "thorough": "corpus + generated fragments of depth <=3"},
		Assumptions: []string{"golang.org/x/net/html in body-fragment mode (document mode when the source contains </html>; inside tr / tbody / table / colgroup when the first tag - after any comments and white space - is a table-scoped element) defines what a template means", "inputs that are not parser-stable are skipped and counted"},
		Decode:      core.DecodeAs[c19Case](),
		Enumerate: func(tier string, emit func(core.Case)) {
			c19Corpus(func(name, src string) { emit(&c19Case{Part: "corpus", Name: name, Src: src}) })
			c19Generate(tier, func(src string) { emit(&c19Case{Part: "gen", Src: src}) })
		},
	})
}
