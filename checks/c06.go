package checks

import (
	"fmt"
	"strings"

	"golang.org/x/net/html"

	"github.com/titpetric/vuego"

	"verif/engine/core"
	"verif/engine/htmlcmp"
)

// C06: slots receive the matching content, fall back otherwise, and stay per-instance.

type c06Case struct {
	Part string `json:"part"` // k1 | scoped | twice | nested | layout
	Hdr  string `json:"hdr,omitempty"`
	Def  string `json:"def,omitempty"`
	Ftr  string `json:"ftr,omitempty"`
	Kind string `json:"kind,omitempty"` // content kind: static | dyn | attr | text
	Inst string `json:"inst,omitempty"` // one | two-empty | two-other
	// scoped
	Comp string `json:"comp,omitempty"` // K2 | K2same | K3 | K5
	Form string `json:"form,omitempty"` // var | destructure | fallback | plain
	// twice / nested / layout
	Var string `json:"var,omitempty"`
	// After: a render made before the case's own render, on another engine (process-wide state)
	After string `json:"after,omitempty"`
}

// c06Polluters: pages rendered before a case. They hand slot content of every slot name the
// cases use to components and layouts in every way the engine knows, including slots a page
// passes on to its layout and to components the layout includes.
var c06Polluters = map[string]Files{
	"layout-passes-slots-to-component": {
		"page.vuego":      "---\nlayout: l\n---\n<template #header>POLLUTED-H</template><template #footer>POLLUTED-F</template><template #inner>POLLUTED-I</template><template #x>POLLUTED-X</template><template #side>POLLUTED-S</template><template #row>POLLUTED-R</template><template v-slot>POLLUTED-D</template><p>body</p>",
		"layouts/l.vuego": "<body><template include=\"c.vuego\"></template>\n<template include=\"c.vuego\">\n</template><aside><slot name=\"side\">LFB</slot></aside><main v-html=\"content\"></main></body>",
		"c.vuego":         `<div><slot name="header">h</slot><slot>d</slot><slot name="footer">f</slot><slot name="inner">i</slot><slot name="x">x</slot><slot name="row">r</slot></div>`,
	},
	"component-with-all-slots": {
		"page.vuego": `<template include="c.vuego"><template #header>POLLUTED-H</template><template #footer>POLLUTED-F</template><template #inner>POLLUTED-I</template><template #x>POLLUTED-X</template><template #row="sp">POLLUTED-R{{ sp.item }}</template>POLLUTED-D</template><template include="c.vuego"></template>`,
		"c.vuego":    `<div><slot name="header">h</slot><slot>d</slot><slot name="footer">f</slot><slot name="inner">i</slot><slot name="x">x</slot><ul><li v-for="q in two"><slot name="row" :item="q">r</slot></li></ul></div>`,
	},
}

var c06PolluterNames = []string{"layout-passes-slots-to-component", "component-with-all-slots"}

func (c *c06Case) Key() string { return core.KeyOf(c) }

func (c *c06Case) CrashWhere() string { return c.Part + "/" + c.Var + c.Form }

func c06Content(kind, tag string) (src, text, title string) {
	switch kind {
	case "static":
		return "<b>S" + tag + "</b>", "S" + tag, ""
	case "dyn":
		return "<b>{{ v }}" + tag + "</b>", "IV" + tag, ""
	case "attr":
		return `<b :title="v">A` + tag + "</b>", "A" + tag, "IV"
	case "text":
		return "T{{ v }}" + tag, "TIV" + tag, ""
	case "two":
		return "<b>{{ v }}" + tag + "</b><i>2" + tag + "</i>", "IV" + tag + "2" + tag, ""
	}
	panic(kind)
}

const c06K1 = `<div class="c"><header><slot name="header">FBH</slot></header><main><slot>FBD</slot></main><footer><slot name="footer"></slot></footer></div>`

func c06Supply(slot, form, kind, tag string) (src, text, title string) {
	csrc, ctext, ctitle := c06Content(kind, tag)
	switch form {
	case "none":
		return "", "", ""
	case "plain":
		return csrc, ctext, ctitle
	case "vslot":
		if slot == "default" {
			return "<template v-slot>" + csrc + "</template>", ctext, ctitle
		}
		return "<template v-slot:" + slot + ">" + csrc + "</template>", ctext, ctitle
	case "vslotdefault":
		return "<template v-slot:default>" + csrc + "</template>", ctext, ctitle
	case "hash":
		return "<template #" + slot + ">" + csrc + "</template>", ctext, ctitle
	}
	panic(form)
}

type c06Want struct {
	sel   string // tag name of the container inside instance
	text  string
	title string
}

func texts(nodes []*html.Node, tag string) []string {
	var out []string
	for _, n := range htmlcmp.Find(nodes, func(n *html.Node) bool { return n.Data == tag }) {
		out = append(out, htmlcmp.NormText(htmlcmp.Text(n)))
	}
	return out
}

func (c *c06Case) Run(ctx *core.Ctx) {
	ctx.NonTrivial()
	data := map[string]any{"v": "IV", "items": []string{"x0", "x1"}, "pv": "PV", "n7": 7, "sparse": []map[string]any{{"name": "A", "badge": "new"}, {"name": "B"}, {"name": "C", "badge": "sale"}, {"name": "D", "badge": nil}}}
	var files Files
	var checks []func(nodes []*html.Node) (string, string) // returns (where, detail) on failure
	expectText := func(tag string, want []string, where string) {
		checks = append(checks, func(nodes []*html.Node) (string, string) {
			got := texts(nodes, tag)
			// whitespace between spliced nodes is insignificant
			nows := func(l []string) string { return strings.Join(strings.Fields(strings.Join(l, "|")), "") }
			if nows(got) != nows(want) {
				return where, fmt.Sprintf("<%s> texts %q want %q", tag, got, want)
			}
			return "", ""
		})
	}
	trig := ""
	withComponents := false
	switch c.Part {
	case "wide":
		// a component with many named slots: the includer fills those the pattern selects
		var n int
		fmt.Sscanf(c.Var, "%d", &n)
		var slots, supplied, want []string
		for i := 0; i < n; i++ {
			name := fmt.Sprintf("s%c", 'a'+i)
			slots = append(slots, fmt.Sprintf(`<u><slot name="%s">FB%d</slot></u>`, name, i))
			fill := i%2 == 0
			if c.Form == "odd" {
				fill = i%2 == 1
			}
			if c.Form == "all" {
				fill = true
			}
			if fill {
				form := `#` + name
				if i%3 == 1 {
					form = `v-slot:` + name
				}
				supplied = append(supplied, fmt.Sprintf(`<template %s><b>{{ v }}%d</b></template>`, form, i))
				want = append(want, fmt.Sprintf("IV%d", i))
			} else {
				want = append(want, fmt.Sprintf("FB%d", i))
			}
		}
		files = Files{
			"page.vuego": `<section><template include="c.vuego">` + strings.Join(supplied, "\n") + `</template></section>`,
			"c.vuego":    `<div class="c">` + strings.Join(slots, "") + `</div>`,
		}
		expectText("u", want, "wide")
		trig = c.Form
	case "ws":
		// whitespace inside supplied content is content (it separates inline elements, and <pre>
		// shows it); a non-breaking space is content, not "nothing supplied"
		content := map[string]string{
			"inline-space":   "<b>a</b> <i>b</i>",
			"inline-newline": "<b>a</b>\n<i>b</i>",
			"text-space":     "x <b>a</b> y",
			"nbsp":           "&nbsp;",
			"nbsp-between":   "<b>a</b>&nbsp;<i>b</i>",
			"padded":         "\n  <b>a</b> <i>b</i>\n",
			"blank":          " \n ",
			// a comment is not content: alone it supplies nothing, beside a slot template it changes nothing
			"comment": "<b>a</b>",
		}[c.Kind]
		wantText := map[string]string{"inline-space": "a b", "inline-newline": "a\nb", "text-space": "x a y", "nbsp": "\u00a0", "nbsp-between": "a\u00a0b", "padded": "a b", "blank": "FB", "comment": "a"}[c.Kind]
		supplied := content
		switch c.Form {
		case "vslot":
			supplied = "<template v-slot>" + content + "</template>"
		case "named":
			supplied = "<template #body>" + content + "</template>"
		}
		if c.Kind == "comment" {
			if c.Form == "plain" {
				supplied, wantText = "\n  <!-- nothing here yet -->\n", "FB"
			} else {
				supplied = "<!-- before -->\n" + supplied + "\n<!-- after -->"
			}
		}
		slot := "<slot>FB</slot>"
		if c.Form == "named" {
			slot = `<slot name="body">FB</slot>`
		}
		files = Files{
			"page.vuego": `<section><template include="c.vuego">` + supplied + `</template></section>`,
			"c.vuego":    `<pre class="w">` + slot + `</pre>`,
		}
		if c.Kind == "comment" && c.Form == "named" {
			// the default slot, for which only comments were written, shows its fallback
			files["c.vuego"] += `<u><slot>DFB</slot></u>`
			expectText("u", []string{"DFB"}, "comment-beside-named-template")
		}
		checks = append(checks, func(nodes []*html.Node) (string, string) {
			pre := htmlcmp.Find(nodes, func(n *html.Node) bool { return n.Data == "pre" })
			if len(pre) != 1 {
				return "ws", "no <pre>"
			}
			got := strings.Trim(htmlcmp.Text(pre[0]), " \t\n\r\f")
			if c.Form != "plain" && (c.Kind == "padded" || c.Kind == "blank") {
				// inside a slot template the content is the template's children as written
				return "", ""
			}
			if got != wantText {
				return "whitespace/" + c.Form, fmt.Sprintf("text inside the slot %q want %q", got, wantText)
			}
			return "", ""
		})
		trig = c.Kind
	case "k1":
		build := func(hdr, def, ftr, kind, sfx string) (inc string, h, d, f string, titles []string) {
			hs, ht, htt := c06Supply("header", hdr, kind, "H"+sfx)
			ds, dt, dtt := c06Supply("default", def, kind, "D"+sfx)
			fs, ft, ftt := c06Supply("footer", ftr, kind, "F"+sfx)
			if hdr == "none" {
				ht = "FBH"
			}
			if def == "none" {
				dt = "FBD"
			}
			for _, t := range []string{htt, dtt, ftt} {
				if t != "" {
					titles = append(titles, t)
				}
			}
			if c.Inst == "lines" && def != "plain" {
				// every slot template on a line of its own: the white space between them is nobody's content
				return "<template include=\"c.vuego\">\n  " + hs + "\n  " + ds + "\n\n  " + fs + "\n</template>", ht, dt, ft, titles
			}
			return `<template include="c.vuego">` + hs + ds + fs + `</template>`, ht, dt, ft, titles
		}
		inc, h, d, f, titles := build(c.Hdr, c.Def, c.Ftr, c.Kind, "")
		page := inc
		hs, ds, fs := []string{h}, []string{d}, []string{f}
		switch c.Inst {
		case "two-empty":
			page += `<template include="c.vuego"></template>`
			hs, ds, fs = append(hs, "FBH"), append(ds, "FBD"), append(fs, "")
		case "two-other":
			inc2, h2, d2, f2, t2 := build("hash", "vslot", "vslot", "static", "2")
			page += inc2
			hs, ds, fs = append(hs, h2), append(ds, d2), append(fs, f2)
			titles = append(titles, t2...)
		case "if-true": // the include tag carries v-if: it still hands its children to the component
			page = strings.Replace(inc, `<template include="c.vuego">`, `<template include="c.vuego" v-if="v">`, 1)
		case "else":
			page = `<u v-if="nothing">n</u>` + strings.Replace(inc, `<template include="c.vuego">`, `<template include="c.vuego" v-else>`, 1)
		case "empty-first":
			page = `<template include="c.vuego"></template>` + page
			hs, ds, fs = append([]string{"FBH"}, hs...), append([]string{"FBD"}, ds...), append([]string{""}, fs...)
		}
		files = Files{"c.vuego": c06K1, "page.vuego": page}
		expectText("header", hs, "header")
		expectText("main", ds, "default")
		expectText("footer", fs, "footer")
		checks = append(checks, func(nodes []*html.Node) (string, string) {
			var got []string
			for _, n := range htmlcmp.Find(nodes, func(n *html.Node) bool { _, ok := htmlcmp.Attr(n, "title"); return ok }) {
				t, _ := htmlcmp.Attr(n, "title")
				got = append(got, t)
			}
			if strings.Join(got, "|") != strings.Join(titles, "|") {
				return "bound-attr-in-content", fmt.Sprintf("titles %q want %q", got, titles)
			}
			return "", ""
		})
		trig = fmt.Sprintf("h=%s/d=%s/f=%s/%s/%s", c.Hdr, c.Def, c.Ftr, c.Kind, c.Inst)
	case "scoped":
		var comp, incAttrs string
		var want []string
		switch c.Comp {
		case "K2": // slot prop names differ from the component's variable names
			comp = `<ul class="c"><li><slot :item="p" :index="n">FB{{ p }}</slot></li></ul>`
			incAttrs = ` :p="pv" :n="n7"`
			want = []string{"PV/7"}
		case "K2same":
			comp = `<ul class="c"><li><slot :item="item" :index="index">FB{{ item }}</slot></li></ul>`
			incAttrs = ` :item="pv" :index="n7"`
			want = []string{"PV/7"}
		case "K3":
			comp = `<ul class="c"><li v-for="(i, it) in list"><slot :item="it" :index="i">FB{{ it }}</slot></li></ul>`
			incAttrs = ` :list="items"`
			want = []string{"x0/0", "x1/1"}
		case "K3nil": // a prop that is nil for some iterations must not keep an earlier iteration's value
			comp = `<ul class="c"><li v-for="o in list"><slot :item="o.name" :index="o.badge">FB{{ o.name }}</slot></li></ul>`
			incAttrs = ` :list="sparse"`
			want = []string{"A/new", "B/", "C/sale", "D/"}
		case "K2two": // the same slot used twice with different sets of props
			comp = `<ul class="c"><li><slot :item="p">FB{{ p }}</slot></li><li><slot :index="n">FB{{ p }}</slot></li></ul>`
			incAttrs = ` :p="pv" :n="n7"`
			want = []string{"PV/", "/7"}
		case "K2long": // the long form of the binding on the slot
			comp = `<ul class="c"><li><slot v-bind:item="p" v-bind:index="n">FB{{ p }}</slot></li></ul>`
			incAttrs = ` :p="pv" :n="n7"`
			want = []string{"PV/7"}
		case "K5":
			comp = `<ul class="c"><li><slot name="row" :item="p" :index="n">FB{{ p }}</slot></li></ul>`
			incAttrs = ` :p="pv" :n="n7"`
			want = []string{"PV/7"}
		}
		slotAttr := "v-slot"
		if c.Comp == "K5" {
			slotAttr = "#row"
		}
		var content string
		switch c.Form {
		case "var":
			content = `<template ` + slotAttr + `="sp">{{ sp.item }}/{{ sp.index }}{{ v }}</template>`
			for i := range want {
				want[i] += "IV"
			}
		case "destructure":
			content = `<template ` + slotAttr + `="{ item, index }">{{ item }}/{{ index }}{{ v }}</template>`
			for i := range want {
				want[i] += "IV"
			}
		case "fallback":
			content = ""
			for i := range want {
				want[i] = "FB" + strings.Split(want[i], "/")[0]
			}
			if c.Comp == "K2two" {
				want = []string{"FBPV", "FBPV"}
			}
		case "plain":
			if c.Comp == "K5" {
				return
			}
			content = `<b>P{{ v }}</b>`
			for i := range want {
				want[i] = "PIV"
			}
		}
		files = Files{"c.vuego": comp, "page.vuego": `<template include="c.vuego"` + incAttrs + `>` + content + `</template>`}
		expectText("li", want, "scoped-slot")
		trig = c.Comp + "/" + c.Form
	case "twice":
		comp := `<div class="c"><section><slot></slot></section><aside><slot></slot></aside></div>`
		if c.Var == "named" {
			comp = `<div class="c"><section><slot name="x"></slot></section><aside><slot name="x"></slot></aside></div>`
		}
		var csrc, ctext string
		if !strings.HasPrefix(c.Kind, "setsvar") {
			csrc, ctext, _ = c06Content(c.Kind, "")
		}
		switch c.Kind {
		case "setsvar": // content that sets a variable at its own level: every fill starts from the includer's value
			csrc, ctext = `<template :n7="n7 + 1" mark="used"></template><b>#{{ n7 }}{{ mark }}</b>`, "#8used"
		case "setsvarif":
			csrc, ctext = `<i>[{{ mark }}]</i><template v-if="v" :mark="'M'"></template>`, "[]"
		}
		content := csrc
		switch c.Form {
		case "vslot":
			content = "<template v-slot>" + csrc + "</template>"
		case "hash":
			content = "<template #x>" + csrc + "</template>"
		}
		files = Files{"c.vuego": comp, "page.vuego": `<template include="c.vuego">` + content + `</template><p>end</p>`}
		expectText("section", []string{ctext}, "first-use")
		expectText("aside", []string{ctext}, "second-use")
		expectText("p", []string{"end"}, "after")
		trig = c.Var + "/" + c.Form + "/" + c.Kind
	case "nested":
		n := `<span class="n"><slot name="inner">NFB</slot></span>`
		var m, page string
		var wantN, wantM string
		switch c.Var {
		case "both": // M fills N's slot with its own content, the page fills M's default slot
			m = `<div class="m"><template include="n.vuego"><template v-slot:inner>MINE{{ q }}</template></template><em><slot>MFB</slot></em></div>`
			page = `<template include="m.vuego" q="Q"><b>PAGE{{ v }}</b></template>`
			wantN, wantM = "MINEQ", "PAGEIV"
		case "page-none": // the page supplies nothing
			m = `<div class="m"><template include="n.vuego"><template v-slot:inner>MINE{{ q }}</template></template><em><slot>MFB</slot></em></div>`
			page = `<template include="m.vuego" q="Q"></template>`
			wantN, wantM = "MINEQ", "MFB"
		case "inner-none": // M gives N nothing; the page's content for M must not reach N
			m = `<div class="m"><template include="n.vuego"></template><em><slot name="inner">MFB</slot></em></div>`
			page = `<template include="m.vuego" q="Q"><template #inner>PAGEIN</template></template>`
			wantN, wantM = "NFB", "PAGEIN"
		case "same-default": // both use the default slot
			n = `<span class="n"><slot>NFB</slot></span>`
			m = `<div class="m"><template include="n.vuego"><i>MINE</i></template><em><slot>MFB</slot></em></div>`
			page = `<template include="m.vuego"><b>PAGE</b></template>`
			wantN, wantM = "MINE", "PAGE"
		case "sibling-after": // an include after a slotted include on the same level gets nothing
			n = `<span class="n"><slot>NFB</slot></span>`
			m = `<em><slot>MFB</slot></em>`
			page = `<div><template include="m.vuego"><b>PAGE</b></template><template include="n.vuego"></template></div>`
			wantN, wantM = "NFB", "PAGE"
		}
		files = Files{"n.vuego": n, "m.vuego": m, "page.vuego": page}
		expectText("span", []string{wantN}, "inner-component")
		expectText("em", []string{wantM}, "middle-component")
		trig = c.Var
	case "shadow": // the component has a variable named like the includer's variable that the content reads
		var comp, incAttrs string
		n := 1
		switch c.Var {
		case "prop":
			comp, incAttrs = `<div class="c"><em><slot>FB</slot></em><u>{{ v }}</u></div>`, ` v="COMP"`
		case "boundprop":
			comp, incAttrs = `<div class="c"><em><slot>FB</slot></em><u>{{ v }}</u></div>`, ` :v="pv"`
		case "frontmatter":
			comp = "---\nv: COMP\n---\n" + `<div class="c"><em><slot>FB</slot></em><u>{{ v }}</u></div>`
		case "loopvar":
			comp, n = `<div class="c"><em v-for="v in items"><slot>FB</slot></em></div>`, 2
		case "tmplvar":
			comp = `<div class="c"><template :v="'COMP'"></template><em><slot>FB</slot></em><u>{{ v }}</u></div>`
		}
		content := `<b>{{ v }}</b>`
		switch c.Form {
		case "vslot":
			content = `<template v-slot><b>{{ v }}</b></template>`
		case "attr":
			content = `<b :title="v">{{ v }}</b>`
		}
		var want []string
		for i := 0; i < n; i++ {
			want = append(want, "IV")
		}
		if c.Form == "scoped" || c.Form == "scopednamed" {
			// the slot binds a prop to the component's variable of that name: the content receives the
			// component's value through the prop, and still reads the includer's variable by its name
			slot, tmpl := `<slot :item="v">`, `<template v-slot="sp">`
			if c.Form == "scopednamed" {
				slot, tmpl = `<slot name="row" :item="v">`, `<template #row="sp">`
			}
			comp = strings.Replace(comp, `<slot>`, slot, 1)
			content = tmpl + `<b>{{ sp.item }}/{{ v }}</b></template>`
			cv := map[string][]string{"prop": {"COMP"}, "boundprop": {"PV"}, "frontmatter": {"COMP"}, "loopvar": {"x0", "x1"}, "tmplvar": {"COMP"}}[c.Var]
			want = nil
			for _, x := range cv {
				want = append(want, x+"/IV")
			}
		}
		files = Files{"c.vuego": comp, "page.vuego": `<template include="c.vuego"` + incAttrs + `>` + content + `</template><i>{{ v }}</i>`}
		expectText("em", want, "includer-variable-shadowed-by-component")
		expectText("i", []string{"IV"}, "after")
		trig = c.Var + "/" + c.Form
	case "rootstruct":
		// the includer's variables are the fields of a struct (by JSON tag, by Go name, also of a
		// field that its tag hides): slot content reads them as the page does outside the include tag
		c.runRootStruct(ctx)
		return
	case "case": // slot names written with capital letters (attribute keys are lower-cased by the HTML parser)
		comp := `<div class="c"><header><slot name="pageTitle">FBH</slot></header><footer><slot name="Foot">FBF</slot></footer></div>`
		var content, wh, wf string
		switch c.Form {
		case "hash":
			content, wh, wf = `<template #pageTitle>H1</template><template #Foot>F1</template>`, "H1", "F1"
		case "vslot":
			content, wh, wf = `<template v-slot:pageTitle>H1</template><template v-slot:Foot>F1</template>`, "H1", "F1"
		case "lower":
			content, wh, wf = `<template #pagetitle>H1</template><template v-slot:foot>F1</template>`, "H1", "F1"
		case "none":
			content, wh, wf = ``, "FBH", "FBF"
		case "nonascii": // the parser lower-cases ASCII letters only
			comp = `<div class="c"><header><slot name="Ärger">FBH</slot></header><footer><slot name="ÉTÉ">FBF</slot></footer></div>`
			content, wh, wf = `<template #Ärger>H1</template><template v-slot:ÉTÉ>F1</template>`, "H1", "F1"
		case "scopedpad": // spaces around the name that receives the slot's props
			comp = `<div class="c"><header><slot name="pageTitle" :t="'H1'">FBH</slot></header><footer><slot name="Foot" :t="'F1'">FBF</slot></footer></div>`
			content, wh, wf = `<template #pageTitle=" sp ">{{ sp.t }}</template><template v-slot:Foot=" { t } ">{{ t }}</template>`, "H1", "F1"
		}
		files = Files{"c.vuego": comp, "page.vuego": `<template include="c.vuego">` + content + `</template>`}
		expectText("header", []string{wh}, "mixed-case-name")
		expectText("footer", []string{wf}, "mixed-case-name")
		trig = c.Form
	case "layout":
		csrc, ctext, _ := c06Content(c.Kind, "")
		lay := `<html><body><aside><slot name="side">LFB</slot></aside><main v-html="content"></main></body></html>`
		page := "---\nlayout: l\n---\n<template #side>" + csrc + "</template><p>body</p>"
		want := ctext
		if c.Var == "none" {
			page = "---\nlayout: l\n---\n<p>body</p>"
			want = "LFB"
		}
		files = Files{"layouts/l.vuego": lay, "page.vuego": page}
		if c.Var == "for-component" {
			// a slot template written inside an include tag is content for that component, not for the layout
			files["c.vuego"] = `<section><slot name="side">CFB</slot></section>`
			files["page.vuego"] = "---\nlayout: l\n---\n" + `<template include="c.vuego"><template #side>` + csrc + `</template></template><p>body</p>`
			expectText("section", []string{ctext}, "component-slot")
			want = "LFB"
		}
		if c.Var == "for-component-short" {
			// the same with a registered shorthand tag
			files["components/SideBox.vuego"] = `<section><slot name="side">CFB</slot></section>`
			files["page.vuego"] = "---\nlayout: l\n---\n" + `<side-box><template #side>` + csrc + `</template></side-box><p>body</p>`
			expectText("section", []string{ctext}, "component-slot")
			want = "LFB"
			withComponents = true
		}
		if c.Var == "props-var" || c.Var == "props-destructured" || c.Var == "props-after-body" {
			// the layout's slot binds props; the page's template declares a name for them
			files["layouts/l.vuego"] = `<html><body><aside><slot name="side" :x="n7" :y="'why'">LFB</slot></aside><main v-html="content"></main></body></html>`
			decl, use := `#side="sp"`, `{{ sp.x }}-{{ sp.y }}`
			if c.Var == "props-destructured" {
				decl, use = `v-slot:side="{ x, y }"`, `{{ x }}-{{ y }}`
			}
			tmpl := `<template ` + decl + `><b>` + use + `</b>` + csrc + `</template>`
			files["page.vuego"] = "---\nlayout: l\n---\n" + tmpl + `<p>body</p>`
			if c.Var == "props-after-body" {
				files["page.vuego"] = "---\nlayout: l\n---\n" + `<p>body</p>` + tmpl + `<p>tail</p>`
			}
			want = "7-why" + ctext
		}
		expectText("aside", []string{want}, "layout-slot")
		if c.Var != "none" && c.Var != "for-component" && c.Var != "for-component-short" {
			// content handed to the layout is rendered in the layout's slot, not in the page content as well
			checks = append(checks, func(nodes []*html.Node) (string, string) {
				m := htmlcmp.Find(nodes, func(n *html.Node) bool { return n.Data == "main" })
				if len(m) != 1 {
					return "layout-content", "no <main>"
				}
				got := strings.Join(strings.Fields(htmlcmp.Text(m[0])), "")
				wantMain := "body"
				if c.Var == "props-after-body" {
					wantMain = "bodytail"
				}
				if got != wantMain {
					return "layout-content", fmt.Sprintf("page content inside <main> is %q, want %q (the slot template belongs to the layout's slot)", got, wantMain)
				}
				return "", ""
			})
		}
		trig = c.Var + "/" + c.Kind
	}
	if c.After != "" {
		ctx.Eval(1)
		if _, perr := renderPage(c06Polluters[c.After], "page.vuego", map[string]any{"two": []int{1, 2}}); perr != nil {
			ctx.Violation("render-error", "polluter", c.After, perr.Error())
			return
		}
		trig += "/after-" + c.After
	}
	ctx.Eval(1)
	var opts []vuego.LoadOption
	if withComponents {
		opts = append(opts, vuego.WithComponents())
	}
	out, err := renderPage(files, "page.vuego", data, opts...)
	if err != nil {
		ctx.Violation("render-error", c.Part, trig, fmt.Sprintf("%v\n%s", err, files))
		return
	}
	ctx.Outcome(out)
	nodes := htmlcmp.Parse(out)
	if strings.Contains(out, "POLLUTED") {
		ctx.Violation("slot-content", c.Part+"/content-of-an-earlier-render", trig, fmt.Sprintf("%s out %q", files, clip(out, 500)))
	}
	for _, chk := range checks {
		if where, detail := chk(nodes); where != "" {
			ctx.Violation("slot-content", c.Part+"/"+where, trig, fmt.Sprintf("%s\n%s out %q", detail, files, clip(out, 500)))
		}
	}
}

type c06Root struct {
	Title  string `json:"title"`
	Author string `json:"-"`
	Plain  string
	N      int `json:"count"`
}

func (c *c06Case) runRootStruct(ctx *core.Ctx) {
	ctx.NonTrivial()
	marks := `[{{ title }}|{{ Title }}|{{ Author }}|{{ Plain }}|{{ count }}|{{ N }}]`
	if c.Form == "expr" {
		marks = `[{{ title + '!' }}|{{ Plain + '!' }}|{{ count + 1 }}]`
	}
	files := Files{
		"card.vuego": `<div class="card"><h2><slot name="head">no head</slot></h2><em><slot>empty</slot></em><ul><li v-for="r in two"><slot name="row" :r="r">no row</slot></li></ul></div>`,
		"page.vuego": `<p>` + marks + `</p><template include="card.vuego" :two="[1, 2]"><template #head>` + marks + `</template><b>` + marks + `</b><template #row="sp">` + marks + `</template></template>`,
	}
	var data any = c06Root{Title: "Hello", Author: "Ann", Plain: "P", N: 3}
	if c.Var == "ptr" {
		data = &c06Root{Title: "Hello", Author: "Ann", Plain: "P", N: 3}
	}
	ctx.Eval(1)
	var buf strings.Builder
	if err := vuego.NewVue(files.FS()).Render(&buf, "page.vuego", data); err != nil {
		ctx.Violation("render-error", c.Part, c.Var+"/"+c.Form, fmt.Sprintf("%v\n%s", err, files))
		return
	}
	out := buf.String()
	ctx.Outcome(out)
	nodes := htmlcmp.Parse(out)
	text := func(tag string) []string {
		var got []string
		for _, n := range htmlcmp.Find(nodes, func(n *html.Node) bool { return n.Data == tag }) {
			got = append(got, strings.TrimSpace(htmlcmp.Text(n)))
		}
		return got
	}
	page := text("p")
	if len(page) != 1 || strings.Contains(page[0], "||") {
		ctx.Violation("slot-content", "rootstruct/page-level", c.Var+"/"+c.Form, fmt.Sprintf("the page itself shows %q\n%s", page, files))
		return
	}
	for tag, n := range map[string]int{"h2": 1, "em": 1, "li": 2} {
		got := text(tag)
		want := make([]string, n)
		for i := range want {
			want[i] = page[0]
		}
		if strings.Join(got, "¦") != strings.Join(want, "¦") {
			ctx.Violation("slot-content", "rootstruct/"+tag, c.Var+"/"+c.Form, fmt.Sprintf("slot content shows %q, the page outside the include tag shows %q\n%s out %q", got, page[0], files, clip(out, 400)))
		}
	}
}

func init() {
	core.Register(&core.Check{
		ID:        "C06",
		Level:     "exploration",
		CPUBudget: 10,
		Rule: "component with header/default/footer slots (fallback on two of them) used by includers supplying every subset in every form (v-slot:, #, plain children, v-slot, v-slot:default) x 4 content kinds (static, {{ }} of an includer variable, :attr, text) x 7 instance arrangements (incl. an include tag carrying v-if / v-else, and every slot template on a line of its own); scoped slots (4 components incl. slot in v-for) x {named var, destructured, fallback, plain}; same slot used twice; nested components (5 arrangements); layout-inherited slots (also with props the layout's slot binds, declared by name or destructured, and never rendered a second time in the page content); slot names written with capital letters; components whose prop / front-matter key / loop variable / template variable has the name of the includer's variable that the content reads; includer variables that are fields of struct root data (by JSON tag, by Go name, hidden by the tag) read by named, default and per-row scoped slot content as outside the include tag; " +
			"every case also right after a render (on another engine) that passes content for all those slot names to a component and through a layout to the components the layout includes; " +
			"wide part: components with 1..13 named slots of which the includer fills the even / odd / all ones; whitespace part: content whose parts are separated by a space, a newline or a non-breaking space, content that is a non-breaking space only, padded and blank content, supplied plain / in a v-slot template / for a named slot to a slot inside <pre>, with exact text; " +
			"oracle: expected normalised text (and bound attributes) at every slot position. non-trivial = all",
		Bounds:      map[string]string{"quick": "full catalogue product, nesting depth 2, <=2 instances", "thorough": "same"},
		Assumptions: []string{"whitespace around spliced nodes is insignificant"},
		Decode:      core.DecodeAs[c06Case](),
		Enumerate: func(tier string, emit0 func(core.Case)) {
			emit := func(cs core.Case) {
				emit0(cs)
				c := cs.(*c06Case)
				for _, pol := range c06PolluterNames {
					d := *c
					d.After = pol
					emit0(&d)
				}
			}
			for _, h := range []string{"none", "vslot", "hash"} {
				for _, d := range []string{"none", "plain", "vslot", "vslotdefault", "hash"} {
					for _, f := range []string{"none", "vslot", "hash"} {
						for _, k := range []string{"static", "dyn", "attr", "text"} {
							for _, inst := range []string{"one", "two-empty", "two-other", "empty-first", "if-true", "else", "lines"} {
								emit(&c06Case{Part: "k1", Hdr: h, Def: d, Ftr: f, Kind: k, Inst: inst})
							}
						}
					}
				}
			}
			for n := 1; n <= 13; n++ {
				for _, form := range []string{"even", "odd", "all"} {
					emit(&c06Case{Part: "wide", Var: fmt.Sprint(n), Form: form})
				}
			}
			for _, k := range []string{"inline-space", "inline-newline", "text-space", "nbsp", "nbsp-between", "padded", "blank", "comment"} {
				for _, form := range []string{"plain", "vslot", "named"} {
					emit(&c06Case{Part: "ws", Kind: k, Form: form})
				}
			}
			for _, comp := range []string{"K2", "K2same", "K2long", "K3", "K3nil", "K2two", "K5"} {
				for _, form := range []string{"var", "destructure", "fallback", "plain"} {
					emit(&c06Case{Part: "scoped", Comp: comp, Form: form})
				}
			}
			for _, v := range []string{"default", "named"} {
				for _, form := range []string{"plain", "vslot", "hash"} {
					if (v == "named") != (form == "hash") {
						continue
					}
					for _, k := range []string{"static", "dyn", "text", "two", "setsvar", "setsvarif"} {
						emit(&c06Case{Part: "twice", Var: v, Form: form, Kind: k})
					}
				}
			}
			for _, v := range []string{"both", "page-none", "inner-none", "same-default", "sibling-after"} {
				emit(&c06Case{Part: "nested", Var: v})
			}
			for _, k := range []string{"static", "dyn", "attr", "text"} {
				emit(&c06Case{Part: "layout", Var: "supplied", Kind: k})
			}
			emit(&c06Case{Part: "layout", Var: "none", Kind: "static"})
			for _, v := range []string{"props-var", "props-destructured", "props-after-body"} {
				for _, k := range []string{"static", "dyn", "text"} {
					emit(&c06Case{Part: "layout", Var: v, Kind: k})
				}
			}
			emit(&c06Case{Part: "layout", Var: "for-component", Kind: "static"})
			emit(&c06Case{Part: "layout", Var: "for-component", Kind: "dyn"})
			emit(&c06Case{Part: "layout", Var: "for-component-short", Kind: "static"})
			emit(&c06Case{Part: "layout", Var: "for-component-short", Kind: "dyn"})
			for _, f := range []string{"hash", "vslot", "lower", "none", "nonascii", "scopedpad"} {
				emit(&c06Case{Part: "case", Form: f})
			}
			for _, v := range []string{"struct", "ptr"} {
				for _, f := range []string{"must", "expr"} {
					emit(&c06Case{Part: "rootstruct", Var: v, Form: f})
				}
			}
			for _, v := range []string{"prop", "boundprop", "frontmatter", "loopvar", "tmplvar"} {
				for _, f := range []string{"plain", "vslot", "attr", "scoped", "scopednamed"} {
					emit(&c06Case{Part: "shadow", Var: v, Form: f})
				}
			}
		},
	})
}
