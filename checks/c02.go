package checks

import (
	"bytes"
	"fmt"
	"html"
	"regexp"
	"strings"

	xhtml "golang.org/x/net/html"

	"verif/engine/core"
	"verif/engine/htmlcmp"
)

// C02: rendering is faithful — parse(render(t)) == parse(t) for directive-free templates;
// interpolated values arrive as neighbours + string form; v-html verbatim.

var (
	c02Block  = []string{"div", "p", "ul", "li", "section"}
	c02Inline = []string{"span", "a", "b", "em"}
	c02Void   = []string{"br", "img", "input", "hr"}
	c02Table  = []string{"table", "tr", "td", "th"}
	c02Raw    = []string{"script", "style", "textarea", "title"}

	c02AttrNames = []string{"class", "id", "title", "href", "data-x"}
	c02AttrVals  = []string{"a", "a b", "a  b", "a&#10;b", "a&#13;b", "a&#13;&#10;b", "a&Tab;b", "a\nb", "&amp;", "&lt;", "&quot;", "'", " a ", "&amp;lt;", "x&gt;y", "&#39;q", "&nbsp;x&nbsp;", "\u00a0"}
	c02Texts     = []string{"t", "&amp;", "&lt;b&gt;", "a &lt; b &amp; c", "&amp;lt;", "&#39;", "x &amp; y; z", "\"q\"", "&nbsp;", "a&nbsp;b", "&nbsp;x&nbsp;", "\u00a0", "\u2003"}
)

type c02Case struct {
	Part  string `json:"part"` // structure | attr | text | doc | interp-text | interp-attr | bound | vhtml
	Src   string `json:"src"`
	Val   string `json:"val,omitempty"` // name of the interpolated value
	L     string `json:"l,omitempty"`
	R     string `json:"r,omitempty"`
	Shape string `json:"shape,omitempty"` // document shape (doc part)
	After string `json:"after,omitempty"` // "" | failure: what was rendered before (interpolation parts)
}

func (c *c02Case) Key() string { return c.Part + "|" + c.Src + "|" + c.Val + "|" + c.After }

var c02Opts = htmlcmp.Options{Values: true, RawText: true, KeepDoctype: true, Flow: true}

// c02IsDoc: the template source is a full document (decided on the source alone, not with
// vuego's own "</html>" heuristic); source and output are then both parsed as documents.
var c02HTMLTagRe = regexp.MustCompile(`<html([\s/>]|$)`)

func c02IsDoc(src string) bool {
	l := strings.ToLower(src)
	return c02HTMLTagRe.MatchString(l) || strings.Contains(l, "<!doctype")
}

// c02NoScript: the case under test contains <noscript> (set per case; workers are single-threaded)
var c02NoScript bool

func c02Norm(src string) []htmlcmp.El { return c02NormAs(src, c02IsDoc(src)) }

func c02NormAs(src string, doc bool) []htmlcmp.El {
	nodes := htmlcmp.ParseFragment(src)
	if c02NoScript {
		// <noscript> content only matters to clients without scripting: they read it as markup
		nodes = htmlcmp.ParseFragmentNoScript(src)
	}
	if doc {
		nodes = htmlcmp.ParseDocument(src)
	}
	els := htmlcmp.Project(nodes, c02Opts)
	for i := range els {
		for j := range els[i].Attrs {
			// leading/trailing whitespace of attribute values is treated as insignificant
			els[i].Attrs[j][1] = strings.TrimFunc(els[i].Attrs[j][1], htmlcmp.IsHTMLSpace)
		}
	}
	return els
}

// c02Stable: the HTML5 parser's own serialisation re-parses to the same tree.
func c02Stable(src string) bool {
	// (judged with scripting enabled: the parser's serialiser writes <noscript> content as raw
	// text, which is what it is only then - with scripting disabled its own output would not
	// re-parse to its input, and every <noscript> with text in it would be set aside)
	if c02NoScript {
		c02NoScript = false
		defer func() { c02NoScript = true }()
	}
	nodes := htmlcmp.ParseFragment(src)
	if c02IsDoc(src) {
		nodes = htmlcmp.ParseDocument(src)
	}
	var buf bytes.Buffer
	for _, n := range nodes {
		if err := xhtml.Render(&buf, n); err != nil {
			return false
		}
	}
	return htmlcmp.String(c02Norm(src)) == htmlcmp.String(c02Norm(buf.String()))
}

func c02ValClass(s string) string {
	switch {
	case strings.Contains(s, "&lt;") && strings.Contains(html.UnescapeString(s), "&lt;") || strings.Contains(s, "&amp;lt;"):
		return "double-encoded"
	case strings.Contains(s, "&") && strings.Contains(s, ";") && strings.Contains(s, "<"):
		return "amp+lt"
	case strings.Contains(s, "<") || strings.Contains(s, ">"):
		return "angle"
	case strings.Contains(s, "&"):
		return "amp"
	case strings.ContainsAny(s, "\"'"):
		return "quote"
	case s != strings.TrimSpace(s):
		return "ws"
	}
	return "plain"
}

// c02Diff describes the first difference between two projections.
func c02Diff(got, want []htmlcmp.El) (where, trigger string) {
	n := len(got)
	if len(want) < n {
		n = len(want)
	}
	for i := 0; i < n; i++ {
		g, w := got[i], want[i]
		if g.Tag != w.Tag || g.Depth != w.Depth {
			return "structure:want-" + w.Tag + "-got-" + g.Tag, "tag"
		}
		if g.Tag == "#flow" {
			// white space that separates inline content is content; other text differences are
			// reported at the text node itself
			nosp := func(s string) string { return strings.ReplaceAll(s, " ", "") }
			if g.Text != w.Text && nosp(g.Text) == nosp(w.Text) {
				return "inline-spacing-changed:" + parentTag(want, i), "ws"
			}
			continue
		}
		if g.Tag == "#text" || g.Tag == "#doctype" {
			if g.Text != w.Text && !(w.Merged && strings.Join(strings.Fields(g.Text), "") == strings.Join(strings.Fields(w.Text), "")) {
				return "text-changed:" + parentTag(want, i), c02ValClass(w.Text)
			}
			continue
		}
		if len(g.Attrs) != len(w.Attrs) {
			return "attr-set-changed:" + w.Tag, "attrs"
		}
		for j := range g.Attrs {
			if g.Attrs[j][0] != w.Attrs[j][0] {
				return "attr-set-changed:" + w.Tag, "attrs"
			}
			if g.Attrs[j][1] != w.Attrs[j][1] {
				return "attr-value-changed:" + w.Tag, c02ValClass(w.Attrs[j][1])
			}
		}
	}
	if len(got) > len(want) {
		return "extra:" + got[n].Tag, "tag"
	}
	if len(want) > len(got) {
		return "missing:" + want[n].Tag, "tag"
	}
	return "", ""
}

func parentTag(els []htmlcmp.El, i int) string {
	d := els[i].Depth
	for j := i - 1; j >= 0; j-- {
		if els[j].Depth < d && els[j].Tag != "#text" {
			return els[j].Tag
		}
	}
	return "root"
}

var c02Values = map[string]any{
	"word": "word", "amp": "a & b", "lt": "1 < 2", "tag": "<b>x</b>", "dq": `say "hi"`, "sq": "it's", "ent": "&amp;",
	"lead": "  lead", "trail": "trail  ", "nbsp": "\u00a0n\u00a0", "nilv": nil, "int": 42, "neg": -7, "true": true, "float": 2.5, "entlt": "&lt;i&gt;", "semi": "a;b&c",
	// line breaks as Windows and old Macs write them: a parser turns a raw CR into LF
	"f32": float32(0.1), "f32b": float32(19.99), "big": 1234567.0, "small": 0.00002, "u8": uint8(200), "i64": int64(-5),
	"crlf": "l1\r\nl2", "cr": "m1\rm2", "tabnl": "t\tu\nv",
	// a value that looks like template source stays a value
	"must": "a {{ one }} b", "musttag": "<code>Hello {{ v }}!</code>",
	// spelled like the attribute it lands in
	"attrname": "title",
}
var c02ValueNames = []string{"word", "amp", "lt", "tag", "dq", "sq", "ent", "lead", "trail", "nbsp", "nilv", "int", "neg", "true", "float", "entlt", "semi", "crlf", "cr", "tabnl", "f32", "f32b", "big", "small", "u8", "i64", "must", "musttag", "attrname"}

func (c *c02Case) Run(ctx *core.Ctx) {
	switch c.Part {
	case "structure", "attr", "text", "doc":
		c02NoScript = strings.Contains(c.Src, "<noscript") && !c02IsDoc(c.Src)
		defer func() { c02NoScript = false }()
		if !c02Stable(c.Src) {
			ctx.Zone("not-parser-stable")
			return
		}
		ctx.NonTrivial()
		ctx.Eval(1)
		out, err := renderPage(Files{"page.vuego": c.Src}, "page.vuego", nil)
		if err != nil {
			ctx.Violation("render-error", c.Part, "static", fmt.Sprintf("src %q: %v", c.Src, err))
			return
		}
		isDoc := c02IsDoc(c.Src)
		want, got := c02NormAs(c.Src, isDoc), c02NormAs(out, isDoc)
		if where, trig := c02Diff(got, want); where != "" {
			if c.Part == "doc" {
				where, trig = c.Shape+":"+where, trig
			}
			// cause-based classification: the serialiser writes <br></br>, which HTML5 parses as two breaks
			if w2, _ := c02Diff(c02NormAs(strings.ReplaceAll(out, "</br>", ""), isDoc), want); w2 == "" {
				where, trig = "void-br-doubled", "br"
			}
			ctx.Violation("roundtrip", where, trig, fmt.Sprintf("src %q\n out %q\n got: %s\nwant: %s", c.Src, out, oneLine(htmlcmp.String(got)), oneLine(htmlcmp.String(want))))
		}
		ctx.Outcome(htmlcmp.String(want))
	case "interp-text", "interp-attr", "bound", "vhtml", "vtext":
		v := c02Values[c.Val]
		ctx.NonTrivial()
		ctx.Eval(1)
		if c.After == "failure" {
			// history: a render that fails in the middle of a text node and of an attribute value
			// comes first (process-wide pools and caches see it)
			_, ferr := renderString(`<p title="t {{ v }} u {{ v | nosuchfilter2 }}">k</p>`, map[string]any{"v": v})
			_, ferr2 := renderString(`<p>pre {{ v }} mid {{ v | nosuchfilter }} post</p>`, map[string]any{"v": v})
			if ferr == nil || ferr2 == nil {
				ctx.Violation("interp", "failing-template-succeeds", "history", fmt.Sprint(ferr, ferr2))
			}
		}
		out, err := renderPage(Files{"page.vuego": c.Src}, "page.vuego", map[string]any{"v": v, "one": []int{1}})
		if err != nil {
			ctx.Violation("render-error", c.Part, c.Val, fmt.Sprintf("src %q: %v", c.Src, err))
			return
		}
		sv := fmt.Sprint(v)
		if v == nil {
			sv = "" // nothing has no string form
		}
		nodes := htmlcmp.Parse(out)
		s := htmlcmp.ByID(nodes, "s")
		if s == nil {
			ctx.Violation("interp", c.Part+":sink-lost", c02ValClass(sv), fmt.Sprintf("src %q out %q", c.Src, out))
			return
		}
		want := html.UnescapeString(c.L) + sv + html.UnescapeString(c.R)
		switch c.Part {
		case "interp-text":
			if g := htmlcmp.NormText(htmlcmp.Text(s)); g != htmlcmp.NormText(want) {
				ctx.Violation("interp", "text", c02ValClass(sv)+"/"+c02ValClass(c.L+c.R), fmt.Sprintf("src %q v=%q: text %q want %q (out %q)", c.Src, sv, g, want, out))
			}
		case "interp-attr", "bound":
			g, _ := htmlcmp.Attr(s, "title")
			if strings.TrimFunc(g, htmlcmp.IsHTMLSpace) != strings.TrimFunc(want, htmlcmp.IsHTMLSpace) {
				ctx.Violation("interp", c.Part, c02ValClass(sv)+"/"+c02ValClass(c.L+c.R), fmt.Sprintf("src %q v=%q: title %q want %q (out %q)", c.Src, sv, g, want, out))
			}
		case "vtext":
			// where white space is content (<pre>, <textarea>) the element's text is the value, all of it
			// (a raw CR reaches a parser as LF)
			wantT := strings.ReplaceAll(strings.ReplaceAll(sv, "\r\n", "\n"), "\r", "\n")
			if g := htmlcmp.Text(s); g != wantT {
				ctx.Violation("interp", "v-text", c02ValClass(sv), fmt.Sprintf("src %q v=%q: text %q want %q (out %q)", c.Src, sv, g, wantT, out))
			}
		case "vhtml":
			if v == nil && (s.FirstChild != nil) {
				ctx.Violation("vhtml", "nil-value", "nil", fmt.Sprintf("src %q v=nil: the element has content: %q", c.Src, out))
			}
			if !strings.Contains(out, ">"+sv+"</div>") {
				ctx.Violation("vhtml", "verbatim", c02ValClass(sv), fmt.Sprintf("src %q v=%q: output %q does not contain the value", c.Src, sv, out))
			}
		}
		ctx.Outcome(out)
	}
}

func oneLine(s string) string { return strings.ReplaceAll(strings.TrimSpace(s), "\n", "⏎") }

// --- generators

type c02Node struct {
	tag  string // "#text", "#comment" or element name
	kids []c02Node
	text string
}

func (n c02Node) src() string {
	switch n.tag {
	case "#text":
		return n.text
	case "#comment":
		return "<!-- c -->"
	}
	if isIn(c02Void, n.tag) {
		return "<" + n.tag + ">"
	}
	var b strings.Builder
	b.WriteString("<" + n.tag + ">")
	for _, k := range n.kids {
		b.WriteString(k.src())
	}
	b.WriteString("</" + n.tag + ">")
	return b.String()
}

func isIn(l []string, s string) bool {
	for _, x := range l {
		if x == s {
			return true
		}
	}
	return false
}

// c02Forests enumerates all forests with exactly n nodes, depth <= d.
func c02Forests(n, d int, labels []string, emit func([]c02Node)) {
	var trees func(n, d int, emit func(c02Node))
	var forests func(n, d int, emit func([]c02Node))
	trees = func(n, d int, emit func(c02Node)) {
		if n < 1 || d < 1 {
			return
		}
		for _, l := range labels {
			leaf := l == "#text" || l == "#comment" || isIn(c02Void, l)
			if leaf {
				if n == 1 {
					emit(c02Node{tag: l, text: "t"})
				}
				continue
			}
			if isIn(c02Raw, l) {
				if n == 1 {
					emit(c02Node{tag: l})
				} else if n == 2 {
					emit(c02Node{tag: l, kids: []c02Node{{tag: "#text", text: "t"}}})
				}
				continue
			}
			if n == 1 {
				emit(c02Node{tag: l})
				continue
			}
			forests(n-1, d-1, func(f []c02Node) { emit(c02Node{tag: l, kids: append([]c02Node(nil), f...)}) })
		}
	}
	forests = func(n, d int, emit func([]c02Node)) {
		if n == 0 {
			emit(nil)
			return
		}
		for first := 1; first <= n; first++ {
			trees(first, d, func(t c02Node) {
				forests(n-first, d, func(rest []c02Node) {
					// adjacent text nodes merge in the parser: skip
					if t.tag == "#text" && len(rest) > 0 && rest[0].tag == "#text" {
						return
					}
					emit(append([]c02Node{t}, rest...))
				})
			})
		}
	}
	forests(n, d, emit)
}

func c02Enumerate(tier string, emit func(core.Case)) {
	labels := []string{"#text", "#comment"}
	for _, g := range [][]string{c02Block, c02Inline, c02Void, c02Table, c02Raw} {
		labels = append(labels, g...)
	}
	maxNodes := 3
	if tier == "thorough" {
		maxNodes = 4
	}
	srcOf := func(f []c02Node) string {
		var b strings.Builder
		for _, n := range f {
			b.WriteString(n.src())
		}
		return b.String()
	}
	// (i) structure sweep
	for n := 1; n <= maxNodes; n++ {
		c02Forests(n, 3, labels, func(f []c02Node) { emit(&c02Case{Part: "structure", Src: srcOf(f)}) })
	}
	// (ii-a) values that are spelled like their attribute's name, and other values a serialiser may
	// take for "no value": the name in another case, true / false, the empty string
	for _, h := range []string{`<input%s>`, `<option%s>x</option>`, `<label%s>x</label>`, `<div><p%s>x</p></div>`} {
		for _, n := range []string{"checked", "selected", "disabled", "name", "value", "for", "class", "title", "id", "data-x", "hidden"} {
			for _, v := range []string{n, strings.ToUpper(n), n + " ", "true", "false", "", "on", "=" + n} {
				emit(&c02Case{Part: "attr", Src: fmt.Sprintf(h, fmt.Sprintf(` %s="%s"`, n, v))})
				emit(&c02Case{Part: "attr", Src: fmt.Sprintf(h, fmt.Sprintf(` %s="%s" data-k="k"`, n, v))})
			}
		}
	}
	// (ii) attribute sweep
	hosts := []string{`<div%s>x</div>`, `<span%s>x</span>`, `<a%s>x</a>`, `<img%s>`, `<input%s>`, `<table><tr><td%s>x</td></tr></table>`, `<textarea%s>x</textarea>`, `<div><p%s>x</p><em>y</em></div>`, `t<b%s>x</b>u`}
	for _, h := range hosts {
		for i, n1 := range c02AttrNames {
			for _, v1 := range c02AttrVals {
				a1 := fmt.Sprintf(` %s="%s"`, n1, v1)
				emit(&c02Case{Part: "attr", Src: fmt.Sprintf(h, a1)})
				for _, n2 := range c02AttrNames[i+1:] {
					for _, v2 := range c02AttrVals {
						emit(&c02Case{Part: "attr", Src: fmt.Sprintf(h, a1+fmt.Sprintf(` %s="%s"`, n2, v2))})
					}
				}
			}
		}
	}
	// (ii-b) attribute count sweep: 0..12 attributes on one element (attribute slices of every
	// capacity the parser produces), values rotating through the value list
	for _, h := range []string{`<div%s>x</div>`, `<input%s>`, `<ul><li%s>x</li><li>y</li></ul>`} {
		for k := 0; k <= 12; k++ {
			for rot := 0; rot < 3; rot++ {
				attrs := ""
				for j := 0; j < k; j++ {
					attrs += fmt.Sprintf(` data-a%d="%s"`, j, c02AttrVals[(j*5+rot*7)%len(c02AttrVals)])
				}
				emit(&c02Case{Part: "attr", Src: fmt.Sprintf(h, attrs)})
			}
		}
	}
	// (iii) text sweep
	var all []string
	for _, g := range [][]string{c02Block, c02Inline, c02Table, c02Raw} {
		all = append(all, g...)
	}
	for _, tag := range all {
		for _, t := range c02Texts {
			emit(&c02Case{Part: "text", Src: fmt.Sprintf("<%s>%s</%s>", tag, t, tag)})
			emit(&c02Case{Part: "text", Src: fmt.Sprintf("<div><%s>%s<i>k</i></%s></div>", tag, t, tag)})
			emit(&c02Case{Part: "text", Src: fmt.Sprintf("<%s><i>k</i>%s</%s>%s", tag, t, tag, t)})
			emit(&c02Case{Part: "text", Src: fmt.Sprintf("<div><%s>k</%s>%s<%s>k</%s></div>", tag, tag, t, tag, tag)})
			for _, t2 := range c02Texts {
				emit(&c02Case{Part: "text", Src: fmt.Sprintf("<%s>%s<br>%s</%s>", tag, t, t2, tag)})
			}
		}
	}
	for _, t := range c02Texts {
		emit(&c02Case{Part: "text", Src: t})
	}
	// (iii-b) preformatted content: whitespace is content inside <pre> and <textarea>
	preTok := []string{"\n", " ", "x", "<b>y</b>", "<code>z\n</code>", "&lt;"}
	tokenStrings(preTok, 3, func(tok []int) {
		body := joinTokens(preTok, tok)
		emit(&c02Case{Part: "text", Src: "<pre>" + body + "</pre>"})
		emit(&c02Case{Part: "text", Src: "<div><p>k</p><pre class=\"c\">" + body + "</pre></div>"})
		// the same content one and two elements below the <pre> (highlighted code)
		emit(&c02Case{Part: "text", Src: "<pre><code>" + body + "</code></pre>"})
		emit(&c02Case{Part: "text", Src: "<div><pre><span class=\"l\"><i>" + body + "</i></span>\n</pre></div>"})
		if !strings.Contains(body, "<b>") && !strings.Contains(body, "<code>") {
			emit(&c02Case{Part: "text", Src: "<div><textarea>" + body + "</textarea></div>"})
		}
	})
	// (iii-c) raw text in unusual places: style / script in foreign content are ordinary elements,
	// script / style inside <pre> are still raw text
	for _, src := range []string{
		`<svg><style>.a &gt; .b{} &amp; c</style></svg>`, `<svg><script>if (a &lt; b) x</script></svg>`, `<math><style>a &lt; b</style></math>`, `<svg><style>p{}</style><g><style>q &gt; r</style><circle r="1"></circle></g></svg>`,
		// foreign <style> / <script> (ordinary elements for the parser) inside a line of text, next to an inline element, inside <pre>
		`<p>chart: <svg><style>a &lt;b&gt; c &amp;amp; d</style></svg> done</p>`, `<div><span>x</span><math><style>a &lt; b</style></math></div>`, `<pre>k <svg><script>if (a &lt; b) &amp;amp;</script></svg></pre>`, `<p>t <svg><title>a &lt;i&gt;</title><style>p &gt; q</style></svg></p>`,
		`<svg><use xlink:href="#a"></use></svg>`, `<svg xml:lang="en" viewBox="0 0 1 1"><a xlink:href="/x" xlink:title="t &amp; u">k</a></svg>`,
		// a plain and a namespaced attribute of the same local name on one foreign element
		`<svg><use href="#i" xlink:href="#j"></use></svg>`, `<svg><use xlink:href="#j" href="#i"></use></svg>`, `<svg lang="de" xml:lang="en"><a title="t" xlink:title="u" xlink:show="new" show="s">k</a></svg>`,
		`<math><mi href="a" xlink:href="b" xml:space="preserve" space="x">x</mi></math>`, `<svg><image xlink:href="a" href="b2" xml:base="/b" base="c"></image></svg>`, `<p lang="de" xml:lang="en">html</p>`,
		`<html-view>x</html-view><p>y</p>`, `<htmlx a="b">k</htmlx>`,
		`<noscript><img src="x"></noscript>`, `<div><noscript><p>a &amp; b</p><a href="/nojs?a=1&amp;b=2">l</a></noscript></div>`, `<noscript>plain &lt;text&gt;</noscript>`,
		`<p>Note: <noscript>use &lt;b&gt;bold&lt;/b&gt;</noscript> now</p>`, `<noscript>allow &lt;script&gt; &amp;amp; reload</noscript>`, `<pre>a <noscript>&lt;i&gt;</noscript></pre>`, `<div><noscript>t &amp;lt; u<b>e</b></noscript></div>`,
		`<pre><script>if (a<b) x</script></pre>`, `<pre><style>p > q {}</style></pre>`, `<div><pre>a <script>var s = "<b>";</script> b</pre></div>`,
	} {
		emit(&c02Case{Part: "text", Src: src})
	}
	// (iv) documents
	bodies := []string{"<p>t</p>", "<div class=\"a\"><span>x</span></div>", "t", "<p>&amp;</p><hr>", "<table><tr><td>x</td></tr></table>", "<script>var a = 1 < 2;</script><p>x</p>"}
	heads := []string{"", "<title>T</title>", "<title>a &amp; b</title><style>p{color:red}</style>", `<meta charset="utf-8"><link rel="x" href="y">`}
	// document shapes: what surrounds and separates the parts of the document
	type shape struct{ name, pre, sep, bodyAttr, post string }
	shapes := []shape{
		{"plain", "", "", "", ""},
		{"pretty", "", "\n", "", "\n"},
		{"body-attr", "", "", ` class="main" id="b"`, ""},
		{"trailing-comment", "", "\n", "", "\n<!-- generated -->\n"},
		{"trailing-comment-tight", "", "", "", "<!-- g -->"},
		{"leading-comment", "<!-- lead -->\n", "", "", ""},
		{"leading-ws", "\n  ", "", "", "  \n\n"},
		{"both-comments", "<!-- a -->", "\n", ` class="main"`, "<!-- b -->"},
	}
	for _, sh := range shapes {
		for _, dt := range []string{"", "<!DOCTYPE html>", "<!doctype html>\n"} {
			for _, h := range heads {
				for _, b := range bodies {
					for _, lang := range []string{"", ` lang="en"`} {
						src := sh.pre + dt + sh.sep + "<html" + lang + ">" + sh.sep + "<head>" + h + "</head>" + sh.sep + "<body" + sh.bodyAttr + ">" + b + "</body>" + sh.sep + "</html>" + sh.post
						emit(&c02Case{Part: "doc", Shape: sh.name, Src: src})
					}
				}
			}
		}
	}
	// documents whose end tags are omitted or written in upper case (both legal HTML)
	for _, dt := range []string{"", "<!DOCTYPE html>"} {
		for _, b := range bodies {
			for _, lang := range []string{"", ` lang="en"`} {
				emit(&c02Case{Part: "doc", Shape: "no-end-tags", Src: dt + "<html" + lang + "><head><title>T</title></head><body class=\"m\">" + b})
				emit(&c02Case{Part: "doc", Shape: "upper-case", Src: dt + "<HTML" + lang + "><HEAD><TITLE>T</TITLE></HEAD><BODY CLASS=\"m\">" + b + "</BODY></HTML>"})
				emit(&c02Case{Part: "doc", Shape: "no-html-end", Src: dt + "<html" + lang + "><head><title>T</title></head><body class=\"m\">" + b + "</body>"})
			}
		}
	}
	// (v) interpolation
	neigh := []string{"", "a ", "&amp; ", "&lt;", " b", "&lt;b&gt; ", "x;", "p  q&#10;"}
	plainEmit := emit
	emit = func(cs core.Case) {
		plainEmit(cs)
		if c, ok := cs.(*c02Case); ok && (c.Part == "interp-text" || c.Part == "interp-attr" || c.Part == "bound") {
			d := *c
			d.After = "failure"
			plainEmit(&d)
		}
	}
	for _, vn := range c02ValueNames {
		for _, l := range neigh {
			for _, r := range neigh {
				emit(&c02Case{Part: "interp-text", Val: vn, L: l, R: r, Src: fmt.Sprintf(`<div><p id="s">%s{{ v }}%s</p></div>`, l, r)})
				emit(&c02Case{Part: "interp-attr", Val: vn, L: l, R: r, Src: fmt.Sprintf(`<div><p id="s" title="%s{{ v }}%s">k</p></div>`, l, r)})
				emit(&c02Case{Part: "interp-text", Val: vn, L: l, R: r, Src: fmt.Sprintf(`<ul><li v-for="i in one" id="s">%s{{ v }}%s</li></ul>`, l, r)})
			}
		}
		for _, k := range []int{2, 3, 4, 5, 6, 7, 8} {
			// the sink among k static attributes (evaluated values are appended to attribute slices of every capacity)
			extra := ""
			for j := 0; j < k; j++ {
				extra += fmt.Sprintf(` data-a%d="%d"`, j, j)
			}
			emit(&c02Case{Part: "interp-attr", Val: vn, Src: `<div><p id="s"` + extra + ` title="{{ v }}">k</p></div>`})
			emit(&c02Case{Part: "bound", Val: vn, Src: `<div><p id="s"` + extra + ` :title="v">k</p></div>`})
			emit(&c02Case{Part: "vhtml", Val: vn, Src: `<div id="s"` + extra + ` v-html="v"></div>`})
		}
		emit(&c02Case{Part: "bound", Val: vn, Src: `<div><p id="s" :title="v">k</p></div>`})
		emit(&c02Case{Part: "bound", Val: vn, Src: `<div><p id="s" v-bind:title="v" class="c">k</p></div>`})
		emit(&c02Case{Part: "vhtml", Val: vn, Src: `<div id="s" v-html="v"></div>`})
		emit(&c02Case{Part: "vtext", Val: vn, Src: `<pre id="s" v-text="v"></pre>`})
		emit(&c02Case{Part: "vtext", Val: vn, Src: `<div><textarea id="s" v-text="v">old</textarea></div>`})
		emit(&c02Case{Part: "vhtml", Val: vn, Src: `<section><div id="s" class="k" v-html="v">old</div></section>`})
	}
}

func init() {
	core.Register(&core.Check{
		ID:    "C02",
		Level: "exploration",
		Rule: "directive-free templates generated from a grammar (block/inline/void/table/raw-text elements, text, comments; attribute and text sweeps with character references; full documents with/without doctype), kept only when parser-stable; " +
			"oracle: normalised DOM of parse(render(t)) equals that of parse(t). Interpolation: every value x static neighbours x {text, attr, bound attr, v-html}; oracle: parsed text/attribute = neighbours + string form, v-html verbatim; every interpolation case also right after a render that failed in the middle of a text node / attribute value. " +
			"non-trivial = parser-stable template or interpolation case; distinct = distinct source text (+value)",
		Bounds:      map[string]string{"quick": "all forests of <=3 nodes over 23 node labels, depth <=3; full attribute/text/document/interpolation sweeps", "thorough": "all forests of <=4 nodes; same sweeps"},
		Assumptions: []string{"golang.org/x/net/html is a faithful HTML5 parser", "whitespace-only text, comments, whitespace runs in text and leading/trailing whitespace of attribute values are insignificant"},
		Decode:      core.DecodeAs[c02Case](),
		Enumerate:   c02Enumerate,
	})
}
