package checks

import (
	"fmt"
	"reflect"
	"sort"
	"strconv"
	"strings"
	"sync"
	"time"

	"github.com/titpetric/vuego"
	"github.com/titpetric/vuego/zverif/vsync"

	"verif/engine/core"
)

// C17: the variable stack is a faithful scope stack with Go-like path resolution.

type c17Root struct {
	F string // no tag: addressed as F
	G string `json:"g"`
	a string //nolint:unused
}

// c17RootEmb: the same fields, promoted from an embedded struct
type c17RootEmb struct {
	c17Root
	Own int
}

type c17Case struct {
	Part string `json:"part"` // history | path
	// history
	Root   string   `json:"root,omitempty"` // nil | map | struct | ptr
	Prefix []string `json:"prefix,omitempty"`
	Depth  int      `json:"depth,omitempty"`
	// path
	Value string `json:"value,omitempty"` // value shape descriptor
}

func (c *c17Case) Key() string { return core.KeyOf(c) }

var c17Ops = []string{"pushnil", "pushA", "pushB", "pop", "setA", "setB", "setF", "setg", "copy", "swap", "setAnil", "pushgnil", "pushShared"}

// c17Nil models a binding whose value is nil: the name is bound (it shadows outer bindings
// and struct fields), its value is nothing.
const c17Nil = "\x00nil"

var c17Names = []string{"a", "b", "F", "g", "zz", "G"}

// reference model
type c17Model struct {
	scopes []map[string]string
	root   map[string]string // struct-field fallback (lowest)
}

func (m *c17Model) clone() *c17Model {
	n := &c17Model{root: m.root}
	for _, s := range m.scopes {
		c := map[string]string{}
		for k, v := range s {
			c[k] = v
		}
		n.scopes = append(n.scopes, c)
	}
	return n
}

func (m *c17Model) lookup(name string) (string, bool) {
	for i := len(m.scopes) - 1; i >= 0; i-- {
		if v, ok := m.scopes[i][name]; ok {
			return v, true
		}
	}
	v, ok := m.root[name]
	return v, ok
}

func (m *c17Model) flat() map[string]string {
	out := map[string]string{}
	for k, v := range m.root {
		out[k] = v
	}
	for _, s := range m.scopes {
		for k, v := range s {
			out[k] = v
		}
	}
	return out
}

func c17New(root string) (*vuego.Stack, *c17Model) {
	m := &c17Model{root: map[string]string{}}
	switch root {
	case "nil":
		m.scopes = []map[string]string{{}}
		return vuego.NewStack(nil), m
	case "map":
		m.scopes = []map[string]string{{"a": "rootA", "g": "rootg"}}
		return vuego.NewStack(map[string]any{"a": "rootA", "g": "rootg"}), m
	case "typedmap":
		// root data that is a map, but not a map[string]any: its keys are the fallback
		m.root = map[string]string{"F": "fieldF", "g": "fieldG"}
		m.scopes = []map[string]string{{"a": "rootA"}}
		return vuego.NewStackWithData(map[string]any{"a": "rootA"}, map[string]string{"F": "fieldF", "g": "fieldG"}), m
	case "embedded":
		m.root = map[string]string{"F": "fieldF", "g": "fieldG", "G": "fieldG"}
		m.scopes = []map[string]string{{"a": "rootA"}}
		return vuego.NewStackWithData(map[string]any{"a": "rootA"}, c17RootEmb{c17Root: c17Root{F: "fieldF", G: "fieldG"}, Own: 1}), m
	case "struct", "ptr":
		r := c17Root{F: "fieldF", G: "fieldG"}
		m.root = map[string]string{"F": "fieldF", "g": "fieldG", "G": "fieldG"}
		m.scopes = []map[string]string{{"a": "rootA"}}
		var d any = r
		if root == "ptr" {
			d = &r
		}
		return vuego.NewStackWithData(map[string]any{"a": "rootA"}, d), m
	}
	panic(root)
}

func c17Observe(s *vuego.Stack) string {
	var parts []string
	env := s.EnvMap()
	for _, n := range c17Names {
		v, ok := s.Lookup(n)
		rv, rok := s.Resolve(n)
		gs, gok := s.GetString(n)
		ev, eok := env[n]
		if n == "G" {
			// the Go name of a JSON-tagged field is reachable by Lookup but not a key of the
			// environment (recorded finding of C08): observed through Lookup/Resolve/GetString only
			ev, eok = nil, false
		}
		parts = append(parts, fmt.Sprintf("%s:L=%v,%v R=%v,%v S=%v,%v E=%v,%v", n, v, ok, rv, rok, gs, gok, ev, eok))
	}
	return strings.Join(parts, " | ")
}

func c17Expect(m *c17Model) string {
	var parts []string
	flat := m.flat()
	for _, n := range c17Names {
		v, ok := m.lookup(n)
		var lv any
		if ok && v != c17Nil {
			lv = v
		}
		gs, gok := "", ok
		if ok && v != c17Nil {
			gs = v
		} else {
			gok = false // GetString of a nil value reports no string
		}
		ev, eok := flat[n]
		var evv any
		if eok && ev != c17Nil {
			evv = ev
		}
		if n == "G" {
			evv, eok = nil, false
		}
		parts = append(parts, fmt.Sprintf("%s:L=%v,%v R=%v,%v S=%v,%v E=%v,%v", n, lv, ok, lv, ok, gs, gok, evv, eok))
	}
	return strings.Join(parts, " | ")
}

func (c *c17Case) runHistory(ctx *core.Ctx) {
	ctx.NonTrivial()
	seen := map[string]bool{}
	var rec func(ops []string)
	rec = func(ops []string) {
		vsync.ResetAllPools()
		st, model := c17New(c.Root)
		var other *vuego.Stack
		var otherModel *c17Model
		// a map owned by the caller, pushed as a scope (possibly several times); its model twin
		shared := map[string]any{"b": "sharedB"}
		sharedModel := map[string]string{"b": "sharedB"}
		var sharedOwner *vuego.Stack // the caller uses its map with one stack only (aliasing it between two stacks is the caller's doing)
		otherObs := ""
		defined := true
		for i, op := range ops {
			val := fmt.Sprintf("%s%d", op, i)
			switch op {
			case "pushnil":
				st.Push(nil)
				model.scopes = append(model.scopes, map[string]string{})
			case "pushA":
				st.Push(map[string]any{"a": val})
				model.scopes = append(model.scopes, map[string]string{"a": val})
			case "pushB":
				st.Push(map[string]any{"b": val, "g": val})
				model.scopes = append(model.scopes, map[string]string{"b": val, "g": val})
			case "pop":
				if len(model.scopes) <= 1 {
					defined = false // pop without a matching push
				}
				st.Pop()
				model.scopes = model.scopes[:len(model.scopes)-1]
				if len(model.scopes) == 0 {
					model.scopes = []map[string]string{{}}
				}
			case "setA":
				st.Set("a", val)
				model.scopes[len(model.scopes)-1]["a"] = val
			case "setB":
				st.Set("b", val)
				model.scopes[len(model.scopes)-1]["b"] = val
			case "setF":
				st.Set("F", val)
				model.scopes[len(model.scopes)-1]["F"] = val
			case "setg":
				st.Set("g", val)
				model.scopes[len(model.scopes)-1]["g"] = val
			case "pushShared":
				// the caller's map becomes the top scope: Set writes into it, Pop must leave it alone
				if sharedOwner != nil && sharedOwner != st {
					return
				}
				sharedOwner = st
				st.Push(shared)
				model.scopes = append(model.scopes, sharedModel)
			case "setAnil":
				st.Set("a", nil)
				model.scopes[len(model.scopes)-1]["a"] = c17Nil
			case "pushgnil":
				st.Push(map[string]any{"g": nil, "F": nil})
				model.scopes = append(model.scopes, map[string]string{"g": c17Nil, "F": c17Nil})
			case "copy":
				if other != nil {
					return // one copy per history
				}
				other, otherModel = st, model
				st = st.Copy()
				model = &c17Model{root: model.root, scopes: []map[string]string{otherModel.flat()}}
				// the copy's flattened scope contains the struct fields as ordinary bindings
				otherObs = c17Observe(other)
			case "swap":
				if other == nil {
					return
				}
				st, other = other, st
				model, otherModel = otherModel, model
				otherObs = c17Observe(other)
			}
			ctx.Eval(1)
			ctx.Transition(1)
			if !defined {
				ctx.Zone("pop-without-matching-push")
				return
			}
			if len(shared) != len(sharedModel) {
				ctx.Violation("caller-map-modified", "root-"+c.Root, opsClass(ops[:i+1]), fmt.Sprintf("history %v: the map the caller pushed now holds %v, expected %v", ops[:i+1], shared, sharedModel))
				return
			}
			got, want := c17Observe(st), c17Expect(model)
			if got != want {
				ctx.Violation("stack-model", "root-"+c.Root, opsClass(ops[:i+1]), fmt.Sprintf("history %v (root %s): step %d\n got: %s\nwant: %s", ops[:i+1], c.Root, i, got, want))
				return
			}
			if other != nil {
				if o := c17Observe(other); o != otherObs {
					ctx.Violation("copy-not-independent", "root-"+c.Root, opsClass(ops[:i+1]), fmt.Sprintf("history %v: the other stack changed\n was: %s\n now: %s", ops[:i+1], otherObs, o))
					return
				}
			}
		}
		key := c17Observe(st) + fmt.Sprint(len(model.scopes), other != nil)
		if !seen[key] {
			seen[key] = true
			ctx.State(1)
		}
		if len(ops) >= c.Depth {
			return
		}
		for _, op := range c17Ops {
			rec(append(append([]string{}, ops...), op))
		}
	}
	rec(c.Prefix)
	ctx.Outcome(fmt.Sprint(len(seen)))
}

func opsClass(ops []string) string {
	n := len(ops)
	return strings.Join(ops[max(0, n-2):], ">")
}

// ---- path part

type c17Path struct {
	Field  any
	Tagged any `json:"tag"`
	priv   int
}

var c17Leaves = []string{"str", "mapss", "ints", "array", "nilptr", "int", "mapsi", "ints12"}
var c17Nest = []string{"mapany", "sliceany", "struct", "ptr", "ptrptr", "mapstruct", "ptrmap", "ptrslice", "embed", "clash", "hidden", "embedptr", "embedptrnil", "mapnamed", "shadowtag", "owntag"}

// c17ShadowTag: an unexported field has the name that is the JSON tag of an exported one
type c17ShadowTag struct {
	tag   string
	Field any `json:"tag"`
}

// c17OwnTag: the struct's own field carries a tag that a field of the embedded struct (declared
// first) carries too: the own field is the one the tag means (as for encoding/json)
type c17OwnTag struct {
	c17Path
	Mine any `json:"tag"`
}

// c17Hidden: a field tagged json:"-" has no tag name ("-" is not one); its Go name reaches it.
type c17Hidden struct {
	Secret any `json:"-"`
	Field  any `json:"tag"`
}

// c17Clash: the JSON tag of one field is spelled like the Go name of a later field. A step
// "Field" is the Go field Field (what x.Field reaches); "tag" reaches it through its tag.
type c17Clash struct {
	Display any `json:"Field"`
	Field   any `json:"tag"`
}

// c17Outer embeds c17Path: Field and Tagged (json:"tag") are promoted fields
type c17Outer struct {
	c17Path
	Own string `json:"own"`
}

// c17OuterPtr embeds a pointer to c17Path: its fields are promoted like those of an embedded value
type c17OuterPtr struct {
	*c17Path
	Own string `json:"own"`
}

// build value from a descriptor like "mapany>sliceany>str"
func c17Build(desc string) any {
	parts := strings.Split(desc, ">")
	var v any
	switch parts[len(parts)-1] {
	case "str":
		v = "leaf"
	case "int":
		v = 42
	case "mapss":
		v = map[string]string{"k": "ms", "Field": "fs", "0": "zero-key"}
	case "mapsi": // a typed map whose keys look like numbers
		v = map[string]int{"k": 5, "0": 6, "1": 7, "-1": 8}
	case "ints":
		v = []int{7, 8}
	case "ints12": // indices of more than one digit
		v = []int{100, 101, 102, 103, 104, 105, 106, 107, 108, 109, 110, 111}
	case "array":
		v = [2]string{"a0", "a1"}
	case "nilptr":
		var p *c17Path
		v = p
	}
	for i := len(parts) - 2; i >= 0; i-- {
		switch parts[i] {
		case "mapany":
			v = map[string]any{"k": v, "tag": "maptag", "1": "one-key", "x.y": "dotted-key", "x": map[string]any{"y": "x-then-y"}, "a b": "spaced-key", "ab": "compact-key"}
		case "sliceany":
			v = []any{v, "second"}
		case "struct":
			v = c17Path{Field: v, Tagged: v, priv: 1}
		case "ptr":
			v = &c17Path{Field: v, Tagged: "tg", priv: 2}
		case "ptrptr":
			p := &c17Path{Field: v, Tagged: "tg2"}
			v = &p
		case "ptrmap":
			m := map[string]any{"k": v}
			v = &m
		case "ptrslice":
			sl := []any{v, "second"}
			pp := &sl
			v = &pp
		case "clash":
			v = c17Clash{Display: "display", Field: v}
		case "hidden":
			v = c17Hidden{Secret: "secret", Field: v}
		case "embedptr":
			v = c17OuterPtr{c17Path: &c17Path{Field: v, Tagged: v}, Own: "o"}
		case "embedptrnil":
			v = &c17OuterPtr{Own: "o"}
		case "embed":
			v = c17Outer{c17Path: c17Path{Field: v, Tagged: v}, Own: "o"}
		case "mapnamed": // a map whose key type is a named string type (type Lang string)
			v = map[vNamedStr]any{"k": v, "tag": "namedtag", "0": "zero-key"}
		case "shadowtag":
			v = c17ShadowTag{tag: "hidden", Field: v}
		case "owntag":
			v = c17OwnTag{c17Path: c17Path{Field: "promoted-field", Tagged: "promoted-tag"}, Mine: v}
		case "mapstruct":
			v = map[string]c17Path{"k": {Field: v}, "0": {Field: "zero-key"}}
		}
	}
	return v
}

// (the last three: 2^64, 2^64+1 and 2^63 - indexes that wrap around to 0, 1 and a negative number in 64-bit arithmetic)
var c17Steps = []string{"k", "0", "1", "9", "10", "-1", "Field", "tag", "priv", "Tagged", "x.y", "a b", "ab", "-", "Secret", "18446744073709551616", "18446744073709551617", "9223372036854775808"}

// refStep is ordinary Go indexing: (value, ok, defined)
func refStep(cur any, step string) (any, bool, bool) {
	if cur == nil {
		return nil, false, true
	}
	rv := reflect.ValueOf(cur)
	for rv.Kind() == reflect.Ptr {
		if rv.IsNil() {
			return nil, false, true
		}
		rv = rv.Elem()
	}
	switch rv.Kind() {
	case reflect.Map:
		if rv.Type().Key().Kind() != reflect.String {
			return nil, false, false
		}
		e := rv.MapIndex(reflect.ValueOf(step).Convert(rv.Type().Key()))
		if !e.IsValid() {
			return nil, false, true
		}
		return e.Interface(), true, true
	case reflect.Slice, reflect.Array:
		i, err := strconv.Atoi(step)
		if err != nil || i < 0 || i >= rv.Len() {
			return nil, false, true
		}
		return rv.Index(i).Interface(), true, true
	case reflect.Struct:
		// the fields Go itself lets a selector reach: own fields and the promoted fields of embedded
		// structs. A Go field name wins over a JSON tag spelled the same way.
		// An unexported field is not reachable: its name is free to be the tag of an exported one.
		// Of two fields with the same tag the shallower one is meant (the struct's own before a promoted one).
		for pass := 0; pass < 2; pass++ {
			var best *reflect.StructField
			for _, f := range reflect.VisibleFields(rv.Type()) {
				tag := strings.Split(f.Tag.Get("json"), ",")[0]
				if tag == "-" {
					tag = "" // json:"-" excludes the field from tag addressing
				}
				if f.Anonymous && f.Name != step {
					continue
				}
				if !f.IsExported() {
					continue
				}
				if (pass == 0 && f.Name == step) || (pass == 1 && tag != "" && tag == step) {
					if best == nil || len(f.Index) < len(best.Index) {
						f := f
						best = &f
					}
				}
			}
			if best != nil {
				fv, err := rv.FieldByIndexErr(best.Index)
				if err != nil {
					return nil, false, true
				}
				return fv.Interface(), true, true
			}
		}
		return nil, false, true
	}
	return nil, false, true
}

// c17Cold: paths that differ only in their spelling (blanks, quotes, brackets), resolved in a
// fixed order the first time a process comes here - the engine remembers how it split the first
// few hundred paths it sees, process-wide, so what one spelling left behind is what the next one
// finds. The pairs are asked in both orders (with different keys, since each path can be the
// first of its kind only once).
var c17Cold sync.Once

func c17ColdProbe(ctx *core.Ctx) {
	m := map[string]any{"a b": "spaced", "ab": "compact", "cd": "compact2", "c d": "spaced2", "x.y": "dotted", "x": map[string]any{"y": "nested"}, "0": "zero-key",
		"e f": map[string]any{"g": "deep-spaced"}, "ef": map[string]any{"g": "deep-compact"}}
	st := vuego.NewStack(map[string]any{"r": m, "l": []any{"first", "second"}})
	for _, q := range []struct{ path, want string }{
		{"r['a b']", "spaced"}, {"r.ab", "compact"}, {"r['ab']", "compact"}, {"r[ 'a b' ]", "spaced"},
		{"r.cd", "compact2"}, {"r['c d']", "spaced2"}, {"r[ 'cd' ]", "compact2"},
		{"r['x.y']", "dotted"}, {"r.x.y", "nested"}, {"r[ 'x.y' ]", "dotted"}, {"r . x . y", "nested"},
		{"r.ef.g", "deep-compact"}, {"r['e f'].g", "deep-spaced"}, {"r['e f']['g']", "deep-spaced"}, {"r['ef']['g']", "deep-compact"},
		{"l[0]", "first"}, {"l[ 0 ]", "first"}, {"l[1]", "second"}, {"l[ 1 ]", "second"}, {"r['0']", "zero-key"}, {"r[0]", "zero-key"},
	} {
		// (twice: the second answer comes from what the first one left in the cache)
		for round := 0; round < 2; round++ {
			ctx.Eval(1)
			got, ok := st.Resolve(q.path)
			if !ok || got != any(q.want) {
				ctx.Violation("path-resolution", "spelling", "first-paths-of-a-process", fmt.Sprintf("in a process that has resolved few paths so far, %q gives (%#v, %v) when asked for the %s time, want %q", q.path, got, ok, []string{"first", "second"}[round], q.want))
			}
		}
	}
	// a name in brackets is a variable: the same path text with another value of that variable
	vs := vuego.NewStack(map[string]any{"l": []any{"first", "second"}, "m": map[string]any{"a": "ma", "b": "mb"}, "i": 0, "k": "a"})
	for _, step := range []struct {
		i    int
		k    string
		l, m string
	}{{0, "a", "first", "ma"}, {1, "b", "second", "mb"}, {0, "b", "first", "mb"}} {
		vs.Set("i", step.i)
		vs.Set("k", step.k)
		ctx.Eval(2)
		if got, ok := vs.Resolve("l[i]"); !ok || got != any(step.l) {
			ctx.Violation("path-resolution", "spelling", "variable-index-changes", fmt.Sprintf("l[i] with i=%d gives (%#v, %v), want %q", step.i, got, ok, step.l))
		}
		if got, ok := vs.Resolve("m[k]"); !ok || got != any(step.m) {
			ctx.Violation("path-resolution", "spelling", "variable-index-changes", fmt.Sprintf("m[k] with k=%q gives (%#v, %v), want %q", step.k, got, ok, step.m))
		}
	}
	// the variable's value is the key as it is: with dots, blanks, as a float
	ks := vuego.NewStack(map[string]any{"hosts": map[string]any{"example.com": "dotted", "example": map[string]any{"com": "WRONG"}, " pad ": "padded", "pad": "WRONG", "1.5": "float", "1": map[string]any{"5": "WRONG"}, "a b": "spaced"}, "k": ""})
	for _, kv := range []struct {
		k    any
		want string
	}{{"example.com", "dotted"}, {" pad ", "padded"}, {1.5, "float"}, {"a b", "spaced"}, {"example.com", "dotted"}} {
		ks.Set("k", kv.k)
		ctx.Eval(1)
		if got, ok := ks.Resolve("hosts[k]"); !ok || got != any(kv.want) {
			ctx.Violation("path-resolution", "spelling", "variable-index-value-taken-apart", fmt.Sprintf("hosts[k] with k=%#v gives (%#v, %v), want %q", kv.k, got, ok, kv.want))
		}
	}
}

func (c *c17Case) runPath(ctx *core.Ctx) {
	val := c17Build(c.Value)
	st := vuego.NewStack(map[string]any{"r": val})
	ctx.NonTrivial()
	// white space around a lone name is not part of it
	for _, p := range []string{" r ", "r ", " r", "\tr\n"} {
		ctx.Eval(1)
		if got, ok := st.Resolve(p); !ok || fmt.Sprintf("%#v", got) != fmt.Sprintf("%#v", val) {
			ctx.Violation("path-resolution", "padded-name", "lone-name", fmt.Sprintf("value %s path %q: got (%#v, %v) want (%#v, true)", c.Value, p, got, ok, val))
		}
	}
	var rec func(steps []string)
	check := func(steps []string) {
		// reference
		cur, ok, defined := any(val), true, true
		for _, s := range steps {
			var d bool
			cur, ok, d = refStep(cur, s)
			if !d {
				defined = false
			}
			if !ok {
				break
			}
		}
		if !defined {
			ctx.Zone("non-string-map-key")
			return
		}
		if ok && cur == nil {
			ctx.Zone("present-nil-value")
			return
		}
		if ok && isNilPtr(cur) {
			ctx.Zone("present-nil-value")
			return
		}
		hasDot := false
		for _, s := range steps {
			if strings.Contains(s, ".") {
				hasDot = true
			}
		}
		for _, syn := range []string{"dotted", "mixed", "quoted"} {
			if hasDot && syn != "quoted" {
				continue // a key that contains a dot can only be written in brackets
			}
			p := "r"
			for _, s := range steps {
				_, numErr := strconv.Atoi(s)
				switch {
				case syn == "dotted":
					p += "." + s
				case syn == "mixed" && numErr == nil:
					p += "[" + s + "]"
				case syn == "mixed":
					p += "." + s
				case numErr == nil:
					p += "[" + s + "]"
				default:
					p += "['" + s + "']"
				}
			}
			ctx.Eval(1)
			got, gok := st.Resolve(p)
			if gok != ok || (ok && fmt.Sprintf("%#v", got) != fmt.Sprintf("%#v", cur)) {
				ctx.Violation("path-resolution", syn+"/"+kindChain(val, steps), stepClass(steps), fmt.Sprintf("value %s path %q: got (%#v, %v) want (%#v, %v)", c.Value, p, got, gok, cur, ok))
				continue
			}
			if syn != "dotted" {
				continue
			}
			// the typed accessors and ForEach agree with Resolve on the same path
			kc := kindChain(val, steps)
			gs, gsok := st.GetString(p)
			if !ok && gsok {
				ctx.Violation("accessor", "GetString/"+kc, "absent-path", fmt.Sprintf("value %s path %q: Resolve absent but GetString = %q, true", c.Value, p, gs))
			}
			if ok {
				rv := reflect.ValueOf(cur)
				// a pointer to a collection is a collection for a loop, as it is for an index step
				for rv.IsValid() && rv.Kind() == reflect.Ptr && !rv.IsNil() && (rv.Elem().Kind() == reflect.Ptr || rv.Elem().Kind() == reflect.Slice || rv.Elem().Kind() == reflect.Array || rv.Elem().Kind() == reflect.Map) {
					rv = rv.Elem()
				}
				switch rv.Kind() {
				case reflect.String:
					if !gsok || gs != rv.String() {
						ctx.Violation("accessor", "GetString/"+kc, "string", fmt.Sprintf("value %s path %q: GetString = %q, %v; Resolve gives %#v", c.Value, p, gs, gsok, cur))
					}
				case reflect.Int, reflect.Int8, reflect.Int16, reflect.Int32, reflect.Int64:
					if gi, giok := st.GetInt(p); !giok || int64(gi) != rv.Int() {
						ctx.Violation("accessor", "GetInt/"+kc, "int", fmt.Sprintf("value %s path %q: GetInt = %d, %v; Resolve gives %#v", c.Value, p, gi, giok, cur))
					}
					if !gsok || gs != fmt.Sprint(cur) {
						ctx.Violation("accessor", "GetString/"+kc, "int", fmt.Sprintf("value %s path %q: GetString = %q, %v; Resolve gives %#v", c.Value, p, gs, gsok, cur))
					}
				case reflect.Slice, reflect.Array:
					var seen []string
					_ = st.ForEach(p, func(i int, v any) error {
						seen = append(seen, fmt.Sprintf("%d=%#v", i, v))
						return nil
					})
					var want []string
					for i := 0; i < rv.Len(); i++ {
						want = append(want, fmt.Sprintf("%d=%#v", i, rv.Index(i).Interface()))
					}
					if strings.Join(seen, ",") != strings.Join(want, ",") {
						ctx.Violation("accessor", "ForEach/"+kc, "sequence", fmt.Sprintf("value %s path %q: ForEach visits %v, the value is %#v", c.Value, p, seen, cur))
					}
					if rv.Kind() == reflect.Slice {
						if sl, slok := st.GetSlice(p); !slok || len(sl) != rv.Len() {
							ctx.Violation("accessor", "GetSlice/"+kc, "slice", fmt.Sprintf("value %s path %q: GetSlice = %v, %v; the value is %#v", c.Value, p, sl, slok, cur))
						}
					}
				case reflect.Map:
					if m, isAny := rv.Interface().(map[string]any); isAny && rv.Type() == reflect.TypeOf(cur) {
						if gm, gmok := st.GetMap(p); !gmok || len(gm) != len(m) {
							ctx.Violation("accessor", "GetMap/"+kc, "map", fmt.Sprintf("value %s path %q: GetMap = %v, %v; the value is %#v", c.Value, p, gm, gmok, cur))
						}
					}
					n := 0
					_ = st.ForEach(p, func(i int, v any) error { n++; return nil })
					if n != rv.Len() {
						ctx.Violation("accessor", "ForEach/"+kc, "map", fmt.Sprintf("value %s path %q: ForEach visits %d entries of %d", c.Value, p, n, rv.Len()))
					}
				}
			}
		}
	}
	rec = func(steps []string) {
		if len(steps) > 0 {
			check(steps)
		}
		if len(steps) == 3 {
			return
		}
		for _, s := range c17Steps {
			rec(append(append([]string{}, steps...), s))
		}
	}
	rec(nil)
}

func isNilPtr(v any) bool {
	rv := reflect.ValueOf(v)
	return rv.Kind() == reflect.Ptr && rv.IsNil()
}

// kindChain names the container kinds the path walks through (for signatures).
func kindChain(val any, steps []string) string {
	var ks []string
	cur := val
	for _, s := range steps {
		if cur == nil {
			ks = append(ks, "nil")
			break
		}
		ks = append(ks, reflect.TypeOf(cur).Kind().String())
		next, ok, _ := refStep(cur, s)
		if !ok {
			break
		}
		cur = next
	}
	return strings.Join(ks, ">")
}

func stepClass(steps []string) string {
	var cs []string
	for _, s := range steps {
		switch s {
		case "0", "1":
			cs = append(cs, "idx")
		case "9":
			cs = append(cs, "idx-oob")
		case "-1":
			cs = append(cs, "idx-neg")
		case "priv":
			cs = append(cs, "unexported")
		case "tag":
			cs = append(cs, "json-tag")
		case "Field", "Tagged":
			cs = append(cs, "field")
		default:
			cs = append(cs, "key")
		}
	}
	return strings.Join(cs, ".")
}

// ---- deep part: the merged environment of struct root data agrees with Resolve all the way down

type c17User struct {
	Name string     `json:"name"`
	Boss *c17User   `json:"boss"`
	Tags []string   `json:"tags"`
	Seen *time.Time `json:"seen"`
}

type c17Page struct {
	Author   *c17User  `json:"author"`
	Editor   *c17User  `json:"editor"`
	Reviewer *c17User  `json:"reviewer"`
	Nobody   *c17User  `json:"nobody"`
	Owner    c17User   `json:"owner"`
	When     time.Time `json:"when"`
}

type c17Deep struct {
	Page  c17Page  `json:"page"`
	Again *c17Page `json:"again"`
	Title string   `json:"title"`
}

// c17DeepRoot builds root data whose pointers are shared (a DAG), distinct, nil or cyclic.
func c17DeepRoot(shape string) c17Deep {
	ts := time.Date(2024, 3, 1, 0, 0, 0, 0, time.UTC)
	ann := &c17User{Name: "Ann", Tags: []string{"x"}, Seen: &ts}
	bob := &c17User{Name: "Bob", Boss: ann}
	d := c17Deep{Title: "T", Page: c17Page{Author: ann, Editor: bob, Reviewer: &c17User{Name: "Rev"}, Owner: c17User{Name: "Own"}, When: ts}}
	switch shape {
	case "shared": // the same pointer under two fields, and once more one level down
		d.Page.Editor = ann
		d.Page.Reviewer = ann
	case "shared-page": // a pointer to a struct that also appears by value
		pg := d.Page
		d.Again = &pg
	case "cycle":
		ann.Boss = bob // ann -> bob -> ann
	case "self":
		ann.Boss = ann
	}
	return d
}

var c17DeepPaths = []string{"title", "page.author.name", "page.editor.name", "page.reviewer.name", "page.nobody", "page.owner.name", "page.editor.boss.name", "page.author.tags", "page.author.boss", "again.author.name", "again.editor.name", "again.owner.name", "page.reviewer.boss.name", "page.when", "page.author.seen", "again.when"}

func (c *c17Case) runDeep(ctx *core.Ctx) {
	ctx.NonTrivial()
	root := c17DeepRoot(c.Value)
	var data any = root
	if c.Root == "ptr" {
		data = &root
	}
	st := vuego.NewStackWithData(map[string]any{}, data)
	walk := func(env map[string]any, p string) (any, bool) {
		var cur any = env
		for _, step := range strings.Split(p, ".") {
			m, ok := cur.(map[string]any)
			if !ok {
				return nil, false
			}
			cur, ok = m[step]
			if !ok {
				return nil, false
			}
		}
		return cur, true
	}
	leaf := func(v any) string {
		switch t := v.(type) {
		case nil:
			return "<nil>"
		case string:
			return t
		case []string:
			return fmt.Sprint(t)
		case time.Time:
			return "time:" + t.Format(time.RFC3339)
		case *time.Time:
			if t == nil {
				return "<nil>"
			}
			return "time:" + t.Format(time.RFC3339)
		}
		rv := reflect.ValueOf(v)
		if rv.Kind() == reflect.Ptr && rv.IsNil() {
			return "<nil>"
		}
		if rv.Kind() == reflect.Map {
			return fmt.Sprintf("<map of %d>", rv.Len())
		}
		return fmt.Sprintf("<%s>", rv.Kind())
	}
	for _, env := range []struct {
		name string
		m    map[string]any
	}{{"EnvMap", st.EnvMap()}, {"Copy.EnvMap", st.Copy().EnvMap()}} {
		for _, p := range c17DeepPaths {
			ctx.Eval(1)
			rv, rok := st.Resolve(p)
			ev, eok := walk(env.m, p)
			// compare what a template can tell apart: presence, and the leaf's text
			if rok && leaf(rv) != "<nil>" && strings.HasPrefix(leaf(rv), "<") {
				// a struct / pointer on one side is a map on the other: compare presence only
				if !eok {
					ctx.Violation("envmap-deep", env.name+"/"+c.Value, "missing:"+p, fmt.Sprintf("Resolve(%q) finds %T, %s has nothing there", p, rv, env.name))
				}
				continue
			}
			want := "<nil>"
			if rok {
				want = leaf(rv)
			}
			got := "<nil>"
			if eok {
				got = leaf(ev)
			}
			if got != want {
				ctx.Violation("envmap-deep", env.name+"/"+c.Value, p, fmt.Sprintf("root %s (%s): Resolve(%q) = %q but walking %s gives %q", c.Value, c.Root, p, want, env.name, got))
			}
		}
	}
	// the same through a template: a path read directly and read inside an expression
	for _, p := range []string{"page.author.name", "page.editor.name", "page.reviewer.name", "page.owner.name"} {
		ctx.Eval(1)
		out, err := renderString(`<i>{{ `+p+` }}</i><b>{{ `+p+` + '' }}</b>`, data)
		rv, _ := st.Resolve(p)
		want := fmt.Sprintf("<i>%v</i><b>%v</b>", rv, rv)
		if err != nil || strings.Join(strings.Fields(out), "") != want {
			ctx.Violation("envmap-deep", "template/"+c.Value, p, fmt.Sprintf("root %s: template printed %q (err %v), want %q", c.Value, out, err, want))
		}
	}
}

func (c *c17Case) Run(ctx *core.Ctx) {
	c17Cold.Do(func() { c17ColdProbe(ctx) })
	if c.Part == "deep" {
		c.runDeep(ctx)
		return
	}
	if c.Part == "history" {
		c.runHistory(ctx)
		return
	}
	c.runPath(ctx)
}

func init() {
	core.Register(&core.Check{
		ID:    "C17",
		Level: "model_checking",
		Rule: "history part: explicit-state search over all sequences of {Push(nil), Push({a}), Push({b,g}), Pop, Set a/b/F/g, Set(a, nil), Push({g: nil, F: nil}), Push(a map the caller keeps and pushes again), Copy, swap active stack} up to the bound, for root data nil / map / struct / *struct / typed map / struct with the fields promoted from an embedded struct, replayed on a fresh Stack with a deterministic LIFO pool; after every operation Lookup, Resolve, GetString and EnvMap of 5 names (incl. a struct field name and a JSON tag) are compared with a list-of-maps reference model and the inactive copy must be unchanged. " +
			"deep part: struct root data three levels deep whose pointers are distinct, shared (a DAG), nil or cyclic: 16 paths (incl. time.Time values and pointers to them) walked through EnvMap() and Copy().EnvMap() agree with Resolve, and a template reads the same value directly and inside an expression; " +
			"path part: every path of <=3 steps over 9 step names in 3 syntaxes into every nested value of depth <=3 over 12 container/leaf kinds (incl. a struct whose JSON tag collides with a later field's Go name), against ordinary Go indexing by reflection; GetString / GetInt / GetSlice / GetMap / ForEach on the same path agree with what Resolve returned. non-trivial = all",
		Bounds:      map[string]string{"quick": "histories of <=5 operations; paths of <=3 steps into values nested <=3 deep", "thorough": "histories of <=6 operations; same paths"},
		Assumptions: []string{"Pop without a matching Push is unconstrained", "a present key whose value is nil and maps with non-string keys are unconstrained", "the Go name of a JSON-tagged root field is not queried in the history part (recorded finding of C08)"},
		Decode:      core.DecodeAs[c17Case](),
		Enumerate: func(tier string, emit func(core.Case)) {
			depth := 5
			if tier == "thorough" {
				depth = 6
			}
			for _, root := range []string{"nil", "map", "struct", "ptr", "typedmap", "embedded"} {
				for _, o1 := range c17Ops {
					for _, o2 := range c17Ops {
						emit(&c17Case{Part: "history", Root: root, Prefix: []string{o1, o2}, Depth: depth})
					}
				}
			}
			for _, shape := range []string{"plain", "shared", "shared-page", "cycle", "self"} {
				for _, root := range []string{"struct", "ptr"} {
					emit(&c17Case{Part: "deep", Value: shape, Root: root})
				}
			}
			var descs []string
			var rec func(prefix string, d int)
			rec = func(prefix string, d int) {
				for _, l := range c17Leaves {
					descs = append(descs, prefix+l)
				}
				if d == 0 {
					return
				}
				for _, n := range c17Nest {
					rec(prefix+n+">", d-1)
				}
			}
			rec("", 2)
			sort.Strings(descs)
			for _, d := range descs {
				emit(&c17Case{Part: "path", Value: d})
			}
		},
	})
}
