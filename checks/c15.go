package checks

import (
	"bytes"
	"fmt"
	"io/fs"
	"strings"
	"testing/fstest"
	"time"

	"golang.org/x/net/html"

	"github.com/titpetric/vuego"
	"github.com/titpetric/vuego/markdown"

	"verif/engine/core"
)

// C15: a long-lived engine renders what a fresh engine would after any file edits.

type c15Case struct {
	World  string   `json:"world,omitempty"` // "" = page/component/layout contents; "B" = which layout file exists; "BO" = B with the files overlaid on a layer of defaults
	Prefix []string `json:"prefix"`
	Depth  int      `json:"depth"`
}

func (c *c15Case) Key() string { return core.KeyOf(c) }

var c15FilesList = []string{"page", "comp", "lay"}
var c15Path = map[string]string{"page": "page.vuego", "comp": "comp.vuego", "lay": "layouts/lay.vuego"}

// c15Step: by how much an edit moves a file's modification time: less than a second for the page
// (a quick second save), hours for the component, one and a half seconds for the layout
var c15Step = map[string]time.Duration{"page": 400 * time.Millisecond, "comp": time.Hour, "lay": 1500 * time.Millisecond}

var c15Events = func() []string {
	var ev []string
	for _, f := range c15FilesList {
		ev = append(ev, "edit+:"+f, "edit=:"+f, "edit-:"+f)
		if f == "page" {
			// the new version has no modification time (a file system without them took the file's place)
			ev = append(ev, "edit0:"+f)
		}
	}
	for _, f := range []string{"page", "comp", "lay"} {
		ev = append(ev, "delete:"+f, "invalid:"+f)
	}
	ev = append(ev, "render:load", "render:file", "render:vue", "render:fragment", "render:vuenil")
	return ev
}()

func c15Content(f string, v int, invalid bool) string {
	if invalid {
		return "---\n: [bad\n  yaml: {\n---\n<p>broken " + f + "</p>"
	}
	// (an expression whose string literal differs between versions in the amount of white space only)
	sep := []string{" | ", "  |  ", " |  "}[v%3]
	switch f {
	case "page":
		return fmt.Sprintf("---\nlayout: lay\ntitle: T%d\n---\n<template :title=\"title + '!'\"></template><h1>{{ title }} P%d</h1><b :title=\"title + '%s'\">{{ title + '%s' }}</b><template include=\"comp.vuego\"></template><template #side><i>S%d {{ title }}</i></template>", v, v, sep, sep, v)
	case "comp":
		return fmt.Sprintf("---\ncv: CV%d\n---\n<b>C%d {{ cv }}</b>", v, v)
	case "lay":
		return fmt.Sprintf("---\nlv: LV%d\n---\n<main>L%d {{ lv }}<div v-html=\"content\"></div></main><aside><slot name=\"side\">no side</slot></aside>", v, v)
	}
	panic(f)
}

// c15Proc is registered on every engine, long-lived and fresh alike: its pre-processing step
// marks every element (appends to its class). Applied once per render to that render's own
// nodes it is invisible to the comparison; applied to nodes that live longer than a render it
// accumulates.
type c15Proc struct{}

func (c15Proc) New() vuego.NodeProcessor             { return c15Proc{} }
func (c15Proc) PostProcess(nodes []*html.Node) error { return nil }
func (c15Proc) PreProcess(nodes []*html.Node) error {
	var walk func(n *html.Node)
	walk = func(n *html.Node) {
		if n.Type == html.ElementNode && n.Data != "template" {
			found := false
			for i := range n.Attr {
				if n.Attr[i].Key == "class" {
					n.Attr[i].Val += " pp"
					found = true
				}
			}
			if !found {
				n.Attr = append(n.Attr, html.Attribute{Key: "class", Val: "pp"})
			}
		}
		for c := n.FirstChild; c != nil; c = c.NextSibling {
			walk(c)
		}
	}
	for _, n := range nodes {
		walk(n)
	}
	return nil
}

func c15Vue(fsys fs.FS) *vuego.Vue {
	v := vuego.NewVue(fsys)
	v.RegisterNodeProcessor(c15Proc{})
	return v
}

// countFS counts Open calls per path.
type countFS struct {
	m     fstest.MapFS
	opens map[string]int
}

func (c *countFS) Open(name string) (fs.File, error) {
	f, err := c.m.Open(name)
	if err != nil {
		return nil, err
	}
	return &countFile{File: f, onRead: func() { c.opens[name]++ }}, nil
}

// countFile counts a file as read when its content is actually read (Stat does not count).
type countFile struct {
	fs.File
	onRead func()
	done   bool
}

func (f *countFile) Read(p []byte) (int, error) {
	if !f.done {
		f.done = true
		f.onRead()
	}
	return f.File.Read(p)
}

type c15File struct {
	exists  bool
	invalid bool
	ver     int
	mtime   time.Time
}

type c15World struct {
	files   map[string]*c15File
	fs      *countFS            // the files (shared map)
	efs     map[string]*countFS // one counting view per long-lived engine
	nextVer int
	tpl     vuego.Template
	vue     *vuego.Vue
	// what each engine's template cache holds: engine -> file -> (mtime, content id).
	// Updated when the engine re-read the file for its cache during a render.
	held map[string]map[string]c15Held
}

type c15Held struct {
	mtime int64
	id    string
}

func newC15World() *c15World {
	w := &c15World{files: map[string]*c15File{}, fs: &countFS{m: fstest.MapFS{}, opens: map[string]int{}}, held: map[string]map[string]c15Held{"tpl": {}, "vue": {}}}
	for _, f := range c15FilesList {
		w.files[f] = &c15File{exists: true, ver: 0, mtime: baseTime}
	}
	w.nextVer = 1
	w.sync()
	w.efs = map[string]*countFS{"tpl": {m: w.fs.m, opens: map[string]int{}}, "vue": {m: w.fs.m, opens: map[string]int{}}}
	w.tpl = vuego.NewFS(w.efs["tpl"], vuego.WithProcessor(c15Proc{}))
	w.vue = c15Vue(w.efs["vue"])
	return w
}

func (w *c15World) sync() {
	for _, f := range c15FilesList {
		st := w.files[f]
		if !st.exists {
			delete(w.fs.m, c15Path[f])
			continue
		}
		w.fs.m[c15Path[f]] = &fstest.MapFile{Data: []byte(c15Content(f, st.ver, st.invalid)), ModTime: st.mtime, Mode: 0o644}
	}
}

func (st *c15File) id() string { return fmt.Sprintf("%v/%v/%d", st.exists, st.invalid, st.ver) }

func c15Render(entry string, tpl vuego.Template, vue *vuego.Vue) string {
	var buf bytes.Buffer
	var err error
	switch entry {
	case "load":
		err = tpl.Load("page.vuego").Fill(map[string]any{"x": 1}).Render(bg, &buf)
	case "file":
		err = tpl.New().RenderFile(bg, &buf, "page.vuego")
	case "vue":
		err = vue.Render(&buf, "page.vuego", map[string]any{"x": 1})
	case "vuenil": // a render without any data
		err = vue.Render(&buf, "page.vuego", nil)
	case "fragment":
		err = vue.RenderFragment(&buf, "page.vuego", map[string]any{"x": 1})
	}
	if err != nil {
		return "ERROR"
	}
	return buf.String()
}

// involved files per entry
func c15Involved(entry string) []string {
	if entry == "load" || entry == "file" {
		return []string{"page", "comp", "lay"}
	}
	return []string{"page", "comp"}
}

// ---- world B: which layout file a name resolves to, and whether the default layout exists,
// changes under a long-lived engine (files are created and deleted; mtimes always advance)

var c15BFiles = []string{"post", "plain", "rel", "lay", "base"}
var c15BPath = map[string]string{"post": "blog/post.vuego", "plain": "blog/plain.vuego", "rel": "blog/wide.vuego", "lay": "layouts/wide.vuego", "base": "layouts/base.vuego"}

var c15BEvents = []string{"edit:post", "edit:plain", "edit:rel", "edit:lay", "edit:base", "delete:rel", "delete:lay", "delete:base",
	"render:load:post", "render:load:plain", "render:file:post", "render:file:plain",
	// a Template object obtained with Load is kept across later events and rendered then; what it
	// renders itself is unconstrained (it was loaded before the edits), but it must not spoil later renders
	"hold:post", "hold:plain", "render:held"}

func c15BContent(f string, v int) string {
	switch f {
	case "post":
		return fmt.Sprintf("---\nlayout: wide\n---\n<p>post P%d</p>", v)
	case "plain":
		return fmt.Sprintf("<i>plain Q%d</i>", v)
	case "rel":
		return fmt.Sprintf(`<section class="rel">R%d<div v-html="content"></div></section>`, v)
	case "lay":
		return fmt.Sprintf(`<section class="site">L%d<div v-html="content"></div></section>`, v)
	case "base":
		return fmt.Sprintf(`<main>B%d<div v-html="content"></div></main>`, v)
	}
	panic(f)
}

func (c *c15Case) runB(ctx *core.Ctx) {
	seenStates := map[string]bool{}
	var rec func(hist []string)
	rec = func(hist []string) {
		type fst struct {
			exists bool
			ver    int
			mtime  time.Time
		}
		files := map[string]*fst{}
		m := fstest.MapFS{}
		sync := func() {
			for _, f := range c15BFiles {
				st := files[f]
				if !st.exists {
					delete(m, c15BPath[f])
					continue
				}
				m[c15BPath[f]] = &fstest.MapFile{Data: []byte(c15BContent(f, st.ver)), ModTime: st.mtime, Mode: 0o644}
			}
		}
		for _, f := range c15BFiles {
			files[f] = &fst{exists: true, mtime: baseTime}
		}
		sync()
		nextVer := 1
		var fsys fs.FS = m
		if c.World == "BO" {
			// the site's files overlay a layer of built-in defaults (the markdown package's set-up):
			// every path also exists below, unchanging and old; a deleted file falls back to its default
			lower := fstest.MapFS{}
			for _, f := range c15BFiles {
				lower[c15BPath[f]] = &fstest.MapFile{Data: []byte(c15BContent(f, 1000)), ModTime: baseTime.Add(-24 * time.Hour), Mode: 0o644}
			}
			fsys = vuego.NewOverlayFS(m, lower)
		}
		tpl := vuego.NewFS(fsys, vuego.WithProcessor(c15Proc{}))
		ok := true
		rendered := ""
		var held vuego.Template
		render := func(t vuego.Template, entry, page string) string {
			var buf bytes.Buffer
			var err error
			if entry == "load" {
				err = t.Load(c15BPath[page]).Fill(map[string]any{"x": 1}).Render(bg, &buf)
			} else {
				err = t.New().RenderFile(bg, &buf, c15BPath[page])
			}
			if err != nil {
				return "ERROR"
			}
			return buf.String()
		}
		for step, ev := range hist {
			parts := strings.Split(ev, ":")
			switch parts[0] {
			case "edit":
				st := files[parts[1]]
				st.exists, st.ver = true, nextVer
				nextVer++
				st.mtime = st.mtime.Add(time.Hour)
				sync()
			case "delete":
				if !files[parts[1]].exists {
					return
				}
				files[parts[1]].exists = false
				sync()
			case "hold":
				held = tpl.Load(c15BPath[parts[1]]).Fill(map[string]any{"x": 1})
			case "render":
				if parts[1] == "held" {
					if held == nil {
						return // nothing held: prune
					}
					ctx.Eval(1)
					ctx.Transition(1)
					var hb bytes.Buffer
					_ = held.Render(bg, &hb)
					ctx.Zone("render-of-a-template-loaded-before-later-edits")
					continue
				}
				ctx.Eval(2)
				ctx.Transition(1)
				got := render(tpl, parts[1], parts[2])
				want := render(vuego.NewFS(fsys, vuego.WithProcessor(c15Proc{})), parts[1], parts[2])
				rendered += parts[1] + parts[2] + ","
				if got != want {
					ctx.Violation("stale-render", "world-"+c.World+"/entry-"+parts[1]+"/"+parts[2], c15Class(hist[:step+1]), fmt.Sprintf("history %v: long-lived engine rendered %q, fresh engine %q", hist[:step+1], clip(got, 300), clip(want, 300)))
					ok = false
				}
			}
		}
		if !ok {
			return
		}
		// canonical state. Versions only advance, so a cached copy of a file is either the current
		// version or stale; per file: exists now, was it ever seen by a render, is the version seen by
		// the most recent render that saw it the current one; per render kind: which files existed
		// at its last occurrence (what that kind resolved to).
		key := ""
		{
			ex := map[string]bool{}
			ver := map[string]int{}
			seenVer := map[string]int{}
			for _, f := range c15BFiles {
				ex[f], seenVer[f] = true, -1
			}
			lastOf := map[string]string{}
			nv := 1
			heldKey, heldPage, heldVer, heldRendered := "", "", 0, false
			defer func() { _ = heldPage }()
			for _, ev := range hist {
				parts := strings.Split(ev, ":")
				switch parts[0] {
				case "hold":
					heldPage, heldVer, heldRendered = parts[1], ver[parts[1]], false
					heldKey = parts[1]
					for _, f := range c15BFiles {
						heldKey += fmt.Sprint(ex[f])[:1]
					}
				case "edit":
					ex[parts[1]], ver[parts[1]] = true, nv
					nv++
					heldRendered = false // "the held template was rendered since the last edit"
				case "delete":
					ex[parts[1]] = false
				case "render":
					if parts[1] == "held" {
						heldRendered = true
						continue
					}
					snap := ""
					// the files this render loads (reference resolution: relative twin before layouts/)
					loads := []string{"plain", "base"}
					if parts[2] == "post" {
						loads = []string{"post", "lay"}
						if ex["rel"] {
							loads = []string{"post", "rel"}
						}
					}
					for _, f := range loads {
						if ex[f] {
							seenVer[f] = ver[f]
						}
					}
					for _, f := range c15BFiles {
						snap += fmt.Sprint(ex[f])[:1]
					}
					lastOf[parts[1]+parts[2]] = snap
				}
			}
			for _, f := range c15BFiles {
				key += fmt.Sprintf("%s:%v/%v/%v|", f, ex[f], seenVer[f] >= 0, seenVer[f] == ver[f])
			}
			for _, r := range []string{"loadpost", "loadplain", "filepost", "fileplain"} {
				key += r + "=" + lastOf[r] + "|"
			}
			if heldKey != "" {
				heldKey += fmt.Sprintf("/%v/%v", heldVer == ver[heldPage], heldRendered)
			}
			key += "held=" + heldKey
		}
		_ = rendered
		if seenStates[key] {
			return
		}
		seenStates[key] = true
		ctx.State(1)
		if len(hist) >= c.Depth {
			return
		}
		for _, ev := range c15BEvents {
			if len(hist) > 0 && strings.HasPrefix(ev, "render:") && hist[len(hist)-1] == ev {
				continue
			}
			rec(append(append([]string{}, hist...), ev))
		}
	}
	rec(c.Prefix)
	ctx.Outcome("B:" + fmt.Sprint(len(seenStates)))
}

// ---- world MD: a long-lived Markdown engine over a content file system in which the site
// overrides element templates (one that gets data: heading; two that get none: thematic_break,
// hard_break) and holds a document

var c15MDEvents = []string{"render", "edit+:hr", "edit=:hr", "edit-:hr", "delete:hr", "edit+:br", "delete:br", "edit+:h", "delete:h", "edit+:doc", "invalid:hr"}

var c15MDPath = map[string]string{"hr": "markdown/thematic_break.vuego", "br": "markdown/hard_break.vuego", "h": "markdown/heading.vuego", "doc": "doc.md"}

func c15MDContent(f string, ver int) string {
	switch f {
	case "hr":
		return fmt.Sprintf(`<hr class="v%d">`, ver)
	case "br":
		return fmt.Sprintf(`<br class="v%d">`, ver)
	case "h":
		return fmt.Sprintf(`<h1 class="v%d" :id="id" v-html="content"></h1>`, ver)
	}
	// (a reference-style link whose definition changes with every version and is missing in every third)
	ref := fmt.Sprintf("\n[docs]: https://v%d.example/ \"T%d\"\n", ver, ver)
	if ver%3 == 0 {
		ref = ""
	}
	return fmt.Sprintf("# Title %d\n\nabove  \nline\n\n---\n\nbelow, see [the docs][docs] and [docs].\n%s", ver, ref)
}

func (c *c15Case) runMD(ctx *core.Ctx) {
	type fileState struct {
		exists, invalid bool
		ver             int
		mtime           time.Time
	}
	seen := map[string]bool{}
	var rec func(hist []string)
	rec = func(hist []string) {
		files := map[string]*fileState{}
		for f := range c15MDPath {
			files[f] = &fileState{exists: true, ver: 1, mtime: baseTime}
		}
		next := 2
		content := fstest.MapFS{}
		sync := func() {
			for f, st := range files {
				if !st.exists {
					delete(content, c15MDPath[f])
					continue
				}
				data := c15MDContent(f, st.ver)
				if st.invalid {
					data = `<hr {{ unclosed | nosuchfilter }}>{{ a | nosuch }}`
				}
				content[c15MDPath[f]] = &fstest.MapFile{Data: []byte(data), ModTime: st.mtime}
			}
		}
		sync()
		long := markdown.New(content)
		renders := 0
		// what the engine may have cached: version and modification time of each file at its last render
		type seenAt struct {
			ver     int
			invalid bool
			mtime   time.Time
		}
		cached := map[string]seenAt{}
		for step, ev := range hist {
			kind, arg, _ := strings.Cut(ev, ":")
			st := files[arg]
			switch kind {
			case "edit+", "edit=", "edit-":
				st.exists, st.invalid, st.ver = true, false, next
				next++
				if kind == "edit+" {
					st.mtime = st.mtime.Add(time.Hour)
				} else if kind == "edit-" {
					st.mtime = st.mtime.Add(-time.Hour)
				}
				sync()
			case "invalid":
				st.exists, st.invalid = true, true
				st.mtime = st.mtime.Add(time.Hour)
				sync()
			case "delete":
				if !st.exists {
					return
				}
				st.exists = false
				st.mtime = st.mtime.Add(time.Hour) // a file created again later is newer
				sync()
			case "render":
				renders++
				for f, st := range files {
					if at, ok := cached[f]; ok && st.exists && at.mtime.Equal(st.mtime) && (at.ver != st.ver || at.invalid != st.invalid) {
						ctx.Zone("edit-with-mtime-equal-to-the-cached-one")
						return
					}
				}
				for f, st := range files {
					if st.exists {
						cached[f] = seenAt{st.ver, st.invalid, st.mtime}
					}
				}
				one := func(m *markdown.Markdown) string {
					d, err := m.Load("doc.md")
					if err != nil {
						return res("", err)
					}
					var buf bytes.Buffer
					err = d.Render(&buf)
					return res(buf.String(), err)
				}
				ctx.Eval(2)
				got, want := one(long), one(markdown.New(content))
				ctx.Transition(1)
				if got != want {
					last := "first-render"
					if step > 0 {
						last = "after-" + hist[step-1]
					}
					ctx.Violation("stale-render", "markdown-engine", last, fmt.Sprintf("history %v: the long-lived Markdown engine renders\n  %q\na new engine on the same files renders\n  %q", hist[:step+1], clip(got, 300), clip(want, 300)))
					return
				}
			}
		}
		key := fmt.Sprint(hist)
		if !seen[key] {
			seen[key] = true
			ctx.State(1)
		}
		if len(hist) >= c.Depth {
			return
		}
		for _, ev := range c15MDEvents {
			if ev == "render" && len(hist) > 0 && hist[len(hist)-1] == "render" && renders >= 2 {
				continue
			}
			rec(append(append([]string{}, hist...), ev))
		}
	}
	rec(c.Prefix)
}

// ---- world LESS: a long-lived engine with the LESS processor; the page's <style> block imports a
// file that is edited, turned into a circular import, repaired, deleted

var c15LessEvents = []string{"render", "edit+:theme", "cycle:theme", "delete:theme", "edit+:page", "edit+:mixin", "cycle:mixin", "render:other"}

func (c *c15Case) runLESS(ctx *core.Ctx) {
	var rec func(hist []string)
	rec = func(hist []string) {
		ver := map[string]int{"theme": 1, "mixin": 1, "page": 1}
		exists := map[string]bool{"theme": true, "mixin": true, "page": true}
		cyc := map[string]bool{}
		mt := map[string]time.Time{"theme": baseTime, "mixin": baseTime, "page": baseTime}
		content := fstest.MapFS{}
		colours := []string{"red", "blue", "green", "purple", "teal", "navy", "olive"}
		sync := func() {
			for _, f := range []string{"theme", "mixin"} {
				if !exists[f] {
					delete(content, f+".less")
					continue
				}
				body := fmt.Sprintf("@%s: %s;\n", f, colours[ver[f]%len(colours)])
				if f == "theme" {
					body = "@import \"mixin.less\";\n" + body
				}
				if cyc[f] {
					body = fmt.Sprintf("@import \"%s.less\";\n", f) + body
				}
				content[f+".less"] = &fstest.MapFile{Data: []byte(body), ModTime: mt[f]}
			}
			content["page.vuego"] = &fstest.MapFile{Data: []byte(fmt.Sprintf("<style type=\"text/css+less\">\n@import \"theme.less\";\n.box {\n  color: @theme;\n  background: @mixin;\n  top: %dpx;\n}\n</style><p>x</p>", ver["page"])), ModTime: mt["page"]}
			content["other.vuego"] = &fstest.MapFile{Data: []byte("<style type=\"text/css+less\">\n.o {\n  color: teal;\n}\n</style><p>o</p>"), ModTime: baseTime}
		}
		sync()
		long := vuego.NewFS(content, vuego.WithLessProcessor())
		for step, ev := range hist {
			kind, arg, _ := strings.Cut(ev, ":")
			switch kind {
			case "edit+":
				ver[arg]++
				exists[arg], cyc[arg] = true, false
				mt[arg] = mt[arg].Add(time.Hour)
				sync()
			case "cycle":
				ver[arg]++
				exists[arg], cyc[arg] = true, true
				mt[arg] = mt[arg].Add(time.Hour)
				sync()
			case "delete":
				if !exists[arg] {
					return
				}
				exists[arg] = false
				mt[arg] = mt[arg].Add(time.Hour)
				sync()
			case "render":
				file := "page.vuego"
				if arg == "other" {
					file = "other.vuego"
				}
				one := func(t vuego.Template) string {
					var buf bytes.Buffer
					err := t.Load(file).Render(bg, &buf)
					return res(buf.String(), err)
				}
				ctx.Eval(2)
				got, want := one(long), one(vuego.NewFS(content, vuego.WithLessProcessor()))
				ctx.Transition(1)
				if got != want {
					last := "first-render"
					if step > 0 {
						last = "after-" + hist[step-1]
					}
					ctx.Violation("stale-render", "less-engine/"+file, last, fmt.Sprintf("history %v: the long-lived engine renders\n  %q\na new engine on the same files renders\n  %q", hist[:step+1], clip(got, 300), clip(want, 300)))
					return
				}
			}
		}
		ctx.State(1)
		if len(hist) >= c.Depth {
			return
		}
		for _, ev := range c15LessEvents {
			rec(append(append([]string{}, hist...), ev))
		}
	}
	rec(c.Prefix)
}

func (c *c15Case) Run(ctx *core.Ctx) {
	ctx.NonTrivial()
	if c.World == "LESS" {
		c.runLESS(ctx)
		return
	}
	if c.World == "MD" {
		c.runMD(ctx)
		return
	}
	if c.World == "B" || c.World == "BO" {
		c.runB(ctx)
		return
	}
	seenStates := map[string]bool{}
	var rec func(hist []string)
	rec = func(hist []string) {
		w := newC15World()
		lastRenderOK := true
		for step, ev := range hist {
			kind, arg, _ := strings.Cut(ev, ":")
			switch kind {
			case "edit+", "edit=", "edit-", "edit0":
				st := w.files[arg]
				st.exists, st.invalid = true, false
				st.ver = w.nextVer
				w.nextVer++
				switch kind {
				case "edit+":
					st.mtime = st.mtime.Add(c15Step[arg])
				case "edit-":
					st.mtime = st.mtime.Add(-c15Step[arg])
				case "edit0":
					st.mtime = time.Time{}
				}
				w.sync()
			case "delete":
				if !w.files[arg].exists {
					return // nothing to delete: prune
				}
				w.files[arg].exists = false
				w.sync()
			case "invalid":
				st := w.files[arg]
				if !st.exists {
					return
				}
				st.invalid = true
				st.ver = w.nextVer
				w.nextVer++
				st.mtime = st.mtime.Add(time.Hour)
				w.sync()
			case "render":
				eng := "tpl"
				if arg == "vue" || arg == "fragment" || arg == "vuenil" {
					eng = "vue"
				}
				cfs := w.efs[eng]
				before := map[string]int{}
				for _, f := range c15FilesList {
					before[f] = cfs.opens[c15Path[f]]
				}
				ctx.Eval(2)
				ctx.Transition(1)
				got := c15Render(arg, w.tpl, w.vue)
				if cfs.opens["page.vuego"]-before["page"] <= map[string]int{"tpl": 1, "vue": 0}[eng] {
					ctx.Count("renders-answered-from-the-page-cache", 1)
				}
				// reference: fresh engines on the current files
				fresh := &countFS{m: w.fs.m, opens: map[string]int{}}
				want := c15Render(arg, vuego.NewFS(fresh, vuego.WithProcessor(c15Proc{})), c15Vue(fresh))
				// unconstrained: the engine's cache holds other content under the very same mtime
				unconstrained := false
				for _, f := range c15Involved(arg) {
					st := w.files[f]
					// (RenderFragment does not use the cache: it is always constrained)
					if h, ok := w.held[eng][f]; ok && arg != "fragment" && st.exists && h.mtime == st.mtime.UnixNano() && h.id != st.id() {
						unconstrained = true
					}
				}
				if unconstrained {
					ctx.Zone("edit-with-mtime-equal-to-the-cached-one")
				} else if got != want {
					ctx.Violation("stale-render", "entry-"+arg, c15Class(hist[:step+1]), fmt.Sprintf("history %v: long-lived engine rendered %q, fresh engine %q", hist[:step+1], clip(got, 300), clip(want, 300)))
					lastRenderOK = false
				}
				// what the cache holds now (reference model of the documented cache: an entry is
				// replaced whenever the file's mtime differs from the stored one, a failed load
				// drops the entry, a file that is never reached is not touched)
				// (in the unconstrained zone the engine may have answered from its cache without
				// loading anything: what it holds is unchanged)
				if arg != "fragment" && !unconstrained {
					ok := func(f string) bool { return w.files[f].exists && !w.files[f].invalid }
					upd := func(f string) {
						st := w.files[f]
						if h, has := w.held[eng][f]; !has || h.mtime != st.mtime.UnixNano() {
							w.held[eng][f] = c15Held{st.mtime.UnixNano(), st.id()}
						}
					}
					if ok("page") {
						upd("page")
						if eng == "tpl" && ok("comp") {
							if ok("lay") {
								upd("lay")
							} else {
								delete(w.held[eng], "lay") // a failed load drops the entry
							}
						}
					} else {
						delete(w.held[eng], "page")
					}
				}
			}
		}
		if !lastRenderOK {
			return
		}
		// canonical state: file states (relative) + what the engines may hold
		key := ""
		for _, f := range c15FilesList {
			st := w.files[f]
			key += fmt.Sprintf("%s:%s@%d|", f, st.id(), st.mtime.UnixNano()-baseTime.UnixNano())
		}
		key += fmt.Sprint(w.held)
		if seenStates[key] {
			return
		}
		seenStates[key] = true
		ctx.State(1)
		if len(hist) >= c.Depth {
			return
		}
		for _, ev := range c15Events {
			// two identical renders in a row add nothing
			if len(hist) > 0 && strings.HasPrefix(ev, "render:") && hist[len(hist)-1] == ev {
				continue
			}
			rec(append(append([]string{}, hist...), ev))
		}
	}
	rec(c.Prefix)
	ctx.Outcome(fmt.Sprint(len(seenStates)))
}

// c15Class: the last edit-like event before the failing render, and whether a render preceded it.
func c15Class(hist []string) string {
	lastEdit, renderedBefore := "none", false
	for i := len(hist) - 2; i >= 0; i-- {
		if !strings.HasPrefix(hist[i], "render:") {
			lastEdit = hist[i]
			for j := i - 1; j >= 0; j-- {
				if strings.HasPrefix(hist[j], "render:") {
					renderedBefore = true
				}
			}
			break
		}
	}
	return fmt.Sprintf("after-%s/warm=%v", lastEdit, renderedBefore)
}

func init() {
	core.Register(&core.Check{
		ID:    "C15",
		Level: "model_checking",
		Rule: "explicit-state search over all histories up to the bound of {edit page/component/layout (the page hands a named slot template to its layout, whose text changes with every edit) with an mtime that advances, stays equal, goes back or (page) becomes the zero time; delete; make invalid (broken front-matter); render through Load().Render, RenderFile, Vue.Render (with and without data), Vue.RenderFragment} on an in-memory file system with chosen mtimes; each history is replayed on fresh long-lived engines (every engine carries a node processor whose pre-processing step marks the elements it is shown, so that nodes which outlive a render show it). " +
			"A second world does the same for layout resolution: a post naming layout `wide` with a relative twin (blog/wide.vuego), a layouts/wide.vuego fallback and layouts/base.vuego, a page without layout; events create/edit/delete each of them, render both pages through Load().Render and RenderFile, and keep a loaded Template object across later events and render it then; the same world once more with the files overlaid (OverlayFS) on an unchanging layer of defaults for every path. " +
			"oracle: after every render event, bytes/error equal those of newly created engines on the current files (differential, no hand-written expectation). states = distinct (file states, possibly-cached versions); a wrapping fs.FS counts reads to show that cache hits happen. non-trivial = all",
		Bounds:      map[string]string{"quick": "histories of <=5 events over 19 event kinds; layout world: <=6 events over 12 kinds", "thorough": "histories of <=6 events; layout world <=7"},
		Assumptions: []string{"a render is unconstrained while an involved file has content that differs from what an engine may hold under the same mtime (documented cache limit)", "the cache only sees fs.FS, so an in-memory FS with chosen mtimes covers every answer it can get"},
		Decode:      core.DecodeAs[c15Case](),
		Enumerate: func(tier string, emit func(core.Case)) {
			depth := 5
			if tier == "thorough" {
				depth = 6
			}
			for _, e1 := range c15Events {
				for _, e2 := range c15Events {
					emit(&c15Case{Prefix: []string{e1, e2}, Depth: depth})
				}
			}
			for _, e1 := range c15LessEvents {
				for _, e2 := range c15LessEvents {
					emit(&c15Case{World: "LESS", Prefix: []string{e1, e2}, Depth: depth - 1})
				}
			}
			for _, e1 := range c15MDEvents {
				for _, e2 := range c15MDEvents {
					emit(&c15Case{World: "MD", Prefix: []string{e1, e2}, Depth: depth - 1})
				}
			}
			for _, e1 := range c15BEvents {
				for _, e2 := range c15BEvents {
					emit(&c15Case{World: "B", Prefix: []string{e1, e2}, Depth: depth + 1})
					emit(&c15Case{World: "BO", Prefix: []string{e1, e2}, Depth: depth})
				}
			}
		},
	})
}
