//go:build c09

package checks

import (
	"bytes"
	"fmt"
	"io/fs"
	"os"
	"regexp"
	"sort"
	"strings"
	"sync"
	"testing/fstest"
	"time"

	"github.com/titpetric/vuego"
	"github.com/titpetric/vuego/zverif/vsync"
	"golang.org/x/net/html"

	"verif/engine/core"
	"verif/engine/sched"
)

// C09: one engine serves concurrent renders without races or cross-talk.
// Exhaustive preemption-bounded exploration of real goroutines under a controlled scheduler,
// with the race detector judging every explored schedule.

type c09Case struct {
	Driver  string `json:"driver"`
	Threads int    `json:"threads"`
	Bound   int    `json:"bound"`
	Shard   int    `json:"shard"`
	Shards  int    `json:"shards"`
	// replay of a single schedule
	Choices []int `json:"choices,omitempty"`
	Free    bool  `json:"free,omitempty"` // free-running complement (no scheduler)
}

func (c *c09Case) Key() string { return core.KeyOf(c) }

func (c *c09Case) CrashWhere() string { return c.Driver }

// switchFS serves one of two immutable file sets; the switch is flipped by an "editor"
// thread. The index is accessed from //go:norace code so that the harness itself neither
// adds happens-before edges nor races.
type switchFS struct {
	sets [2]fstest.MapFS
	idx  int
}

//go:norace
func (s *switchFS) cur() fstest.MapFS { return s.sets[s.idx] }

//go:norace
func (s *switchFS) flip() { s.idx = 1 }

func (s *switchFS) Open(name string) (fs.File, error) {
	if c09Controlled {
		sched.Yield(1)
	}
	return s.cur().Open(name)
}

var c09Controlled bool

// c09Final: set by a driver whose threads leave state behind that must have settled when they are
// done: run once after every schedule, uncontrolled; its result must be the solo result "FINAL".
var c09Final func() (string, error)

type c09Call struct {
	name string
	run  func() (string, error)
}

type c09Setup struct {
	calls [][]c09Call // per thread
	solo  map[string][]string
}

func c09Data() map[string]any { return catData(nil)("CANARY") }

// tdata: every thread renders with its own data (its own canary), so that cross-talk is visible
func tdata(i int) map[string]any { return catData(nil)(fmt.Sprintf("CANARY_T%d", i)) }

func c09Files() Files {
	f := Files{}
	for k, v := range CatalogFiles {
		f[k] = v
	}
	f["h4_a.vuego"] = `<p v-if="n > 11">{{ user.name }}</p><i>{{ user.tags[0] }} {{ m.k1 }}</i>`
	f["h4_b.vuego"] = `<p v-if="n > 12">{{ user.name }}</p><i>{{ user.tags[1] }} {{ m.k2 }}</i>`
	f["h6_page.vuego"] = `<section>ORIGINAL<template include="c_card.vuego" heading="h" :c="canary"></template></section>`
	f["h11_page.vuego"] = "---\ntitle: Dashboard\nlist: [1, 2]\n---\n" + `<template :greeting="'Hello ' + canary"></template><h1>{{ title }}</h1><i v-for="x in list">{{ x }}{{ canary }}</i><p>{{ greeting }}</p><template :title="canary"></template><b>{{ title }}</b>`
	// elements whose attribute slices have spare capacity after parsing (3, 5, 6, 7 attributes): an
	// append to a copy that shares the backing array lands in memory other renders see
	f["h13_page.vuego"] = `<div :title="canary" class="box" v-html="canary"></div><p class="a" id="p3" v-text="canary"></p>` +
		`<span style="color:red" v-show="show" v-text="title" class="k" data-a="1"></span><b v-once class="o" id="b3">{{ canary }}</b>` +
		`<i a="1" b="2" c="3" d="4" e="5" v-html="canary"></i><u a="1" b="2" c="3" d="4" e="5" f="6" v-text="canary"></u><em :class="{on: show}" class="s" style="top:0" :style="{color: color}" v-show="hide">{{ canary }}</em>`
	// a page rendered through a layout chain that itself holds v-once elements, a shorthand
	// component tag and slot content for the layout (the layout step reads the page a second time)
	f["h15_page.vuego"] = "---\nlayout: h15_lay\n---\n" + `<template #side><b v-once>{{ canary }}</b></template><div v-once>{{ canary }}</div><ul><li v-for="it in items" v-once>{{ it }}</li></ul><h-badge :c="canary"></h-badge><p>{{ title }}</p>`
	f["layouts/h15_lay.vuego"] = `<main><aside><slot name="side">none</slot></aside><section v-html="content"></section></main>`
	f["components/HBadge.vuego"] = `<span class="badge">{{ c }}</span>`
	f["h4_c.vuego"] = `<p v-if="n > 13">{{ user.name }}</p><i>{{ m.k3 }} {{ objs[0].name }}</i>`
	return f
}

// c09Build creates a fresh shared engine and the per-thread calls of a driver.
func c09Build(driver string, threads int) [][]c09Call {
	files := c09Files()
	mk := func(name string, f func(buf *bytes.Buffer) error) c09Call {
		return c09Call{name: name, run: func() (string, error) {
			var buf bytes.Buffer
			err := f(&buf)
			return buf.String(), err
		}}
	}
	out := make([][]c09Call, threads)
	defer func() {
		// name the calls per thread and give each thread its own data
		for ti := range out {
			ti := ti
			for ci := range out[ti] {
				if out[ti][ci].name == "EDIT" {
					continue
				}
				inner := out[ti][ci].run
				out[ti][ci].name = fmt.Sprintf("%s@t%d", out[ti][ci].name, ti)
				out[ti][ci].run = func() (string, error) { return inner() }
			}
		}
	}()
	switch driver {
	case "H1-cold-cache-same-file":
		t := vuego.NewFS(files.FS(), vuego.WithComponents())
		for i := range out {
			i := i
			out[i] = []c09Call{mk("incl", func(b *bytes.Buffer) error { return t.Load("p_incl.vuego").Fill(tdata(i)).Render(bg, b) })}
		}
	case "H2-shared-caller-map":
		v := vuego.NewVue(files.FS())
		t := vuego.NewFS(files.FS())
		shared := c09Data()
		for i := range out {
			i := i
			if i%2 == 0 {
				out[i] = []c09Call{mk("vue-fm", func(b *bytes.Buffer) error { return v.Render(b, "p_fm.vuego", shared) })}
			} else {
				out[i] = []c09Call{mk("tpl-fm", func(b *bytes.Buffer) error { return t.Load("p_fm.vuego").Fill(shared).Render(bg, b) }),
					mk("vue-tmpl", func(b *bytes.Buffer) error { return v.Render(b, "p_tmpl.vuego", shared) })}
			}
		}
	case "H3-v-once-warm":
		v := vuego.NewVue(files.FS())
		var warm bytes.Buffer
		_ = v.Render(&warm, "p_once.vuego", c09Data())
		for i := range out {
			i := i
			out[i] = []c09Call{mk("once", func(b *bytes.Buffer) error { return v.Render(b, "p_once.vuego", tdata(i)) })}
		}
	case "H4-unseen-paths-and-expressions":
		t := vuego.NewFS(files.FS())
		pages := []string{"h4_a.vuego", "h4_b.vuego", "h4_c.vuego"}
		for i := range out {
			i := i
			p := pages[i%3]
			out[i] = []c09Call{mk("paths-"+p, func(b *bytes.Buffer) error { return t.Load(p).Fill(tdata(i)).Render(bg, b) })}
		}
	case "H4b-path-cache-at-limit":
		t := vuego.NewFS(files.FS())
		pages := []string{"h4_a.vuego", "h4_b.vuego", "h4_c.vuego"}
		for i := range out {
			i := i
			p := pages[i%3]
			out[i] = []c09Call{mk("paths-"+p, func(b *bytes.Buffer) error { return t.Load(p).Fill(tdata(i)).Render(bg, b) })}
		}
	case "H5-include-slots-layout-filters":
		t := vuego.NewFS(files.FS(), vuego.WithComponents())
		progs := []string{"p_layout.vuego", "p_slots.vuego", "p_filters.vuego", "p_short.vuego"}
		for i := range out {
			i := i
			p := progs[i%len(progs)]
			q := progs[(i+1)%len(progs)]
			out[i] = []c09Call{mk(p, func(b *bytes.Buffer) error { return t.Load(p).Fill(tdata(i)).Render(bg, b) }),
				mk(q, func(b *bytes.Buffer) error { return t.Load(q).Fill(tdata(i)).Render(bg, b) })}
		}
	case "H6-files-edited-underneath":
		old := files.FS()
		newer := files.FS()
		later := baseTime.Add(time.Hour)
		newer["h6_page.vuego"] = &fstest.MapFile{Data: []byte(c09EditedPage), ModTime: later}
		newer["c_card.vuego"] = &fstest.MapFile{Data: []byte(c09EditedComp), ModTime: later}
		sw := &switchFS{sets: [2]fstest.MapFS{old, newer}}
		t := vuego.NewFS(sw)
		var warm bytes.Buffer
		_ = t.Load("h6_page.vuego").Fill(c09Data()).Render(bg, &warm)
		for i := range out {
			i := i
			if i == len(out)-1 {
				out[i] = []c09Call{{name: "EDIT", run: func() (string, error) { sw.flip(); return "", nil }}}
			} else {
				out[i] = []c09Call{mk("incl-edited", func(b *bytes.Buffer) error { return t.Load("h6_page.vuego").Fill(tdata(i)).Render(bg, b) })}
			}
		}
	case "H22-cold-cache-edited-underneath":
		// like H6, but the engine has not seen the page: the first render loads it while the editor
		// replaces it. Whatever that render returns - once everybody is done, the engine serves the
		// new version (FINAL)
		old := files.FS()
		newer := files.FS()
		later := baseTime.Add(time.Hour)
		newer["h6_page.vuego"] = &fstest.MapFile{Data: []byte(c09EditedPage), ModTime: later}
		newer["c_card.vuego"] = &fstest.MapFile{Data: []byte(c09EditedComp), ModTime: later}
		sw := &switchFS{sets: [2]fstest.MapFS{old, newer}}
		t := vuego.NewFS(sw)
		v := vuego.NewVue(sw)
		for i := range out {
			i := i
			if i == len(out)-1 {
				out[i] = []c09Call{{name: "EDIT", run: func() (string, error) { sw.flip(); return "", nil }}}
			} else {
				out[i] = []c09Call{mk("incl-edited", func(b *bytes.Buffer) error { return t.Load("h6_page.vuego").Fill(tdata(i)).Render(bg, b) }),
					mk("vue-edited", func(b *bytes.Buffer) error { return v.Render(b, "h6_page.vuego", tdata(i)) })}
			}
		}
		c09Final = func() (string, error) {
			var b1, b2 bytes.Buffer
			err := t.Load("h6_page.vuego").Fill(tdata(0)).Render(bg, &b1)
			if err == nil {
				err = v.Render(&b2, "h6_page.vuego", tdata(0))
			}
			return b1.String() + "\x01" + b2.String(), err
		}
	case "H23-wide-and-narrow-loop-scopes":
		// one request fills the scope of a loop iteration with ten variables (a <template> with many
		// attributes in the loop body), another reads a variable of its own inside a plain loop: scope
		// maps are recycled through a process-wide pool
		pf := Files{
			"h23_wide.vuego":   `<ul><li v-for="r in rows"><template :title="r.t" a="1" b="2" c="3" d="4" e="5" f="6" g="7" h="8">{{ title }}{{ a }}{{ h }}</template></li></ul>`,
			"h23_narrow.vuego": `<p v-for="x in xs">{{ title }}-{{ a }}-{{ x }}</p><i>{{ canary }}</i>`,
		}
		v := vuego.NewVue(pf.FS())
		t := vuego.NewFS(pf.FS())
		for i := range out {
			i := i
			wide := map[string]any{"rows": []map[string]any{{"t": fmt.Sprintf("other-%d-1", i)}, {"t": fmt.Sprintf("other-%d-2", i)}}}
			narrow := map[string]any{"xs": []int{1, 2}, "title": fmt.Sprintf("mine-%d", i), "canary": fmt.Sprintf("CANARY_T%d", i)}
			if i%2 == 0 {
				out[i] = []c09Call{mk("wide", func(b *bytes.Buffer) error { return v.Render(b, "h23_wide.vuego", wide) }),
					mk("narrow", func(b *bytes.Buffer) error { return t.Load("h23_narrow.vuego").Fill(narrow).Render(bg, b) })}
			} else {
				out[i] = []c09Call{mk("narrow", func(b *bytes.Buffer) error { return v.Render(b, "h23_narrow.vuego", narrow) }),
					mk("wide", func(b *bytes.Buffer) error { return t.Load("h23_wide.vuego").Fill(wide).Render(bg, b) })}
			}
		}
	case "H7-renderstring-on-new":
		t := vuego.NewFS(files.FS()).Fill(c09Data())
		src := `<ul><li v-for="(i, it) in items" :class="{odd: i}">{{ it | upper }} {{ user.name }}</li></ul><p v-if="n > 2" v-once>{{ title }}</p>`
		for i := range out {
			i := i
			out[i] = []c09Call{mk("string", func(b *bytes.Buffer) error { return t.New().RenderString(bg, b, src) })}
		}
	case "H8-funcs-and-errors":
		t := vuego.NewFS(files.FS(), vuego.WithFuncs(vuego.FuncMap{"twice": func(s string) string { return s + s }}))
		for i := range out {
			i := i
			if i%2 == 0 {
				out[i] = []c09Call{mk("bad", func(b *bytes.Buffer) error { return t.Load("p_badlate.vuego").Fill(tdata(i)).Render(bg, b) }),
					mk("badmid", func(b *bytes.Buffer) error { return t.Load("p_badmid.vuego").Fill(tdata(i)).Render(bg, b) }),
					mk("badattr", func(b *bytes.Buffer) error { return t.Load("p_badattr.vuego").Fill(tdata(i)).Render(bg, b) })}
			} else {
				out[i] = []c09Call{mk("func", func(b *bytes.Buffer) error {
					return t.New().Fill(tdata(i)).RenderString(bg, b, `<p>{{ color | twice }}</p>`)
				})}
			}
		}
	case "H9-components-with-v-once-and-wrappers":
		t := vuego.NewFS(files.FS(), vuego.WithComponents())
		progs := []string{"p_inconce.vuego", "p_wrap.vuego", "p_incfor.vuego", "p_scoped.vuego"}
		for i := range out {
			i := i
			p := progs[i%len(progs)]
			q := progs[(i+1)%len(progs)]
			out[i] = []c09Call{mk(p, func(b *bytes.Buffer) error { return t.Load(p).Fill(tdata(i)).Render(bg, b) }),
				mk(q, func(b *bytes.Buffer) error { return t.Load(q).Fill(tdata(i)).Render(bg, b) })}
		}
	case "H10-same-page-different-data":
		t := vuego.NewFS(files.FS(), vuego.WithComponents())
		for i := range out {
			i := i
			out[i] = []c09Call{mk("wrap", func(b *bytes.Buffer) error { return t.Load("p_wrap.vuego").Fill(tdata(i)).Render(bg, b) }),
				mk("inconce", func(b *bytes.Buffer) error { return t.Load("p_inconce.vuego").Fill(tdata(i)).Render(bg, b) })}
		}
	case "H11-front-matter-page-with-template-variables-vue":
		v := vuego.NewVue(files.FS())
		var warm bytes.Buffer
		_ = v.Render(&warm, "h11_page.vuego", c09Data())
		for i := range out {
			i := i
			out[i] = []c09Call{mk("fmvars", func(b *bytes.Buffer) error { return v.Render(b, "h11_page.vuego", tdata(i)) })}
		}
	case "H12-front-matter-page-with-template-variables-load":
		t := vuego.NewFS(files.FS())
		for i := range out {
			i := i
			out[i] = []c09Call{mk("fmvars", func(b *bytes.Buffer) error { return t.Load("h11_page.vuego").Fill(tdata(i)).Render(bg, b) })}
		}
	case "H13-attribute-slices-with-spare-capacity-vue":
		v := vuego.NewVue(files.FS())
		var warm bytes.Buffer
		_ = v.Render(&warm, "h13_page.vuego", c09Data())
		for i := range out {
			i := i
			out[i] = []c09Call{mk("attrs", func(b *bytes.Buffer) error { return v.Render(b, "h13_page.vuego", tdata(i)) })}
		}
	case "H14-attribute-slices-with-spare-capacity-load":
		t := vuego.NewFS(files.FS())
		for i := range out {
			i := i
			out[i] = []c09Call{mk("attrs", func(b *bytes.Buffer) error { return t.Load("h13_page.vuego").Fill(tdata(i)).Render(bg, b) })}
		}
	case "H15-layout-page-with-v-once-and-shorthand":
		t := vuego.NewFS(files.FS(), vuego.WithComponents())
		for i := range out {
			i := i
			out[i] = []c09Call{mk("laypage", func(b *bytes.Buffer) error { return t.Load("h15_page.vuego").Fill(tdata(i)).Render(bg, b) })}
		}
	case "H16-layout-page-warm":
		t := vuego.NewFS(files.FS(), vuego.WithComponents())
		var warm bytes.Buffer
		_ = t.Load("h15_page.vuego").Fill(c09Data()).Render(bg, &warm)
		for i := range out {
			i := i
			out[i] = []c09Call{mk("laypage", func(b *bytes.Buffer) error { return t.New().Fill(tdata(i)).RenderFile(bg, b, "h15_page.vuego") })}
		}
	case "H17-shared-defaults-plus-assign":
		// every request fills the same read-only map of defaults and assigns its own value on top
		// (an engine without config files, a page without front-matter)
		plain := Files{"h17_page.vuego": `<p>{{ site }}: {{ canary }}</p><i v-if="canary">{{ n }}</i>`}
		t := vuego.NewFS(plain.FS())
		shared := map[string]any{"site": "Example", "n": 3}
		for i := range out {
			i := i
			out[i] = []c09Call{mk("assign", func(b *bytes.Buffer) error {
				return t.Load("h17_page.vuego").Fill(shared).Assign("canary", fmt.Sprintf("CANARY_T%d", i)).Render(bg, b)
			}), mk("plain", func(b *bytes.Buffer) error {
				return t.Load("h17_page.vuego").Fill(shared).Render(bg, b)
			})}
		}
	case "H18-less-processor":
		lessFiles := Files{"h18_page.vuego": `<style type="text/css+less">@c: red; .a { color: @c; .b { top: 0; } }</style><p class="a">{{ canary }}</p>`}
		t := vuego.NewFS(lessFiles.FS(), vuego.WithLessProcessor())
		strEngine := vuego.New(vuego.WithLessProcessor())
		for i := range out {
			i := i
			// (also on an engine for string templates, whose LESS processor has no file system)
			tpl := fmt.Sprintf(`<style type="text/css+less">@w: %dpx; .c%d { width: @w; .in { height: (@w * 2); } }</style><p class="c%d">{{ canary }}</p>`, 10+i, i, i)
			out[i] = []c09Call{mk("less", func(b *bytes.Buffer) error { return t.Load("h18_page.vuego").Fill(tdata(i)).Render(bg, b) }),
				mk("str", func(b *bytes.Buffer) error { return strEngine.New().Fill(tdata(i)).RenderString(bg, b, tpl) })}
		}
	case "H20-shared-read-only-data-of-other-map-types":
		// every request hands over the same read-only data: a named map type (type Props
		// map[string]any, gin.H ...), a pointer to a map, a typed map - to pages with front-matter and
		// top-level <template :var> bindings, through Vue and through Template
		pf := Files{
			"h20_a.vuego": "---\ntitle: One\n---\n" + `<template :greeting="'hi ' + user"></template><h1>{{ title }}</h1><p>{{ greeting }}|{{ user }}</p>`,
			"h20_b.vuego": `<h1>{{ title }}</h1><p>{{ greeting }}|{{ user }}</p>`,
		}
		v := vuego.NewVue(pf.FS())
		t := vuego.NewFS(pf.FS())
		plain := map[string]any{"user": "ann"}
		named := c09Props{"user": "ann"}
		typed := map[string]string{"user": "ann"}
		for i := range out {
			var data any = named
			switch i % 3 {
			case 1:
				data = &plain
			case 2:
				data = typed
			}
			out[i] = []c09Call{mk("a", func(b *bytes.Buffer) error { return v.Render(b, "h20_a.vuego", data) }),
				mk("b", func(b *bytes.Buffer) error { return v.Render(b, "h20_b.vuego", data) }),
				mk("tpl", func(b *bytes.Buffer) error { return t.Load("h20_a.vuego").Fill(data).Render(bg, b) })}
		}
	case "H21-unseen-expressions-with-variables-named-like-library-functions":
		// every request compiles a condition the engine has not seen, over a variable that is called
		// like a function of the expression library (type, last, first, len ...): each compilation
		// leaves those functions out on its own
		names := []string{"type", "last", "first", "len", "max", "min"}
		t := vuego.New()
		for i := range out {
			name := names[i%len(names)]
			tpl := fmt.Sprintf(`<b v-if="%s == 'v%d'">%s-{{ canary }}</b><i v-else>no</i><u :title="%s + '!'">t</u>`, name, i, name, name)
			data := map[string]any{name: fmt.Sprintf("v%d", i), "canary": fmt.Sprintf("CANARY_T%d", i)}
			out[i] = []c09Call{mk("cold", func(b *bytes.Buffer) error { return t.New().Fill(data).RenderString(bg, b, tpl) })}
		}
	case "H19-processor-with-per-render-state":
		// a node processor that numbers elements: the count lives in the instance New() hands out
		// for each render, in the pre-processing and in the post-processing step
		pf := Files{"h19_page.vuego": `<h2>a</h2><p>{{ canary }}</p><h2>b</h2><template include="h19_c.vuego"></template>`, "h19_c.vuego": `<h2>c</h2>`}
		t := vuego.NewFS(pf.FS(), vuego.WithProcessor(&c09NumProc{}))
		v := vuego.NewVue(pf.FS())
		v.RegisterNodeProcessor(&c09NumProc{})
		for i := range out {
			i := i
			out[i] = []c09Call{mk("tpl", func(b *bytes.Buffer) error { return t.Load("h19_page.vuego").Fill(tdata(i)).Render(bg, b) }),
				mk("vue", func(b *bytes.Buffer) error { return v.Render(b, "h19_page.vuego", tdata(i)) })}
		}
	default:
		panic("unknown driver " + driver)
	}
	return out
}

// c09Props is a named map type, as web frameworks have them
type c09Props map[string]any

// c09NumProc numbers the <h2> elements it is shown: id="sec-N" before evaluation, data-n="N" after.
type c09NumProc struct{ pre, post int }

func (p *c09NumProc) New() vuego.NodeProcessor { return &c09NumProc{} }
func (p *c09NumProc) PreProcess(nodes []*html.Node) error {
	c09WalkH2(nodes, func(n *html.Node) {
		p.pre++
		n.Attr = append(n.Attr, html.Attribute{Key: "id", Val: fmt.Sprintf("sec-%d", p.pre)})
	})
	return nil
}
func (p *c09NumProc) PostProcess(nodes []*html.Node) error {
	c09WalkH2(nodes, func(n *html.Node) {
		p.post++
		n.Attr = append(n.Attr, html.Attribute{Key: "data-n", Val: fmt.Sprint(p.post)})
	})
	return nil
}

func c09WalkH2(nodes []*html.Node, f func(*html.Node)) {
	for _, n := range nodes {
		if n == nil {
			continue
		}
		if n.Type == html.ElementNode && n.Data == "h2" {
			f(n)
		}
		var kids []*html.Node
		for c := n.FirstChild; c != nil; c = c.NextSibling {
			kids = append(kids, c)
		}
		c09WalkH2(kids, f)
	}
}

var c09Drivers = []string{"H1-cold-cache-same-file", "H2-shared-caller-map", "H3-v-once-warm", "H4-unseen-paths-and-expressions", "H4b-path-cache-at-limit", "H5-include-slots-layout-filters", "H6-files-edited-underneath", "H7-renderstring-on-new", "H8-funcs-and-errors", "H9-components-with-v-once-and-wrappers", "H10-same-page-different-data", "H11-front-matter-page-with-template-variables-vue", "H12-front-matter-page-with-template-variables-load", "H13-attribute-slices-with-spare-capacity-vue", "H14-attribute-slices-with-spare-capacity-load", "H15-layout-page-with-v-once-and-shorthand", "H16-layout-page-warm", "H17-shared-defaults-plus-assign", "H18-less-processor", "H19-processor-with-per-render-state", "H20-shared-read-only-data-of-other-map-types", "H21-unseen-expressions-with-variables-named-like-library-functions", "H22-cold-cache-edited-underneath", "H23-wide-and-narrow-loop-scopes"}

// c09Reset puts every piece of process-global state the engine has into its initial state.
func c09Reset(driver string) {
	vsync.ResetAllPools()
	vuego.ZVerifResetPathCache()
	if driver == "H4b-path-cache-at-limit" {
		// fill the parsed-path cache to just below its limit of 256 so that the threads race for the last slots
		s := vuego.NewStack(map[string]any{"q": map[string]any{}})
		for i := 0; vuego.ZVerifPathCacheLen() < 254; i++ {
			s.Resolve(fmt.Sprintf("q.fill%d", i))
		}
	}
}

// c09Solo computes the acceptable results of every call: run alone on a fresh engine.
// For the edit driver: alone on every combination of old/new versions of the edited files.
func c09Solo(driver string, threads int) map[string]map[string]bool {
	acc := map[string]map[string]bool{}
	add := func(name, r string) {
		if acc[name] == nil {
			acc[name] = map[string]bool{}
		}
		acc[name][r] = true
	}
	if driver == "H6-files-edited-underneath" || driver == "H22-cold-cache-edited-underneath" {
		later := baseTime.Add(time.Hour)
		for _, pageNew := range []bool{false, true} {
			for _, compNew := range []bool{false, true} {
				c09Reset(driver)
				fsys := c09Files().FS()
				if pageNew {
					fsys["h6_page.vuego"] = &fstest.MapFile{Data: []byte(c09EditedPage), ModTime: later}
				}
				if compNew {
					fsys["c_card.vuego"] = &fstest.MapFile{Data: []byte(c09EditedComp), ModTime: later}
				}
				for ti := 0; ti < threads-1; ti++ {
					var buf bytes.Buffer
					err := vuego.NewFS(fsys).Load("h6_page.vuego").Fill(tdata(ti)).Render(bg, &buf)
					add(fmt.Sprintf("incl-edited@t%d", ti), res(buf.String(), err))
					var vbuf bytes.Buffer
					verr := vuego.NewVue(fsys).Render(&vbuf, "h6_page.vuego", tdata(ti))
					add(fmt.Sprintf("vue-edited@t%d", ti), res(vbuf.String(), verr))
					if pageNew && compNew && ti == 0 {
						add("FINAL", res(buf.String()+"\x01"+vbuf.String(), err))
					}
				}
			}
		}
		return acc
	}
	c09Reset(driver)
	calls := c09Build(driver, threads)
	for ti, th := range calls {
		for ci, cl := range th {
			// a fresh engine for every solo call
			c09Reset(driver)
			fresh := c09Build(driver, threads)
			out, err := fresh[ti][ci].run()
			add(cl.name, res(out, err))
		}
	}
	return acc
}

const c09EditedPage = `<section>EDITED<template include="c_card.vuego" heading="e" :c="canary"></template></section>`
const c09EditedComp = `<div class="card2">{{ heading }}|{{ c }}</div>`

var raceFrameRe = regexp.MustCompile(`^\s+(github\.com/titpetric/vuego[^\s(]*(\([^)]*\))?[^\s(]*)\(`)

// parseRaces extracts, per report, the innermost vuego frames of the two accesses.
func parseRaces(log string) []string {
	var sigs []string
	for _, rep := range strings.Split(log, "WARNING: DATA RACE")[1:] {
		var tops []string
		sections := regexp.MustCompile(`(?m)^(Write|Read|Previous write|Previous read|Atomic [a-z]+|Previous atomic [a-z]+) at `).Split(rep, -1)
		for _, sec := range sections[1:] {
			if len(tops) == 2 {
				break
			}
			top := "unknown"
			for _, line := range strings.Split(sec, "\n") {
				if strings.HasPrefix(strings.TrimSpace(line), "Goroutine ") {
					break
				}
				if m := raceFrameRe.FindStringSubmatch(line); m != nil && !strings.Contains(m[1], "/zverif/") {
					top = strings.TrimPrefix(m[1], "github.com/titpetric/vuego")
					top = strings.TrimPrefix(strings.TrimPrefix(top, "/"), ".")
					break
				}
			}
			tops = append(tops, top)
		}
		sort.Strings(tops)
		sigs = append(sigs, strings.Join(tops, "<->"))
	}
	return sigs
}

var raceLogOffset int64

func readNewRaceLog() string {
	prefix := os.Getenv("VERIF_RACE_LOG")
	if prefix == "" {
		return ""
	}
	path := fmt.Sprintf("%s.%d", prefix, os.Getpid())
	f, err := os.Open(path)
	if err != nil {
		return ""
	}
	defer f.Close()
	st, _ := f.Stat()
	if st.Size() <= raceLogOffset {
		return ""
	}
	b := make([]byte, st.Size()-raceLogOffset)
	f.ReadAt(b, raceLogOffset)
	raceLogOffset = st.Size()
	return string(b)
}

func (c *c09Case) Run(ctx *core.Ctx) {
	ctx.NonTrivial()
	if !sched.RaceEnabled {
		ctx.Count("WARNING-binary-built-without-race-detector", 1)
	}
	if c.Free {
		c.runFree(ctx)
		return
	}
	c09Controlled = false
	solo := c09Solo(c.Driver, c.Threads)
	readNewRaceLog() // discard anything reported while computing solo results (sequential, must be none)
	results := make([][]string, c.Threads)
	mk := func() []func() {
		c09Controlled = false
		c09Reset(c.Driver)
		c09Final = nil
		calls := c09Build(c.Driver, c.Threads)
		c09Controlled = true
		ths := make([]func(), c.Threads)
		for i := range ths {
			i := i
			results[i] = results[i][:0]
			ths[i] = func() {
				for _, cl := range calls[i] {
					out, err := cl.run()
					results[i] = append(results[i], cl.name+"\x00"+res(out, err))
				}
			}
		}
		return ths
	}
	check := func(choices []int, r sched.Result, err error, racesBefore int) bool {
		c09Controlled = false
		ctx.Eval(1)
		ctx.State(1)
		ctx.Transition(len(r.Points))
		ctx.Count("sync-operations", r.Ops)
		rep := func(kind, where, trig, detail string) {
			cs := *c
			cs.Choices = choices
			ctx.ViolationFor(&cs, kind, where, trig, detail)
		}
		if err != nil {
			kind := "scheduler-error"
			if strings.HasPrefix(err.Error(), "PANIC") {
				kind = "panic"
			}
			rep(kind, c.Driver, core.PanicClass(err.Error()), fmt.Sprintf("schedule %v: %v", choices, err))
			return false
		}
		if r.Deadlock {
			rep("deadlock", c.Driver, fmt.Sprintf("blocked-%d", len(r.Blocked)), fmt.Sprintf("schedule %v: threads %v blocked forever", choices, r.Blocked))
			return false
		}
		for ti := range results {
			for _, rr := range results[ti] {
				name, val, _ := strings.Cut(rr, "\x00")
				if name == "EDIT" {
					continue
				}
				if !solo[name][val] {
					rep("cross-talk", c.Driver, name, fmt.Sprintf("schedule %v: call %s on thread %d returned a result it never returns alone\n got: %q\nsolo: %q", choices, name, ti, clip(val, 500), clip(strings.Join(keysOf(solo[name]), " || "), 500)))
				}
			}
		}
		if c09Final != nil {
			out, ferr := c09Final()
			if val := res(out, ferr); !solo["FINAL"][val] {
				rep("stale-after-threads-finished", c.Driver, "FINAL", fmt.Sprintf("schedule %v: when every thread was done the engine rendered\n got: %q\nwant: %q", choices, clip(val, 500), clip(strings.Join(keysOf(solo["FINAL"]), " || "), 500)))
			}
		}
		var outs []string
		for ti := range results {
			outs = append(outs, strings.Join(results[ti], "|"))
		}
		ctx.Outcome(strings.Join(outs, "#"))
		if d := sched.RaceErrors() - racesBefore; d > 0 {
			log := readNewRaceLog()
			sigs := parseRaces(log)
			if len(sigs) == 0 {
				sigs = []string{"unparsed"}
			}
			for _, s := range sigs {
				rep("data-race", s, "race-detector", fmt.Sprintf("driver %s schedule %v: race detector reported\n%s", c.Driver, choices, clip(log, 3000)))
			}
		}
		return true
	}

	if len(c.Choices) > 0 || c.Shards == 0 {
		// replay of one schedule (twice: identical observations are required)
		before := sched.RaceErrors()
		r, err := sched.Run(mk(), c.Choices)
		check(c.Choices, r, err, before)
		return
	}
	// base execution, then the level-1 alternatives assigned to this shard, each explored fully
	before := sched.RaceErrors()
	base, err := sched.Run(mk(), nil)
	if c.Shard == 0 {
		if !check(base.Choices, base, err, before) {
			return
		}
		// determinism: replaying the recorded choice vector must give the identical execution
		r2, err2 := sched.Run(mk(), base.Choices)
		if err2 != nil || fmt.Sprint(r2.Choices) != fmt.Sprint(base.Choices) || len(r2.Points) != len(base.Points) {
			ctx.Violation("replay-diverged", c.Driver, "determinism", fmt.Sprintf("replaying %v gave %v (%v)", base.Choices, r2.Choices, err2))
			return
		}
	} else if err != nil || base.Deadlock {
		return
	}
	alt := 0
	limit := 200000
	for i := 0; i < len(base.Points); i++ {
		p := base.Points[i]
		cost := sched.Preemptions(base.Points, i)
		for a := 1; a < len(p.Enabled); a++ {
			cc := cost
			if p.RunningEnabled {
				cc++
			}
			if cc > c.Bound {
				continue
			}
			alt++
			if alt%c.Shards != c.Shard {
				continue
			}
			prefix := append(append([]int(nil), base.Choices[:i]...), a)
			ok := true
			execs, complete := exploreFrom(mk, prefix, c.Bound, limit, func(choices []int, r sched.Result, err error, before int) bool {
				ok = check(choices, r, err, before)
				return ok
			})
			_ = execs
			if !complete {
				ctx.Count("CAPPED-subtrees", 1)
			}
			if !ok {
				return
			}
		}
	}
}

// exploreFrom explores the subtree below prefix (all schedules extending it within the bound).
func exploreFrom(mk func() []func(), prefix []int, bound, limit int, visit func([]int, sched.Result, error, int) bool) (int, bool) {
	execs, complete, stop := 0, true, false
	var rec func(prefix []int)
	rec = func(prefix []int) {
		if stop {
			return
		}
		if execs >= limit {
			complete, stop = false, true
			return
		}
		before := sched.RaceErrors()
		r, err := sched.Run(mk(), prefix)
		execs++
		if !visit(append([]int(nil), r.Choices...), r, err, before) {
			stop = true
			return
		}
		for i := len(prefix); i < len(r.Points); i++ {
			p := r.Points[i]
			cost := sched.Preemptions(r.Points, i)
			for a := 1; a < len(p.Enabled); a++ {
				cc := cost
				if p.RunningEnabled {
					cc++
				}
				if cc > bound {
					continue
				}
				rec(append(append([]int(nil), r.Choices[:i]...), a))
				if stop {
					return
				}
			}
		}
	}
	rec(prefix)
	return execs, complete
}

// runFree: the same harness bodies free-running (no scheduler) under the race detector.
// Not the deciding step: a guard against a synchronisation primitive the seam does not cover.
func (c *c09Case) runFree(ctx *core.Ctx) {
	c09Controlled = false
	// no scheduler: the seam types behave like package sync (pool guarded by a real mutex)
	old := vsync.S
	vsync.S = nil
	defer func() { vsync.S = old }()
	solo := c09Solo(c.Driver, 3)
	readNewRaceLog()
	before := sched.RaceErrors()
	for rep := 0; rep < 20; rep++ {
		c09Reset(c.Driver)
		calls := c09Build(c.Driver, 3)
		var wg sync.WaitGroup
		var mu sync.Mutex
		var bad []string
		for g := 0; g < 16; g++ {
			wg.Add(1)
			g := g
			go func() {
				defer wg.Done()
				for _, cl := range calls[g%3] {
					out, err := cl.run()
					if cl.name != "EDIT" && !solo[cl.name][res(out, err)] {
						_ = g
						mu.Lock()
						bad = append(bad, cl.name+": "+clip(res(out, err), 300))
						mu.Unlock()
					}
				}
			}()
		}
		wg.Wait()
		ctx.Eval(16)
		for _, b := range bad {
			ctx.Violation("cross-talk", c.Driver+"/free-running", "free", b)
		}
	}
	if d := sched.RaceErrors() - before; d > 0 {
		log := readNewRaceLog()
		for _, s := range parseRaces(log) {
			ctx.Violation("data-race", s, "race-detector", "free-running "+c.Driver+"\n"+clip(log, 3000))
		}
	}
}

func init() {
	core.Register(&core.Check{
		ID:          "C09",
		Level:       "model_checking",
		CPUBudget:   60,
		WorkerProcs: 4,
		Workers:     16,
		WorkerEnv: func(runDir string) []string {
			return []string{"GORACE=log_path=" + runDir + "/race halt_on_error=0 exitcode=0 history_size=2", "VERIF_RACE_LOG=" + runDir + "/race"}
		},
		Rule: fmt.Sprint(len(c09Drivers)) + " drivers (among them: cold cache on the same file; shared caller map through Vue.Render and Load().Fill; v-once with a warm cache; previously unseen paths and expressions, also with the global path cache two entries below its limit; include+slots+layout+filters+shorthand; page and component edited underneath by an editor thread, with a warm cache and with a cold one (where the engine must serve the new version once every thread is done); RenderString on New(); registered functions and failing renders; components with v-once and wrapper components; one page with different data per thread; a front-matter page that sets per-request variables with top-level <template :var> through Vue.Render and through Load().Fill().Render; inline LESS styles on an engine with files and on an engine for string templates, whose LESS processor has no file system; a loop whose iterations hold ten variables next to a plain loop that reads a variable of its own), each with 2 (thorough: also 3) real goroutines on one shared engine. " +
			"Every schedule with at most b preemptions is executed under a controlled scheduler that owns every Lock/RLock/Unlock/Pool/Once operation of the vuego module (and file-system opens in the edit driver); per schedule: every call's bytes and error equal one of its solo results, runtime.RaceErrors() did not increase (race detector in the loop, hand-offs invisible to it), no deadlock, no panic. One recorded schedule per driver is replayed and must reproduce exactly. A free-running -race pass of the same bodies complements it. states = schedules executed, transitions = scheduling points; non-trivial = all",
		Bounds:      map[string]string{"quick": "2 threads, preemption bound 2", "thorough": "2 threads bound 3; 3 threads bound 2"},
		Assumptions: []string{"sequentially consistent interleavings at synchronisation operations; unsynchronised accesses are caught by the race detector on each explored schedule instead", "cmd/vinstr rewrites every use of package sync in the vuego module (5 files today); other blocking primitives (channels, atomics) are not used by the module"},
		Decode:      core.DecodeAs[c09Case](),
		Enumerate: func(tier string, emit func(core.Case)) {
			shards := 8
			for _, d := range c09Drivers {
				for s := 0; s < shards; s++ {
					emit(&c09Case{Driver: d, Threads: 2, Bound: 2, Shard: s, Shards: shards})
				}
				emit(&c09Case{Driver: d, Free: true})
			}
			if tier == "thorough" {
				for _, d := range c09Drivers {
					for s := 0; s < 16; s++ {
						emit(&c09Case{Driver: d, Threads: 2, Bound: 3, Shard: s, Shards: 16})
						emit(&c09Case{Driver: d, Threads: 3, Bound: 2, Shard: s, Shards: 16})
					}
				}
			}
		},
	})
}
