package checks

import (
	"fmt"
	"reflect"
	"sort"
	"strings"

	"golang.org/x/net/html"

	"verif/engine/core"
	"verif/engine/htmlcmp"
)

// C04: v-for renders one scoped instance per item, in order, restores the scope, and
// a following v-else renders exactly when there were no instances.

type c04Root struct {
	Name  string         `json:"name"`
	Xs    any            `json:"xs"`
	O     map[string]any `json:"o"`
	Outer string         `json:"outer"`
	T     bool           `json:"t"`
	Rows  [][]int        `json:"rows"`
}

type c04Item struct {
	Name string `json:"name"`
	K    int    `json:"k"`
}

// collection constructors by kind and length; item printing path by kind
func c04Coll(kind string, n int) (coll any, present bool, itemPath string, items []string) {
	present = true
	switch kind {
	case "anys":
		s := []any{}
		for i := 0; i < n; i++ {
			s = append(s, fmt.Sprintf("a%d", i))
			items = append(items, fmt.Sprintf("a%d", i))
		}
		coll = s
	case "anysnil":
		// untyped nil items: the binding exists and is nil (must still shadow outer names)
		s := []any{}
		for i := 0; i < n; i++ {
			if i%2 == 1 {
				s = append(s, nil)
				items = append(items, "")
			} else {
				s = append(s, fmt.Sprintf("a%d", i))
				items = append(items, fmt.Sprintf("a%d", i))
			}
		}
		coll = s
	case "ptrsnil":
		s := []*c04Item{}
		for i := 0; i < n; i++ {
			if i%2 == 0 {
				s = append(s, nil)
				items = append(items, "")
			} else {
				s = append(s, &c04Item{Name: fmt.Sprintf("p%d", i)})
				items = append(items, fmt.Sprintf("p%d", i))
			}
		}
		coll, itemPath = s, ".Name"
	case "ints":
		s := []int{}
		for i := 0; i < n; i++ {
			s = append(s, 10+i)
			items = append(items, fmt.Sprint(10+i))
		}
		coll = s
	case "int32s":
		s := []int32{}
		for i := 0; i < n; i++ {
			s = append(s, int32(i))
			items = append(items, fmt.Sprint(i))
		}
		coll = s
	case "strings":
		s := []string{}
		for i := 0; i < n; i++ {
			s = append(s, fmt.Sprintf("s%d", i))
			items = append(items, fmt.Sprintf("s%d", i))
		}
		coll = s
	case "bools":
		s := []bool{}
		for i := 0; i < n; i++ {
			s = append(s, i%2 == 0)
			items = append(items, fmt.Sprint(i%2 == 0))
		}
		coll = s
	case "array":
		if n != 2 {
			return nil, false, "", nil
		}
		coll, items = [2]int{7, 8}, []string{"7", "8"}
	case "maps":
		s := []map[string]any{}
		for i := 0; i < n; i++ {
			s = append(s, map[string]any{"k": fmt.Sprintf("m%d", i)})
			items = append(items, fmt.Sprintf("m%d", i))
		}
		coll, itemPath = s, ".k"
	case "structs":
		s := []c04Item{}
		for i := 0; i < n; i++ {
			s = append(s, c04Item{Name: fmt.Sprintf("n%d", i), K: i})
			items = append(items, fmt.Sprintf("n%d", i))
		}
		coll, itemPath = s, ".Name"
	case "ptrslice": // a pointer to a slice (what a field of type *[]T holds)
		s := []string{}
		for i := 0; i < n; i++ {
			s = append(s, fmt.Sprintf("q%d", i))
			items = append(items, fmt.Sprintf("q%d", i))
		}
		coll = &s
	case "ptrarray":
		if n != 2 {
			return nil, false, "", nil
		}
		coll, items = &[2]int{7, 8}, []string{"7", "8"}
	case "structsWhole":
		// the item itself is printed: a struct value, not something that stands for it (a pointer)
		s := []c04Item{}
		for i := 0; i < n; i++ {
			s = append(s, c04Item{Name: fmt.Sprintf("n%d", i), K: i})
			items = append(items, fmt.Sprint(c04Item{Name: fmt.Sprintf("n%d", i), K: i}))
		}
		coll = s
	case "structsTag":
		s := []c04Item{}
		for i := 0; i < n; i++ {
			s = append(s, c04Item{Name: fmt.Sprintf("n%d", i), K: i})
			items = append(items, fmt.Sprintf("n%d", i))
		}
		coll, itemPath = s, ".name"
	case "ptrs":
		s := []*c04Item{}
		for i := 0; i < n; i++ {
			s = append(s, &c04Item{Name: fmt.Sprintf("p%d", i)})
			items = append(items, fmt.Sprintf("p%d", i))
		}
		coll, itemPath = s, ".Name"
	case "nilslice":
		if n != 0 {
			return nil, false, "", nil
		}
		coll = []int(nil)
	case "nilvalue":
		if n != 0 {
			return nil, false, "", nil
		}
		coll = nil
	case "missing":
		if n != 0 {
			return nil, false, "", nil
		}
		return nil, false, "", nil
	}
	return
}

var c04Kinds = []string{"anys", "anysnil", "ptrsnil", "ints", "int32s", "strings", "bools", "array", "maps", "structs", "structsTag", "structsWhole", "ptrslice", "ptrarray", "ptrs", "nilslice", "nilvalue", "missing"}

type c04Case struct {
	Coll  string `json:"coll"`
	Len   int    `json:"len"`
	Path  string `json:"path"`  // xs | o.xs
	Form  string `json:"form"`  // x | ix
	Var   string `json:"var"`   // it | outer | Outer | name
	Else  string `json:"else"`  // none | adj | ws
	Elem  string `json:"elem"`  // plain | vif | bind | tmpl
	Root  string `json:"root"`  // map | struct | ptr
	Print string `json:"print"` // must | attr | expr
	Nest  string `json:"nest,omitempty"`
	Body  string `json:"body,omitempty"` // item consumer inside the loop body (body part)
	Entry string `json:"entry"`          // string | file
}

func (c *c04Case) render(tpl string, data any) (string, error) {
	if c.Entry == "file" {
		return renderPage(Files{"page.vuego": tpl}, "page.vuego", data)
	}
	if c.Entry == "incroot" {
		// the loop (and its v-else) is all a component's file holds: the file starts with the looped tag
		a, b := strings.Index(tpl, "<!--COMP-->"), strings.Index(tpl, "<!--/COMP-->")
		return renderStringFS(Files{"c.vuego": tpl[a+len("<!--COMP-->") : b]}, tpl[:a]+`<template include="c.vuego"></template>`+tpl[b+len("<!--/COMP-->"):], data)
	}
	return renderString(tpl, data)
}

func (c *c04Case) Key() string { return core.KeyOf(c) }

func (c *c04Case) build() (tpl string, data any, wantInst []string, wantElse bool, wantAfter string, ok bool) {
	coll, present, itemPath, items := c04Coll(c.Coll, c.Len)
	if c.Coll != "missing" && !present {
		return "", nil, nil, false, "", false
	}
	v := c.Var
	valExpr := v + itemPath
	pr := func(e string) string {
		if c.Print == "expr" {
			return "{{ true ? " + e + " : 0 }}"
		}
		if c.Print == "exprcall" { // an operator expression that also calls a registered function
			return "{{ trim('ab') == 'ab' ? " + e + " : 0 }}"
		}
		return "{{ " + e + " }}"
	}
	loop := v + " in " + c.Path
	inner := "[" + pr(valExpr) + "]"
	switch c.Form {
	case "ix":
		loop = "(i, " + v + ") in " + c.Path
	case "ixtight":
		loop = "(i," + v + ") in " + c.Path
	case "ixpad":
		loop = "( i , " + v + " ) in " + c.Path
	}
	if strings.HasPrefix(c.Form, "ix") {
		inner = "[" + pr("i") + "|" + pr(valExpr) + "]"
	}
	ix := strings.HasPrefix(c.Form, "ix")
	attrs := ""
	keep := func(i int) bool { return true }
	switch c.Elem {
	case "vif":
		if ix {
			attrs = ` v-if="i != 1"`
			keep = func(i int) bool { return i != 1 }
		} else {
			attrs = ` v-if="t"`
		}
	case "vifnone": // a per-item condition that is false for every item: the loop produces nothing
		attrs = ` v-if="nope"`
		keep = func(i int) bool { return false }
	case "bind":
		attrs = ` :data-v="` + valExpr + `"`
		if ix {
			attrs += ` :data-i="i + 100"`
		}
	}
	elseS := ""
	switch c.Else {
	case "adj":
		elseS = `<li v-else id="else">none</li>`
	case "ws":
		elseS = "\n  " + `<li v-else id="else">none</li>`
	case "comment": // a comment between the loop and its v-else does not separate them (as in a v-if chain)
		elseS = `<!-- shown when there is nothing to list -->` + `<li v-else id="else">none</li>`
	case "wscomment":
		elseS = "\n  <!-- c -->\n  " + `<li v-else id="else">none</li>`
	case "far":
		// the loop has no v-else of its own; a later, unrelated chain in the same parent has one
		elseS = `<li class="sep">s</li><li v-if="t" class="chain">yes</li><li v-else id="else">none</li>`
	}
	var loopS string
	if c.Elem == "tmpl" {
		loopS = `<template v-for="` + loop + `"><li class="inst">` + inner + `</li></template>`
	} else if c.Elem == "tmplkey" { // the usual list-rendering hint on a looped <template>
		loopS = `<template v-for="` + loop + `" :key="` + v + `"><li class="inst">` + inner + `</li></template>`
	} else if c.Elem == "tmplshadow" { // the body has a <template> (never evaluated) that binds a variable named like the loop's
		loopS = `<li class="inst" v-for="` + loop + `">` + inner + `<template v-if="nope" :` + v + `="1"><b>n</b></template></li>`
	} else {
		loopS = `<li class="inst" v-for="` + loop + `"` + attrs + `>` + inner + `</li>`
	}
	if c.Entry == "incroot" {
		loopS, elseS = "<!--COMP-->"+loopS, elseS+"<!--/COMP-->"
	}
	tpl = `<ul><li id="before">` + pr(v) + `</li>` + loopS + elseS + `</ul><p id="after">` + pr(v) + `</p>`

	for i, it := range items {
		if !keep(i) {
			continue
		}
		s := "[" + it + "]"
		if ix {
			s = fmt.Sprintf("[%d|%s]", i, it)
		}
		if c.Elem == "bind" {
			if it != "false" && it != "0" && it != "" { // a falsy bound value omits the attribute (C14)
				s += "@v=" + it
			}
			if ix {
				s += fmt.Sprintf("@i=%d", i+100)
			}
		}
		wantInst = append(wantInst, s)
	}
	nKept := 0
	for i := range items {
		if keep(i) {
			nKept++
		}
	}
	// the v-else sibling is rendered exactly when the loop produced nothing
	wantElse = c.Else != "none" && nKept == 0
	if c.Else == "far" {
		wantElse = false // that v-else belongs to the chain after the loop, whose v-if is true
	}
	// outer value of the loop variable name
	m := map[string]any{"o": map[string]any{}, "outer": "OUT", "t": true, "name": "ROOTNAME"}
	if present {
		m["xs"] = coll
		m["o"].(map[string]any)["xs"] = coll
	}
	r := c04Root{Name: "ROOTNAME", Outer: "OUT", T: true, O: map[string]any{}}
	if present {
		r.Xs = coll
		r.O["xs"] = coll
	}
	if c04Unusual[v] {
		// a loop variable spelled with letters outside ASCII, '$' or '_': an outer variable of that name exists in map data
		m[v] = "GOUT"
	}
	switch c.Root {
	case "map":
		data = m
		wantAfter = map[string]string{"it": "", "outer": "OUT", "Outer": "", "name": "ROOTNAME", "Name": ""}[v]
		if c04Unusual[v] {
			wantAfter = "GOUT"
		}
	case "struct":
		data = r
		wantAfter = map[string]string{"it": "", "outer": "OUT", "Outer": "OUT", "name": "ROOTNAME", "Name": "ROOTNAME"}[v]
	case "ptr":
		data = &r
		wantAfter = map[string]string{"it": "", "outer": "OUT", "Outer": "OUT", "name": "ROOTNAME", "Name": "ROOTNAME"}[v]
	}
	return tpl, data, wantInst, wantElse, wantAfter, true
}

// loop variable names beyond [A-Za-z0-9]
var c04Unusual = map[string]bool{"größe": true, "élément": true, "項": true, "_x": true, "it2": true, "$v": true, "last": true, "type": true, "key": true, "title": true, "file": true, "default": true, "json": true, "len": true, "upper": true}

// --- body part: every way a loop body can consume the item, differential against one-item loops

var c04BodyFiles = Files{
	"c.vuego":   `<em class="c">{{ p }}</em>`,
	"s.vuego":   `<div class="s"><slot></slot></div>`,
	"s2.vuego":  `<div class="s"><slot></slot><slot></slot></div>`,
	"sep.vuego": `<hr>`,
}

var c04Bodies = map[string]string{
	"text":      `x{{ it }}y`,
	"deep":      `<div><p><span>{{ it }}</span></p></div>`,
	"attr":      `<b title="t-{{ it }}">k</b>`,
	"bind":      `<b :title="it">k</b>`,
	"class":     `<b class="base" :class="it">k</b>`,
	"style":     `<b style="margin: 0" :style="{color: it}">k</b>`,
	"vtext":     `<b v-text="it">old</b>`,
	"vhtml":     `<b v-html="it">old</b>`,
	"tvhtml":    `<template v-html="it"></template>`,
	"vshow":     `<b style="top: 0" v-show="it == 's1'">{{ it }}</b>`,
	"vifinner":  `<b v-if="it == 's1'">yes-{{ it }}</b><b v-else>no-{{ it }}</b>`,
	"tmplvar":   `<template :z="it"></template><b>{{ z }}</b>`,
	// a <template> of the body that binds the loop's own variables again (one-based numbering,
	// a decorated item): inside the instance only - after the loop the outer values are back
	"tmplindex": `<template :i="i + 100"><s>k</s></template><b>{{ it }}</b>`,
	"tmplitem":  `<template :it="it + '!'"><s>{{ it }}</s></template>`,
	"include":   `<template include="c.vuego" :p="it"></template>`,
	"includes":  `<template include="c.vuego" p="q-{{ it }}"></template>`,
	"slot":      `<template include="s.vuego"><u :title="it">{{ it }}</u></template>`,
	"slot2":     `<template include="s2.vuego"><u :title="it" v-if="it">{{ it }}</u></template>`,
	"innerfor":  `<b v-for="q in two" :title="it">{{ q }}{{ it }}</b>`,
	"vhtmlattr": `<b v-html="it" :title="it" class="h">old</b>`,
	"pre":       `<pre>{{ it }}</pre>`,
	"filter":    `<b>{{ it | upper }}</b><i :title="it | upper">k</i>`,
	"incplain":  `<template include="sep.vuego"></template>x{{ it }}`,
	"slotplain": `<template include="s.vuego"><template v-slot><u>{{ it }}</u></template></template>`,
	"slotempty": `<template include="s.vuego"></template><u>{{ it }}</u>`,
	// a variable that the body sets for some items only (a plain attribute of a <template>) is
	// gone with the instance that set it
	"tmplplainif":   `<em v-if="it == 's1'"><template mark="M">!</template></em>[{{ it }}|{{ mark }}]`,
	"tmplplainelse": `<em v-if="it != 's1'">e</em><u v-else><template mark="M" note="N">!{{ mark }}</template></u>[{{ it }}|{{ mark }}{{ note }}]`,
}

var c04BodyNames = func() []string {
	var ns []string
	for k := range c04Bodies {
		ns = append(ns, k)
	}
	sort.Strings(ns)
	return ns
}()

func (c *c04Case) runBody(ctx *core.Ctx) {
	items := []string{"s0", "s1", "s2"}[:c.Len]
	if c.Coll == "htmls" {
		for i := range items {
			items[i] = fmt.Sprintf("<i>s%d</i>", i)
		}
	}
	body := c04Bodies[c.Body]
	if c.Body == "tmplindex" && c.Form != "ix" {
		ctx.Zone("index-rebound-without-index-variable") // (i is the outer variable then: a <template> binding writes through, by design)
		return
	}
	loopExpr := "it in xs"
	if c.Form == "ix" {
		loopExpr = "(i, it) in xs"
	}
	var tpl string
	if c.Elem == "tmpl" {
		tpl = `<ul><template v-for="` + loopExpr + `"><li class="inst">` + body + `</li></template></ul>`
	} else {
		tpl = `<ul><li class="inst" v-for="` + loopExpr + `">` + body + `</li></ul>`
	}
	// the loop variable shadows an outer variable of the same name: its value before and after the loop
	tpl = `<p id="before">{{ it }}|{{ i }}</p>` + tpl + `<p id="after">{{ it }}|{{ i }}</p>`
	render := func(xs []string) ([]string, string, error) {
		data := map[string]any{"xs": xs, "two": []int{1, 2}, "it": "OUT", "i": "OUTI"}
		ctx.Eval(1)
		var out string
		var err error
		if c.Entry == "file" {
			f := Files{"page.vuego": tpl}
			for k, v := range c04BodyFiles {
				f[k] = v
			}
			out, err = renderPage(f, "page.vuego", data)
		} else {
			out, err = renderStringFS(c04BodyFiles, tpl, data)
		}
		if err != nil {
			return nil, out, err
		}
		var inst []string
		parsed := htmlcmp.Parse(out)
		for _, id := range []string{"before", "after"} {
			if n := htmlcmp.ByID(parsed, id); n == nil || htmlcmp.Text(n) != "OUT|OUTI" {
				g := "<missing>"
				if n != nil {
					g = htmlcmp.Text(n)
				}
				return nil, out, fmt.Errorf("scope not restored: #%s shows %q, want \"OUT|OUTI\"", id, g)
			}
		}
		for _, n := range htmlcmp.Find(parsed, func(n *html.Node) bool { cl, _ := htmlcmp.Attr(n, "class"); return cl == "inst" }) {
			inst = append(inst, oneLine(htmlcmp.String(htmlcmp.Project([]*html.Node{n}, htmlcmp.Options{Values: true}))))
		}
		return inst, out, nil
	}
	where := "body/" + c.Body + "/" + c.Elem
	trig := c.Coll
	got, out, err := render(items)
	if err != nil {
		kind := "render-error"
		if strings.HasPrefix(err.Error(), "scope not restored") {
			kind = "scope-restore"
		}
		ctx.Violation(kind, where, trig, fmt.Sprintf("tpl %q items %q: %v (out %q)", tpl, items, err, clip(out, 300)))
		return
	}
	if c.Len > 1 {
		ctx.NonTrivial()
	}
	ctx.Outcome(strings.Join(got, ","))
	if len(got) != len(items) {
		ctx.Violation("instances", where, trig, fmt.Sprintf("tpl %q items %q: %d instances (out %q)", tpl, items, len(got), clip(out, 400)))
		return
	}
	for i, it := range items {
		// (a) the instance shows its own item and no other item
		for j := range items {
			mk := fmt.Sprintf("s%d", j)
			if has := strings.Contains(got[i], mk) || strings.Contains(got[i], strings.ToUpper(mk)); has != (i == j) {
				ctx.Violation("instance-item", where, trig, fmt.Sprintf("tpl %q items %q: instance %d is %s (marker %s present=%v)\nout %q", tpl, items, i, got[i], mk, has, clip(out, 400)))
				return
			}
		}
		// (b) it equals the only instance of a loop over just that item
		solo, sout, err := render([]string{it})
		if err != nil || len(solo) != 1 {
			ctx.Violation("instances", where, trig+"/solo", fmt.Sprintf("tpl %q item %q alone: %v %v (out %q)", tpl, it, solo, err, clip(sout, 300)))
			return
		}
		if solo[0] != got[i] {
			ctx.Violation("instance-differs-from-solo", where, trig, fmt.Sprintf("tpl %q items %q: instance %d is\n  %s\nbut a loop over [%q] alone gives\n  %s", tpl, items, i, got[i], it, solo[0]))
			return
		}
	}
}

func (c *c04Case) Run(ctx *core.Ctx) {
	if c.Body != "" {
		c.runBody(ctx)
		return
	}
	if c.Nest != "" {
		c.runNest(ctx)
		return
	}
	tpl, data, wantInst, wantElse, wantAfter, ok := c.build()
	if !ok {
		return
	}
	if c.Coll == "ptrsnil" && c.Print == "expr" {
		// a field of a nil pointer inside an expression: whether that is an error is the expression language's business
		ctx.Zone("field-of-nil-pointer-in-expression")
		return
	}
	if c.Coll == "structsTag" && c.Print == "expr" {
		// JSON-tag field access inside an expression is C13/C17's subject, not v-for's
		ctx.Zone("json-tag-in-expression")
		return
	}
	if c.Len > 0 {
		ctx.NonTrivial()
	}
	ctx.Eval(1)
	out, err := c.render(tpl, data)
	where := c.Elem + "/" + c.Form + "/" + c.Print + "/" + c.Entry
	trig := c.Coll + "/" + c.Root + "/" + c.Var
	if err != nil {
		ctx.Violation("render-error", where, trig, fmt.Sprintf("tpl %q: %v", tpl, err))
		return
	}
	nodes := htmlcmp.Parse(out)
	var got []string
	for _, n := range htmlcmp.Find(nodes, func(n *html.Node) bool { cl, _ := htmlcmp.Attr(n, "class"); return cl == "inst" }) {
		s := htmlcmp.NormText(htmlcmp.Text(n))
		if v, ok := htmlcmp.Attr(n, "data-v"); ok {
			s += "@v=" + v
		}
		if v, ok := htmlcmp.Attr(n, "data-i"); ok {
			s += "@i=" + v
		}
		got = append(got, s)
	}
	ctx.Outcome(strings.Join(got, ","))
	if strings.Join(got, ",") != strings.Join(wantInst, ",") {
		ctx.Violation("instances", where, trig, fmt.Sprintf("tpl %q: instances %v want %v (out %q)", tpl, got, wantInst, clip(out, 300)))
	}
	if c.Else == "far" {
		// the siblings after the loop are rendered unchanged: the separator and the chain's taken branch
		sep := htmlcmp.Find(nodes, func(n *html.Node) bool { cl, _ := htmlcmp.Attr(n, "class"); return cl == "sep" || cl == "chain" })
		if len(sep) != 2 {
			ctx.Violation("for-else", "far/"+c.Elem, c.Coll+fmt.Sprintf("/len%d", c.Len), fmt.Sprintf("tpl %q: the siblings after the loop are not rendered as they are (out %q)", tpl, clip(out, 300)))
		}
	}
	if gotElse := htmlcmp.ByID(nodes, "else") != nil; gotElse != wantElse {
		ctx.Violation("for-else", c.Else+"/"+c.Elem, c.Coll+fmt.Sprintf("/len%d", c.Len), fmt.Sprintf("tpl %q: v-else rendered=%v want %v (out %q)", tpl, gotElse, wantElse, clip(out, 300)))
	}
	txt := map[string]string{}
	for _, id := range []string{"before", "after"} {
		n := htmlcmp.ByID(nodes, id)
		if n == nil {
			ctx.Violation("scope-"+id, "element-lost", c.Root+"/"+c.Var, fmt.Sprintf("tpl %q: #%s missing (out %q)", tpl, id, clip(out, 300)))
			return
		}
		txt[id] = htmlcmp.NormText(htmlcmp.Text(n))
	}
	// differential oracle: the name has the same value after the loop as before it
	if txt["before"] != txt["after"] {
		ctx.Violation("scope-restore", c.Print+"/"+c.Form, c.Root+"/"+c.Var+fmt.Sprintf("/len%d", min(c.Len, 1)), fmt.Sprintf("tpl %q: before the loop %q, after it %q (out %q)", tpl, txt["before"], txt["after"], clip(out, 300)))
	}
	// reference value; field-name access inside expressions is C08/C13's subject
	// reference value; whether a Go field name (as opposed to its JSON tag) is visible depends on the
	// read position and entry point, which is C08's subject: only the differential oracle applies there
	if !(c.Root != "map" && (c.Var == "Name" || c.Var == "Outer")) && txt["after"] != wantAfter {
		ctx.Violation("scope-outer-value", c.Print+"/"+c.Form, c.Root+"/"+c.Var+fmt.Sprintf("/len%d", min(c.Len, 1)), fmt.Sprintf("tpl %q: after the loop %q want %q (out %q)", tpl, txt["after"], wantAfter, clip(out, 300)))
	}
}

func (c *c04Case) runNest(ctx *core.Ctx) {
	rows := [][]int{{1, 2}, {}, {3}}
	rows = rows[:c.Len]
	var tpl string
	var want []string
	switch c.Nest {
	case "inner":
		tpl = `<div class="row" v-for="(r, row) in rows"><i class="c" v-for="(j, c) in row">{{ r }}.{{ j }}={{ c }}</i><b v-else class="c">empty{{ r }}</b><u class="c">end{{ r }}:{{ len(row) }}</u></div>`
		for r, row := range rows {
			for j, v := range row {
				want = append(want, fmt.Sprintf("%d.%d=%d", r, j, v))
			}
			if len(row) == 0 {
				want = append(want, fmt.Sprintf("empty%d", r))
			}
			want = append(want, fmt.Sprintf("end%d:%d", r, len(row)))
		}
	case "byIndex", "byKey": // the inner collection is addressed through the outer loop's index / a key variable
		tpl = `<div class="row" v-for="(r, row) in rows"><i class="c" v-for="(j, c) in rows[r]">{{ r }}.{{ j }}={{ c }}</i><b v-else class="c">empty{{ r }}</b><u class="c">first{{ r }}:{{ rows[r][0] }}</u></div>`
		if c.Nest == "byKey" {
			tpl = `<div class="row" v-for="(r, k) in keys"><i class="c" v-for="(j, c) in byname[k]">{{ r }}.{{ j }}={{ c }}</i><b v-else class="c">empty{{ r }}</b></div>`
		}
		for r, row := range rows {
			for j, v := range row {
				want = append(want, fmt.Sprintf("%d.%d=%d", r, j, v))
			}
			if len(row) == 0 {
				want = append(want, fmt.Sprintf("empty%d", r))
			}
			if c.Nest == "byIndex" {
				f := ""
				if len(row) > 0 {
					f = fmt.Sprint(row[0])
				}
				want = append(want, fmt.Sprintf("first%d:%s", r, f))
			}
		}
	case "sameVar":
		tpl = `<div class="row" v-for="x in rows"><i class="c" v-for="x in x">{{ x }}</i><u class="c">after:{{ x }}</u></div>`
		for _, row := range rows {
			for _, v := range row {
				want = append(want, fmt.Sprint(v))
			}
			want = append(want, "after:"+fmt.Sprint(row))
		}
	case "indexShadow":
		tpl = `<div class="row" v-for="(i, row) in rows"><i class="c" v-for="(i, c) in row">{{ i }}:{{ c }}</i><u class="c">i={{ i }}</u></div>`
		for r, row := range rows {
			for j, v := range row {
				want = append(want, fmt.Sprintf("%d:%d", j, v))
			}
			want = append(want, fmt.Sprintf("i=%d", r))
		}
	}
	// (byKey: the rows under keys that are falsy or look like numbers: "", "0", "false", "a")
	keys := []string{"0", "false", "a"}[:c.Len]
	byname := map[string]any{}
	for i, k := range keys {
		byname[k] = rows[i]
	}
	var data any = map[string]any{"rows": rows, "keys": keys, "byname": byname}
	if c.Root == "struct" {
		data = c04Root{Rows: rows}
	} else if c.Root == "ptr" {
		data = &c04Root{Rows: rows}
	}
	ctx.NonTrivial()
	ctx.Eval(1)
	out, err := c.render(tpl, data)
	if err != nil {
		ctx.Violation("render-error", "nest/"+c.Nest, c.Root, fmt.Sprintf("tpl %q: %v", tpl, err))
		return
	}
	var got []string
	for _, n := range htmlcmp.Find(htmlcmp.Parse(out), func(n *html.Node) bool { cl, _ := htmlcmp.Attr(n, "class"); return cl == "c" }) {
		got = append(got, htmlcmp.NormText(htmlcmp.Text(n)))
	}
	if strings.Join(got, ",") != strings.Join(want, ",") {
		ctx.Violation("nested", c.Nest, c.Root+fmt.Sprintf("/rows%d", c.Len), fmt.Sprintf("tpl %q: got %v want %v (out %q)", tpl, got, want, clip(out, 400)))
	}
	_ = reflect.TypeOf
}

func init() {
	core.Register(&core.Check{
		ID:    "C04",
		Level: "exploration",
		Rule: "every combination of collection kind (18: incl. slices with nil items, slices of any/int/int32/string/bool/map/struct (fields and the whole item printed)/*struct, array, pointer to slice / array, nil slice, nil value, missing) x length x access path x loop form (incl. the tight and padded spellings of (i, v)) x loop-variable name (fresh / shadows a map key / shadows a root struct field by name / by JSON tag / spelled with non-ASCII letters, digits, _ or $ / named like a function of the expression library) x v-else (none / adjacent / after whitespace / after a comment / after both / none of its own, with an unrelated chain later) x looped element (plain, per-item v-if keeping some / no items, bindings, <template>, <template :key>, a body with an unevaluated <template> binding a variable named like the loop's) x root data (map/struct/*struct) x printing position ({{ }}, expression); the loop (with its v-else) as the whole content of a component file; plus nested loops; plus a body part: 25 ways a loop body can consume the item (text, deep text, interpolated/bound attribute, :class, :style, v-text, v-html, <template v-html>, v-show, inner v-if/v-else, <template :var>, include with bound / interpolated prop, slot content used once / twice, prop-less include, v-slot template without props, include without content, inner v-for, filters, pre, a <template> with plain attributes reached for one item only) x 1..3 items x loop form x looped element x entry point, with the oracle: instance i shows item i and no other item and equals the single instance of a loop over [item i] alone, and the outer variables named like the loop variables have their outer values before and after the loop. " +
			"oracle: reference interpreter gives the instance list, for-else presence and the value of the loop variable's name before and after the loop. non-trivial = at least one item",
		Bounds:      map[string]string{"quick": "lengths 0..2 in the full product, lengths up to 33 for 4 collection kinds, nesting depth 2", "thorough": "lengths 0..3, nesting depth 2"},
		Assumptions: []string{"iteration over maps is C10's subject, not enumerated here"},
		Decode:      core.DecodeAs[c04Case](),
		Enumerate: func(tier string, emit func(core.Case)) {
			maxLen := 2
			if tier == "thorough" {
				maxLen = 3
			}
			for _, root := range []string{"map", "struct", "ptr"} {
				for _, nest := range []string{"inner", "sameVar", "indexShadow", "byIndex", "byKey"} {
					if nest == "byKey" && root != "map" {
						continue
					}
					for n := 0; n <= 3; n++ {
						emit(&c04Case{Nest: nest, Root: root, Len: n, Entry: "string"})
						emit(&c04Case{Nest: nest, Root: root, Len: n, Entry: "file"})
					}
				}
			}
			for _, body := range c04BodyNames {
				for _, coll := range []string{"strings", "htmls"} {
					if coll == "htmls" && !strings.Contains(body, "html") {
						continue
					}
					for n := 1; n <= 3; n++ {
						for _, form := range []string{"x", "ix"} {
							for _, elem := range []string{"plain", "tmpl"} {
								for _, entry := range []string{"string", "file"} {
									emit(&c04Case{Body: body, Coll: coll, Len: n, Form: form, Elem: elem, Entry: entry})
								}
							}
						}
					}
				}
			}
			// long collections: lengths beyond the small-input regime of sorts, slices and maps
			for _, coll := range []string{"strings", "ints", "structs", "anysnil"} {
				for _, n := range []int{3, 4, 5, 7, 8, 9, 12, 13, 16, 17, 33} {
					for _, form := range []string{"x", "ix"} {
						for _, elem := range []string{"plain", "vif", "bind", "tmpl", "tmplkey", "tmplshadow"} {
							emit(&c04Case{Coll: coll, Len: n, Path: "xs", Form: form, Var: "it", Else: "adj", Elem: elem, Root: "map", Print: "must", Entry: "string"})
						}
					}
				}
			}
			// the loop as the root of a component file
			for _, coll := range []string{"strings", "structs", "nilslice", "missing"} {
				for n := 0; n <= 3; n++ {
					if _, present, _, _ := c04Coll(coll, n); (!present && coll != "missing") || (coll == "missing" && n != 0) {
						continue
					}
					for _, form := range []string{"x", "ix"} {
						for _, elem := range []string{"plain", "vif", "bind", "tmpl", "tmplkey"} {
							for _, els := range []string{"none", "adj", "ws", "comment", "wscomment"} {
								for _, v := range []string{"it", "outer"} {
									emit(&c04Case{Coll: coll, Len: n, Path: "xs", Form: form, Var: v, Else: els, Elem: elem, Root: "map", Print: "must", Entry: "incroot"})
								}
							}
						}
					}
				}
			}
			// spelling part: loop-variable names beyond ASCII letters and the documented spellings of the (i, v) form
			// ... and names of registered functions, printed from an expression that calls one
			for _, v := range []string{"title", "file", "default", "json", "len", "upper", "type"} {
				for _, form := range []string{"x", "ix"} {
					for _, coll := range []string{"strings", "structs"} {
						for n := 0; n <= 2; n++ {
							for _, elem := range []string{"plain", "vif", "bind", "tmpl"} {
								for _, pr := range []string{"must", "expr", "exprcall"} {
									emit(&c04Case{Coll: coll, Len: n, Path: "xs", Form: form, Var: v, Else: "adj", Elem: elem, Root: "map", Print: pr, Entry: "string"})
								}
							}
						}
					}
				}
			}
			for _, v := range []string{"größe", "élément", "項", "_x", "it2", "$v", "last", "type", "key"} {
				for _, form := range []string{"x", "ix", "ixtight", "ixpad"} {
					for _, coll := range []string{"strings", "structs"} {
						for n := 0; n <= 2; n++ {
							elems := []string{"plain", "vif", "bind", "tmpl"}
							if v == "key" || v == "it2" || v == "last" {
								elems = append(elems, "tmplkey", "tmplshadow")
							}
							for _, elem := range elems {
								for _, root := range []string{"map", "struct"} {
									for _, pr := range []string{"must", "expr"} {
										emit(&c04Case{Coll: coll, Len: n, Path: "xs", Form: form, Var: v, Else: "adj", Elem: elem, Root: root, Print: pr, Entry: "string"})
									}
								}
							}
						}
					}
				}
			}
			for _, form := range []string{"ixtight", "ixpad"} {
				for _, coll := range []string{"strings", "ints"} {
					for n := 0; n <= 2; n++ {
						for _, v := range []string{"it", "outer"} {
							emit(&c04Case{Coll: coll, Len: n, Path: "o.xs", Form: form, Var: v, Else: "ws", Elem: "plain", Root: "ptr", Print: "must", Entry: "file"})
						}
					}
				}
			}
			for _, coll := range c04Kinds {
				for n := 0; n <= maxLen; n++ {
					if _, present, _, _ := c04Coll(coll, n); !present && coll != "missing" {
						continue
					}
					if coll == "missing" && n != 0 {
						continue
					}
					for _, path := range []string{"xs", "o.xs"} {
						for _, form := range []string{"x", "ix"} {
							for _, v := range []string{"it", "outer", "Outer", "name", "Name"} {
								for _, el := range []string{"none", "adj", "ws", "far", "comment", "wscomment"} {
									for _, elem := range []string{"plain", "vif", "vifnone", "bind", "tmpl"} {
										for _, root := range []string{"map", "struct", "ptr"} {
											for _, pr := range []string{"must", "expr"} {
												emit(&c04Case{Coll: coll, Len: n, Path: path, Form: form, Var: v, Else: el, Elem: elem, Root: root, Print: pr, Entry: "string"})
												emit(&c04Case{Coll: coll, Len: n, Path: path, Form: form, Var: v, Else: el, Elem: elem, Root: root, Print: pr, Entry: "file"})
											}
										}
									}
								}
							}
						}
					}
				}
			}
		},
	})
}
