package checks

import (
	"bytes"
	"fmt"
	"io/fs"
	"net/url"
	"regexp"
	"sort"
	"strings"
	"testing/fstest"

	"github.com/yuin/goldmark"
	"github.com/yuin/goldmark/extension"
	ghtml "github.com/yuin/goldmark/renderer/html"

	"github.com/titpetric/vuego/markdown"

	"verif/engine/core"
	"verif/engine/htmlcmp"
)

// C20: Markdown rendering matches a CommonMark/GFM reference in structure and text.

type c20Case struct {
	Part string   `json:"part"` // inline | blocks | source | override
	Ctx  string   `json:"ctx,omitempty"`
	Tok  []int    `json:"tok,omitempty"`
	Src  string   `json:"src"`
	Over []string `json:"over,omitempty"`
	Site bool     `json:"site,omitempty"` // the content filesystem also holds a site: layouts/base.vuego, theme.yml, data/*.yml
}

func (c *c20Case) Key() string {
	return c.Part + "|" + c.Src + "|" + strings.Join(c.Over, ",") + fmt.Sprint(c.Site)
}

var c20Inline = []string{"w", " ", "*", "**", "_", "`code`", `[t](u "ti")`, "![a](s)", "<http://x.y>", "<b>", "&amp;", "&copy;", "<", "&", `\*`, `\<`, "{{ x }}", "  \n", "~~", "a < b", "\n", "`a\nb`", "`x\\|y`", `[e](u\_x "t\*")`, `[q](http://a.b/?x=1&amp;y=2 "a &amp; b")`, "![a *b* <c> &amp;](s)", "<!-- c -->", "www.ex.org/p", "https://pl.ex.net/y?a=1&b=2", "<dev@ex.com>", "me@ex.org", "![a `c\\*d` &amp;](s)", "[l `c\\*d`](u)", "&nbsp;", "[f](false)", "[m](a{{x}}b \"t{{ x }}\")", `[t](u "false")`, `![i](s "0")`, "![two\nlines](s)", "![foo ![bar](/u)](/v)", "[![*a* ![b](c) `d`](e)](f)", "![<http://a.b> c](x)", "![l [k](u) m](s)", `\&`, "ouml;", "&#38;", "&#0065;", "&#x22;", "amp;", "{#top}", "{.lead}", `{#a .b c="d"}`}

var c20Ref = goldmark.New(goldmark.WithExtensions(extension.GFM), goldmark.WithRendererOptions(ghtml.WithUnsafe()))

func c20Reference(src string) string {
	var buf bytes.Buffer
	if err := c20Ref.Convert([]byte(src), &buf); err != nil {
		return "ERROR " + err.Error()
	}
	return buf.String()
}

var styleAlignRe = regexp.MustCompile(`text-align:\s*(left|right|center)`)

// c20Project: normalised DOM with the documented presentational differences projected away.
var nlBetweenTags = regexp.MustCompile(`>\n+<`)

// c20Flows: the lines of inline content of the output, as a reader sees them (htmlcmp.FlowText
// of every element with inline content), one per line.
func c20Flows(out string) string {
	var fl []string
	for _, e := range htmlcmp.Project(htmlcmp.ParseFragment(out), htmlcmp.Options{Values: true, RawText: true, Flow: true}) {
		if e.Tag == "#flow" {
			fl = append(fl, e.Text)
		}
	}
	return strings.Join(fl, "\n")
}

func c20Project(out string) []htmlcmp.El {
	// newlines between tags are layout only; with unclosed raw HTML they would otherwise make
	// the HTML5 parser reconstruct formatting elements differently on the two sides
	out = nlBetweenTags.ReplaceAllString(out, "><")
	els := htmlcmp.Project(htmlcmp.ParseFragment(out), htmlcmp.Options{Values: true, RawText: true})
	for i := range els {
		e := &els[i]
		var attrs [][2]string
		for _, a := range e.Attrs {
			k, v := a[0], a[1]
			switch {
			case k == "id" && len(e.Tag) == 2 && e.Tag[0] == 'h':
				continue // heading ids are vuego's own addition
			case k == "style" && (e.Tag == "td" || e.Tag == "th"):
				if m := styleAlignRe.FindStringSubmatch(v); m != nil {
					k, v = "align", m[1]
				}
			case k == "start" && v == "1":
				continue
			case k == "align" && v == "":
				continue
			case k == "title" && v == "":
				continue
			case k == "href" || k == "src":
				// destinations are compared as URLs: percent-encoding of a character and the
				// character itself denote the same destination
				if u, err := url.PathUnescape(v); err == nil {
					v = u
				}
			}
			attrs = append(attrs, [2]string{k, v})
		}
		sort.Slice(attrs, func(i, j int) bool { return attrs[i][0] < attrs[j][0] })
		e.Attrs = attrs
	}
	return els
}

func c20Block(ctx, inline string) string {
	switch ctx {
	case "para":
		return inline + "\n"
	case "heading":
		return "## " + strings.ReplaceAll(inline, "\n", " ") + "\n"
	case "item":
		return "- " + strings.ReplaceAll(inline, "\n", "\n  ") + "\n- second\n"
	case "quote":
		return "> " + strings.ReplaceAll(inline, "\n", "\n> ") + "\n"
	case "quote2":
		return "> > " + strings.ReplaceAll(inline, "\n", "\n> > ") + "\n"
	case "cell":
		return "| h | k |\n|:--|--:|\n| " + strings.ReplaceAll(strings.ReplaceAll(inline, "\n", " "), "|", "") + " | c |\n"
	case "strong":
		return "**" + strings.ReplaceAll(inline, "\n", " ") + "**\n"
	}
	panic(ctx)
}

var c20Blocks = []string{
	"# H1 *em*\n", "###### H6\n", "Setext\n======\n", "para one\nsoft break\n", "```go\nx := 1 < 2 && y\n```\n", "```\nplain {{ x }}\n```\n", "    indented <b>\n",
	"> quote\n> > nested\n", "- a\n- b\n", "1. one\n2. two\n", "3. three\n4. four\n", "- loose\n\n- items\n", "- outer\n  - inner\n", "- [ ] todo\n- [x] done\n",
	"| a | b |\n|:-:|---|\n| 1 | 2 |\n", "---\n", "0. zero\n1. one\n", "<div>\nhtml block\n</div>\n", "<!-- comment block -->\n", "<pre>\nraw\n\n*pre*\n</pre>\n", "<div class=\"raw\">html *not md*</div>\n", "text with `code` and [link](http://l \"T\") and ![img](i.png)\n", "line  \nhard break\n",
	// code blocks: tabs that straddle the indentation column inside containers, a document that ends inside a code block
	"- foo\n\n\t\tbar\n\t\tbaz\n", ">\t\tfoo\n", "1. a\n\n   ```\n\tx\n   ```\n", "\tcode\twith tabs\n", "- a\n\n      code in item\n", "```\nfoo", "para\n\n    last line", "~~~go\n\tx := 1\n~~~\n", "| a |\n|---|\n", "| a | b |\n|:-:|--:|\n", "```false\nx\n```\n", "~~~0\nx\n~~~\n",
	// rows shorter and longer than the header of a table with aligned columns
	"| a | b | c |\n|:--|--:|:-:|\n| 1 |\n| x | y | z |\n", "| a | b |\n|--:|:-:|\n|\n| 1 | 2 | 3 |\n",
	// sizes: list starts of nine digits, five levels of nesting, a 13 x 13 table, 13 list items
	"123456789. big start\n", "- a\n  - b\n    - c\n      - d\n        - e\n", "> a\n> > b\n> > > c\n> > > > d\n", "| h0 | h1 | h2 | h3 | h4 | h5 | h6 | h7 | h8 | h9 | h10 | h11 | h12 |\n|:-:|--:|---|:-:|--:|---|:-:|--:|---|:-:|--:|---|:-:|\n| c00 | c01 | c02 | c03 | c04 | c05 | c06 | c07 | c08 | c09 | c010 | c011 | c012 |\n| c10 | c11 | c12 | c13 | c14 | c15 | c16 | c17 | c18 | c19 | c110 | c111 | c112 |\n| c20 | c21 | c22 | c23 | c24 | c25 | c26 | c27 | c28 | c29 | c210 | c211 | c212 |\n| c30 | c31 | c32 | c33 | c34 | c35 | c36 | c37 | c38 | c39 | c310 | c311 | c312 |\n| c40 | c41 | c42 | c43 | c44 | c45 | c46 | c47 | c48 | c49 | c410 | c411 | c412 |\n| c50 | c51 | c52 | c53 | c54 | c55 | c56 | c57 | c58 | c59 | c510 | c511 | c512 |\n| c60 | c61 | c62 | c63 | c64 | c65 | c66 | c67 | c68 | c69 | c610 | c611 | c612 |\n| c70 | c71 | c72 | c73 | c74 | c75 | c76 | c77 | c78 | c79 | c710 | c711 | c712 |\n| c80 | c81 | c82 | c83 | c84 | c85 | c86 | c87 | c88 | c89 | c810 | c811 | c812 |\n| c90 | c91 | c92 | c93 | c94 | c95 | c96 | c97 | c98 | c99 | c910 | c911 | c912 |\n| c100 | c101 | c102 | c103 | c104 | c105 | c106 | c107 | c108 | c109 | c1010 | c1011 | c1012 |\n| c110 | c111 | c112 | c113 | c114 | c115 | c116 | c117 | c118 | c119 | c1110 | c1111 | c1112 |\n| c120 | c121 | c122 | c123 | c124 | c125 | c126 | c127 | c128 | c129 | c1210 | c1211 | c1212 |\n",
	// the attribute syntax of other Markdown dialects is text in this one
	"## Install {#install}\n", "Setext title {#st .c}\n=====\n", "# H *e* {.lead}\n\npara {#p}\n", "```go {#code}\nx\n```\n",
	"1. i1\n2. i2\n3. i3\n4. i4\n5. i5\n6. i6\n7. i7\n8. i8\n9. i9\n10. i10\n11. i11\n12. i12\n13. i13\n",
}

// (the inline constructs come first: some block samples end inside an unterminated code block)
var allConstructs = "auto <http://a.b> and ~~del~~ and **strong** <i>raw</i>\n\n" + strings.Join(c20Blocks, "\n")

func mdRender(content fs.FS, src string) (string, error) {
	var buf bytes.Buffer
	err := markdown.New(content).RenderBytes(&buf, []byte(src))
	return buf.String(), err
}

var commentRe = regexp.MustCompile(`(?s)<!--.*?-->`)
var soupRe = regexp.MustCompile(`<[A-Za-z/!?][^>]*(<|$)`)

// c20TagSoup: the reference output contains raw HTML with a tag that is not closed before the
// next "<" (or the end).
func c20TagSoup(ref string) bool {
	return soupRe.MatchString(commentRe.ReplaceAllString(ref, ""))
}

var dataOvRe = regexp.MustCompile(` data-ov="([a-z_]+)"`)

func (c *c20Case) Run(ctx *core.Ctx) {
	ctx.NonTrivial()
	switch c.Part {
	case "sequence":
		// the documents of c.Over rendered one after the other by ONE Markdown renderer: each agrees
		// with the reference for that document alone (what a document defines - link references,
		// heading ids - ends with it)
		m := markdown.New(nil)
		for i, name := range c.Over {
			src := c10Docs[name]
			var buf bytes.Buffer
			ctx.Eval(1)
			if err := m.RenderBytes(&buf, []byte(src)); err != nil {
				ctx.Violation("render-error", "sequence", name, fmt.Sprintf("documents %v: %v", c.Over[:i+1], err))
				return
			}
			got, want := htmlcmp.String(c20Project(buf.String())), htmlcmp.String(c20Project(c20Reference(src)))
			if alone, _ := mdRender(nil, src); got != want && htmlcmp.String(c20Project(alone)) == want {
				ctx.Violation("reference-mismatch", "sequence", name, fmt.Sprintf("document %q rendered after %v by one renderer:\nvuego %q\n ref  %q", name, c.Over[:i], clip(buf.String(), 400), clip(c20Reference(src), 400)))
				return
			}
		}
		ctx.Outcome(strings.Join(c.Over, ">"))
	case "inline", "blocks":
		ctx.Eval(1)
		out, err := mdRender(nil, c.Src)
		where := c.Part
		if c.Part == "inline" {
			where = "inline/" + c.Ctx
		}
		if err != nil {
			ctx.Violation("render-error", where, c20Trigger(c), fmt.Sprintf("src %q: %v", c.Src, err))
			return
		}
		ref := c20Reference(c.Src)
		got, want := c20Project(out), c20Project(ref)
		gs, ws := htmlcmp.String(got), htmlcmp.String(want)
		ctx.Outcome(ws)
		if gs != ws && c20TagSoup(ref) {
			// raw HTML passed through by Markdown contains an unterminated tag: what an HTML
			// parser makes of it depends on the layout whitespace that follows, on both sides
			ctx.Zone("raw-html-with-unterminated-tag")
			return
		}
		if gs != ws {
			// cause-based classification: the <br></br> serialisation (C02 finding) doubles hard breaks
			if g2 := htmlcmp.String(c20Project(strings.ReplaceAll(out, "</br>", ""))); g2 == ws {
				// (one finding whatever block contains the break)
				ctx.Violation("reference-mismatch", c.Part, "hard-break-br-doubled", fmt.Sprintf("src %q\nvuego %q\n ref  %q", c.Src, clip(out, 400), clip(ref, 400)))
				return
			}
			w, t := c02Diff(got, want)
			if c.Part == "inline" {
				// attribute to a single token when that token alone (in a paragraph) already differs
				for _, i := range c.Tok {
					if c20AloneFails(ctx, i) {
						ctx.Violation("reference-mismatch", "inline/"+c20DiffKind(w), c20TokClass(c20Inline[i])+"-alone", fmt.Sprintf("src %q\nvuego %q\n ref  %q", c.Src, clip(out, 400), clip(ref, 400)))
						return
					}
				}
				where = "inline/" + c.Ctx
			}
			ctx.Violation("reference-mismatch", where+"/"+w, c20Trigger(c)+"/"+t, fmt.Sprintf("src %q\nvuego %q\n ref  %q\n got: %s\nwant: %s", c.Src, clip(out, 400), clip(ref, 400), oneLine(gs), oneLine(ws)))
		}
		if gs == ws {
			// same structure and text: the white space that separates inline content must be the same
			// too ("**bold**, then" is "bold, then", not "bold , then")
			gf, wf := c20Flows(out), c20Flows(ref)
			// (an unclosed raw <b> or <i> makes the HTML parser reopen it in later blocks depending
			// on layout white space: then the two sides do not have the same lines to compare)
			if gf != wf && !c20TagSoup(ref) && strings.Count(gf, "\n") == strings.Count(wf, "\n") {
				ctx.Violation("reference-mismatch", where+"/inline-spacing", c20Trigger(c), fmt.Sprintf("src %q\nvuego %q\n ref  %q\n got flow: %q\nwant flow: %q", c.Src, clip(out, 400), clip(ref, 400), clip(gf, 300), clip(wf, 300)))
			}
		}
	case "source":
		ctx.Eval(1)
		if _, err := mdRender(nil, c.Src); err != nil {
			ctx.Violation("render-error", "source", "token-string", fmt.Sprintf("src %q: %v", c.Src, err))
		}
	case "override":
		content := fstest.MapFS{}
		def := markdown.Templates()
		for _, name := range c.Over {
			b, err := fs.ReadFile(def, "markdown/"+name+".vuego")
			if err != nil {
				ctx.Violation("override-setup", name, "missing-default", err.Error())
				return
			}
			content["markdown/"+name+".vuego"] = &fstest.MapFile{Data: []byte(c20Mark(string(b), name)), ModTime: baseTime}
		}
		if c.Site {
			// the content filesystem is a whole site: its layouts, config and pages are not templates of Markdown elements
			content["layouts/base.vuego"] = &fstest.MapFile{Data: []byte(`<html><body class="site" v-html="content"></body></html>`), ModTime: baseTime}
			content["theme.yml"] = &fstest.MapFile{Data: []byte("href: THEME-HREF\ncontent: THEME-CONTENT\nlevel: 9\ncode: THEME-CODE\n"), ModTime: baseTime}
			content["data/site.yml"] = &fstest.MapFile{Data: []byte("title: DATA-TITLE\nsrc: DATA-SRC\n"), ModTime: baseTime}
			content["markdown/unrelated.vuego"] = &fstest.MapFile{Data: []byte(`<p>unrelated</p>`), ModTime: baseTime}
			content["paragraph.vuego"] = &fstest.MapFile{Data: []byte(`<p class="not-a-markdown-template">x</p>`), ModTime: baseTime}
		}
		ctx.Eval(2)
		base, err0 := mdRender(nil, c.Src)
		out, err := mdRender(content, c.Src)
		if err != nil || err0 != nil {
			ctx.Violation("render-error", "override", fmt.Sprint(len(c.Over)), fmt.Sprintf("%v / %v", err0, err))
			return
		}
		stripped := dataOvRe.ReplaceAllString(out, "")
		if stripped != base {
			ctx.Violation("override-changes-others", "override", fmt.Sprint(len(c.Over)), fmt.Sprintf("overriding %v changed more than the marked elements\n got %q\nwant %q", c.Over, clip(stripped, 300), clip(base, 300)))
		}
		seen := map[string]bool{}
		for _, m := range dataOvRe.FindAllStringSubmatch(out, -1) {
			seen[m[1]] = true
		}
		for _, name := range c.Over {
			if !seen[name] {
				ctx.Violation("override-ignored", name, fmt.Sprint(len(c.Over)), fmt.Sprintf("template %s overridden in the content filesystem but its marker does not appear (overrides %v)", name, c.Over))
			}
			delete(seen, name)
		}
		for name := range seen {
			ctx.Violation("override-leaked", name, fmt.Sprint(len(c.Over)), fmt.Sprintf("marker of %s appears although it was not overridden", name))
		}
		ctx.Outcome(strings.Join(c.Over, ","))
	}
}

// c20Mark adds data-ov="name" to the start tag of every top-level element of a default template.
var topTagRe = regexp.MustCompile(`(?m)^<([a-z0-9]+)`)

func c20Mark(tpl, name string) string {
	return topTagRe.ReplaceAllString(tpl, `<$1 data-ov="`+name+`"`)
}

var c20AloneCache = map[int]bool{}

func c20AloneFails(ctx *core.Ctx, tok int) bool {
	if v, ok := c20AloneCache[tok]; ok {
		return v
	}
	src := c20Block("para", "w"+c20Inline[tok]+"w")
	ctx.Eval(1)
	out, err := mdRender(nil, src)
	bad := err != nil || htmlcmp.String(c20Project(strings.ReplaceAll(out, "</br>", ""))) != htmlcmp.String(c20Project(c20Reference(src)))
	c20AloneCache[tok] = bad
	return bad
}

func c20DiffKind(w string) string {
	if i := strings.Index(w, ":"); i > 0 {
		return w[:i]
	}
	return w
}

func c20Trigger(c *c20Case) string {
	if c.Part != "inline" {
		return "block"
	}
	// classify by the set of token kinds involved
	var ks []string
	seen := map[string]bool{}
	for _, i := range c.Tok {
		k := c20TokClass(c20Inline[i])
		if !seen[k] {
			seen[k] = true
			ks = append(ks, k)
		}
	}
	sort.Strings(ks)
	return strings.Join(ks, "+")
}

func c20TokClass(t string) string {
	switch t {
	case "w", " ":
		return "word"
	case "*", "**", "_", "~~":
		return "delim"
	case "<", "a < b":
		return "lt"
	case "&":
		return "amp"
	case "&amp;", "&copy;":
		return "entity"
	case `\*`, `\<`:
		return "backslash"
	case "{{ x }}":
		return "mustache"
	case "<b>":
		return "rawhtml"
	case "`a\nb`":
		return "code-span-newline"
	case "`x\\|y`":
		return "code-span-pipe"
	case `[e](u\_x "t\*")`:
		return "link-backslash"
	case `[q](http://a.b/?x=1&amp;y=2 "a &amp; b")`:
		return "link-entity"
	case "![a *b* <c> &amp;](s)":
		return "image-alt-markup"
	case "<!-- c -->":
		return "html-comment"
	case "  \n", "\n":
		return "break"
	}
	return "construct"
}

// raw_html.vuego emits its content without an element of its own, so it cannot carry a marker
var c20TemplateNames = []string{"autolink", "blockquote", "code_block", "code_span", "emphasis", "hard_break", "heading", "image", "link", "list", "list_item", "paragraph", "strikethrough", "table", "task_checkbox", "thematic_break"}

func init() {
	core.Register(&core.Check{
		ID:        "C20",
		Level:     "exploration",
		CPUBudget: 30,
		Rule: "inline part: every token sequence up to the bound over 21 inline tokens (words, emphasis delimiters, code span, link with title, image, autolink, raw HTML, entities, bare < and &, backslash escapes, mustache text, hard and soft breaks, strikethrough) inside 6 block contexts (paragraph, heading, list item, blockquote, table cell, strong); blocks part: every sequence of <=2 blocks over 19 block kinds; " +
			"oracle: normalised DOM equals that of goldmark's own GFM HTML renderer (heading ids, align attr vs text-align style, start=1 projected away). source part: hostile token strings as Markdown must render without error. override part: subsets of 16 of the 17 default templates replaced by marker variants through the content filesystem: markers appear on exactly the overridden kinds and nothing else changes. non-trivial = all",
		Bounds:      map[string]string{"quick": "inline token sequences of length <=3 in 7 contexts; override subsets of size <=2 and the full set", "thorough": "inline token sequences of length <=3 over all tokens and of length 4 over the first 18; all override subsets of size <=3 and >=15"},
		Assumptions: []string{"goldmark's GFM renderer with html.WithUnsafe is the CommonMark/GFM reference", "whitespace between blocks and attribute order are insignificant"},
		Decode:      core.DecodeAs[c20Case](),
		Enumerate: func(tier string, emit func(core.Case)) {
			inline := func(tok []int) {
				in := joinTokens(c20Inline, tok)
				if strings.TrimSpace(in) == "" {
					return
				}
				for _, cx := range []string{"para", "heading", "item", "quote", "quote2", "cell", "strong"} {
					emit(&c20Case{Part: "inline", Ctx: cx, Tok: append([]int(nil), tok...), Src: c20Block(cx, in)})
				}
			}
			tokenStrings(c20Inline, 3, inline)
			if tier == "thorough" {
				// length 4 over the first 18 tokens (words, delimiters, code span, link, image, autolink, raw HTML, entities, escapes, mustache, hard break)
				var rec func(tok []int)
				rec = func(tok []int) {
					if len(tok) == 4 {
						inline(tok)
						return
					}
					for i := 0; i < 18; i++ {
						rec(append(tok, i))
					}
				}
				rec(nil)
			}
			for _, a := range c20Blocks {
				emit(&c20Case{Part: "blocks", Src: a})
				for _, b := range c20Blocks {
					emit(&c20Case{Part: "blocks", Src: a + "\n" + b})
				}
			}
			tokenStrings(c11Tokens, 3, func(tok []int) {
				emit(&c20Case{Part: "source", Src: joinTokens(c11Tokens, tok)})
			})
			// overrides
			n := len(c20TemplateNames)
			sizes := func(k int) bool { return k <= 2 || k == n }
			if tier == "thorough" {
				sizes = func(k int) bool { return k <= 3 || k >= n-2 }
			}
			for _, a := range c10DocNames {
				for _, b := range c10DocNames {
					if strings.HasPrefix(c10Docs[a], "---") || strings.HasPrefix(c10Docs[b], "---") {
						continue // front-matter is Load's business, not RenderBytes'
					}
					emit(&c20Case{Part: "sequence", Src: a + ">" + b, Over: []string{a, b}})
					for _, c3 := range []string{"use", "imguse", "head"} {
						emit(&c20Case{Part: "sequence", Src: a + ">" + b + ">" + c3, Over: []string{a, b, c3}})
					}
				}
			}
			emit(&c20Case{Part: "override", Src: allConstructs, Site: true})
			for mask := 1; mask < 1<<n; mask++ {
				k := 0
				for i := 0; i < n; i++ {
					if mask&(1<<i) != 0 {
						k++
					}
				}
				if !sizes(k) {
					continue
				}
				var over []string
				for i := 0; i < n; i++ {
					if mask&(1<<i) != 0 {
						over = append(over, c20TemplateNames[i])
					}
				}
				emit(&c20Case{Part: "override", Src: allConstructs, Over: over})
				if k <= 1 || k == n {
					emit(&c20Case{Part: "override", Src: allConstructs, Over: over, Site: true})
				}
			}
		},
	})
}
