package checks

import (
	"bytes"
	"context"
	"errors"
	"fmt"
	"io"
	"io/fs"
	"strings"

	"golang.org/x/net/html"

	"github.com/titpetric/vuego"

	"verif/engine/core"
	"verif/engine/htmlcmp"
)

// C12: output is all-or-nothing and writer failures are reported.

type c12Case struct {
	Part  string `json:"part,omitempty"` // "" = writer and context faults | processor
	Prog  string `json:"prog"`
	Entry string `json:"entry"` // render | renderfile | renderstring | renderbyte | renderreader
	// Stride > 0: for outputs longer than 4096 bytes only the first and last 512 offsets and every
	// Stride-th offset in between are used (quick tier, the two large programs)
	Stride int `json:"stride,omitempty"`
}

func (c *c12Case) Key() string { return core.KeyOf(c) }

var errInjected = errors.New("injected write failure")

// failWriter accepts limit bytes and then fails. short=true: the failing Write accepts the
// bytes that still fit and reports the error; short=false: it accepts nothing of that Write.
type failWriter struct {
	limit  int
	short  bool
	once   bool // transient fault: only the Write that crosses the limit fails, later ones succeed
	silent bool // the failing Write (and every later one) accepts fewer bytes than given and reports no error
	fullct bool // the failing Write (and every later one) reports the error together with the full count (a metering wrapper: _, err := inner.Write(p); return len(p), err)
	eof    bool // the error the writer reports is io.EOF (a pipe whose reader has gone away with it)
	got    bytes.Buffer
	failed bool
	calls  int
}

func (f *failWriter) err() error {
	if f.eof {
		return io.EOF
	}
	return errInjected
}

func (f *failWriter) Write(p []byte) (int, error) {
	f.calls++
	if f.failed && f.silent {
		return 0, nil
	}
	if f.failed && f.fullct {
		return len(p), f.err()
	}
	if f.failed && !f.once {
		return 0, f.err()
	}
	room := f.limit - f.got.Len()
	if len(p) <= room || (f.failed && f.once) {
		f.got.Write(p)
		return len(p), nil
	}
	f.failed = true
	if f.fullct {
		f.got.Write(p[:max(room, 0)])
		return len(p), f.err()
	}
	if f.silent {
		f.got.Write(p[:max(room, 0)])
		return max(room, 0), nil
	}
	if f.short && room > 0 {
		f.got.Write(p[:room])
		return room, f.err()
	}
	return 0, f.err()
}

// c12Proc is a node processor that changes nothing and fails at the failAt-th element (or
// text node) it is shown during one render, counted over all its PostProcess calls (pre=true:
// over its PreProcess calls). failAt < 0: never.
type c12Proc struct {
	failAt int
	pre    bool
	n      *int
	calls  *int
}

var errProcessor = errors.New("injected processor failure")

func (p *c12Proc) New() vuego.NodeProcessor {
	n, calls := 0, 0
	q := *p
	q.n, q.calls = &n, &calls
	// the engine may keep using the registered instance instead of New(): count there too
	if p.n == nil {
		p.n, p.calls = &n, &calls
	}
	return &q
}

func (p *c12Proc) walk(nodes []*html.Node) error {
	if p.n == nil {
		p.n, p.calls = new(int), new(int)
	}
	*p.calls++
	var rec func(n *html.Node) error
	rec = func(n *html.Node) error {
		if n.Type == html.ElementNode || n.Type == html.TextNode {
			if *p.n == p.failAt {
				*p.n++
				return errProcessor
			}
			*p.n++
		}
		for c := n.FirstChild; c != nil; c = c.NextSibling {
			if err := rec(c); err != nil {
				return err
			}
		}
		return nil
	}
	for _, n := range nodes {
		if err := rec(n); err != nil {
			return err
		}
	}
	return nil
}

func (p *c12Proc) PreProcess(nodes []*html.Node) error {
	if p.pre {
		return p.walk(nodes)
	}
	return nil
}

func (p *c12Proc) PostProcess(nodes []*html.Node) error {
	if !p.pre {
		return p.walk(nodes)
	}
	return nil
}

// cancelWriter accepts everything and cancels the context once it has received at bytes.
type cancelWriter struct {
	at     int
	cancel func()
	got    bytes.Buffer
	done   bool
}

func (c *cancelWriter) Write(p []byte) (int, error) {
	c.got.Write(p)
	if !c.done && c.got.Len() >= c.at {
		c.done = true
		c.cancel()
	}
	return len(p), nil
}

// cancelFS cancels the context when the at-th file is opened.
type cancelFS struct {
	fs.FS
	at     int
	n      int
	cancel func()
	failAt bool // the at-th Open fails (once) instead
}

func (c *cancelFS) Open(name string) (fs.File, error) {
	if c.n == c.at {
		c.cancel()
		if c.failAt {
			c.n++
			return nil, &fs.PathError{Op: "open", Path: name, Err: errInjected}
		}
	}
	c.n++
	return c.FS.Open(name)
}

// runCancel: the context is cancelled WHILE the render runs - when the writer has received its
// k-th byte (every k), and when the j-th file is opened (every j). Whatever the render then
// returns, it is all or nothing: an error with 0 bytes, or nil with the complete document.
func (c *c12Case) runCancel(ctx *core.Ctx) {
	p := programByName(c.Prog)
	isString := strings.HasPrefix(c.Entry, "renderstring") || c.Entry == "renderbyte" || c.Entry == "renderreader"
	if isString && (p.HasFM || p.Layout) || p.Fails {
		return
	}
	ctx.NonTrivial()
	layoutTag := "no-layout"
	if p.Layout {
		layoutTag = "layout"
	}
	where := "cancel/" + c.Entry + "/" + layoutTag
	var ref bytes.Buffer
	ctx.Eval(1)
	if err := c12Call(bg, p, c.Entry, &ref); err != nil {
		return
	}
	judge := func(kind string, pos int, err error, got string) bool {
		if err != nil && got != "" {
			ctx.Violation("partial-output-on-error", where, "cancelled-at-"+kind, fmt.Sprintf("program %s: context cancelled at %s %d: the render returned %v but the writer had received %d bytes: %q", c.Prog, kind, pos, err, len(got), clip(got, 200)))
			return false
		}
		if err == nil && got != ref.String() {
			ctx.Violation("incomplete-output", where, "cancelled-at-"+kind, fmt.Sprintf("program %s: context cancelled at %s %d: nil error but the writer received %q, want %q", c.Prog, kind, pos, clip(got, 200), clip(ref.String(), 200)))
			return false
		}
		return true
	}
	n := ref.Len()
	for k := 1; k <= n; k++ {
		if n > 2048 && k > 256 && k < n-256 && k%53 != 0 {
			continue
		}
		cctx, cancel := context.WithCancel(context.Background())
		cw := &cancelWriter{at: k, cancel: cancel}
		ctx.Eval(1)
		err := c12Call(cctx, p, c.Entry, cw)
		cancel()
		if !judge("byte", k, err, cw.got.String()) {
			return
		}
	}
	// cancellation at the j-th file access
	count := &cancelFS{FS: CatalogFiles.FS(), at: -1, cancel: func() {}}
	ctx.Eval(1)
	_ = c12CallOn(bg, vuego.NewFS(count, vuego.WithComponents()), p, c.Entry, &bytes.Buffer{})
	for j := 0; j < count.n; j++ {
		cctx, cancel := context.WithCancel(context.Background())
		cf := &cancelFS{FS: CatalogFiles.FS(), at: -1, cancel: cancel}
		eng := vuego.NewFS(cf, vuego.WithComponents())
		cf.n, cf.at = 0, j // opens during construction (config, components) do not count
		hw := &failWriter{limit: 1 << 30}
		ctx.Eval(1)
		err := c12CallOn(cctx, eng, p, c.Entry, hw)
		cancel()
		if !judge("file-access", j, err, hw.got.String()) {
			return
		}
	}
	ctx.Count("cancel-file-positions", count.n)
	// a transient fault at the j-th file access: that one Open fails, every other succeeds. An
	// error with nothing written, or nil with the complete document - never a document that
	// lacks what the unreadable file would have contributed (a layout dropped from the chain)
	for j := 0; j < count.n; j++ {
		ff := &cancelFS{FS: CatalogFiles.FS(), at: -1, cancel: func() {}, failAt: true}
		eng := vuego.NewFS(ff, vuego.WithComponents())
		ff.n, ff.at = 0, j // (the files read while the engine is built - config, components - are not part of a render)
		hw := &failWriter{limit: 1 << 30}
		ctx.Eval(1)
		err := c12CallOn(bg, eng, p, c.Entry, hw)
		if !judge("file-access-fails-once", j, err, hw.got.String()) {
			return
		}
	}
}

// runProc: a registered node processor fails at every position of the evaluated DOM in turn.
func (c *c12Case) runProc(ctx *core.Ctx) {
	p := programByName(c.Prog)
	isString := strings.HasPrefix(c.Entry, "renderstring") || c.Entry == "renderbyte" || c.Entry == "renderreader"
	if isString && (p.HasFM || p.Layout) {
		return
	}
	if p.Fails {
		return
	}
	ctx.NonTrivial()
	layoutTag := "no-layout"
	if p.Layout {
		layoutTag = "layout"
	}
	where := "processor/" + c.Entry + "/" + layoutTag
	var ref bytes.Buffer
	ctx.Eval(1)
	if err := c12Call(bg, p, c.Entry, &ref); err != nil {
		return
	}
	for _, pre := range []bool{false, true} {
		healthy := &c12Proc{failAt: -1, pre: pre}
		eng := func(pr *c12Proc) vuego.Template {
			return vuego.NewFS(CatalogFiles.FS(), vuego.WithComponents(), vuego.WithProcessor(pr))
		}
		hw := &failWriter{limit: 1 << 30}
		ctx.Eval(1)
		if err := c12CallOn(bg, eng(healthy), p, c.Entry, hw); err != nil || hw.got.String() != ref.String() {
			ctx.Violation("processor-changes-output", where, c.Prog, fmt.Sprintf("with a processor that changes nothing: err=%v out %q want %q", err, clip(hw.got.String(), 200), clip(ref.String(), 200)))
			return
		}
		total := 0
		if healthy.n != nil {
			total = *healthy.n
		}
		kind := "post"
		if pre {
			kind = "pre"
		}
		ctx.Count("processor-"+kind+"-positions", total)
		for k := 0; k < total; k++ {
			fw := &failWriter{limit: 1 << 30}
			ctx.Eval(1)
			err := c12CallOn(bg, eng(&c12Proc{failAt: k, pre: pre}), p, c.Entry, fw)
			if err == nil {
				ctx.Violation("processor-failure-swallowed", where, kind, fmt.Sprintf("program %s: the %s-processor failed at node %d of %d but the render returned nil", c.Prog, kind, k, total))
				return
			}
			if fw.got.Len() != 0 {
				ctx.Violation("partial-output-on-error", where, kind+"-processor", fmt.Sprintf("program %s: the %s-processor failed at node %d of %d, the render returned %v but wrote %d bytes: %q", c.Prog, kind, k, total, err, fw.got.Len(), clip(fw.got.String(), 200)))
				return
			}
		}
	}
}

// failStringWriter is a failWriter that also takes strings (like *os.File, *bufio.Writer and
// http response recorders do): io.WriteString goes to WriteString, which fails the same way.
type failStringWriter struct{ *failWriter }

func (f failStringWriter) WriteString(s string) (int, error) { return f.failWriter.Write([]byte(s)) }

func stripFM(src string) string {
	if strings.HasPrefix(src, "---") {
		if i := strings.Index(src[3:], "\n---"); i >= 0 {
			rest := src[3+i+4:]
			return strings.TrimPrefix(rest, "\n")
		}
	}
	return src
}

// c12Call performs one render of the program through the entry point into w.
func c12Call(ctx context.Context, p *Program, entry string, w io.Writer) error {
	return c12CallOn(ctx, catEngine(), p, entry, w)
}

func c12CallOn(ctx context.Context, t vuego.Template, p *Program, entry string, w io.Writer) error {
	data := p.Data("CANARY")
	src := stripFM(CatalogFiles[p.Page])
	switch entry {
	case "render":
		return t.Load(p.Page).Fill(data).Render(ctx, w)
	case "renderfile":
		return t.Fill(data).RenderFile(ctx, w, p.Page)
	case "renderstring":
		return t.Fill(data).RenderString(ctx, w, src)
	case "renderbyte":
		return t.Fill(data).RenderByte(ctx, w, []byte(src))
	case "renderreader":
		return t.Fill(data).RenderReader(ctx, w, strings.NewReader(src))
	}
	panic(entry)
}

// runRenderer: the exported serialiser (vuego.NewRenderer().Render) writes straight to the caller's
// writer; a failure of that writer at any offset, in any style, must come back as an error.
func (c *c12Case) runRenderer(ctx *core.Ctx) {
	p := programByName(c.Prog)
	if p.Fails {
		return
	}
	var page bytes.Buffer
	if err := c12Call(bg, p, "render", &page); err != nil {
		return
	}
	ctx.NonTrivial()
	nodes := htmlcmp.Parse(page.String())
	var ref bytes.Buffer
	ctx.Eval(1)
	if err := vuego.NewRenderer().Render(bg, &ref, nodes); err != nil {
		ctx.Violation("renderer-error", "renderer", c.Prog, fmt.Sprintf("Renderer.Render on the nodes of %s: %v", c.Prog, err))
		return
	}
	n := ref.Len()
	for k := 0; k < n; k++ {
		for style := 0; style < 7; style++ {
			fw := &failWriter{limit: k, short: style == 1 || style == 6, once: style == 2, silent: style == 3, fullct: style == 4, eof: style >= 5}
			ctx.Eval(1)
			err := vuego.NewRenderer().Render(bg, fw, nodes)
			if !fw.failed {
				ctx.Violation("fault-not-reached", "renderer", c.Prog, fmt.Sprintf("offset %d/%d: the writer never had to fail", k, n))
				continue
			}
			if !fw.once && !bytes.HasPrefix(ref.Bytes(), fw.got.Bytes()) {
				ctx.Violation("foreign-bytes-before-failure", "renderer", c.Prog, fmt.Sprintf("offset %d: the failing writer received %q, not a prefix of %q", k, clip(fw.got.String(), 200), clip(ref.String(), 200)))
				return
			}
			if err == nil {
				ctx.Violation("writer-failure-swallowed", "renderer", []string{"refuse", "short-write", "transient", "short-write-without-error", "error-with-full-count", "refuse-with-eof", "short-write-with-eof"}[style], fmt.Sprintf("Renderer.Render on the nodes of %s: writer failed at offset %d of %d but Render returned nil", c.Prog, k, n))
				return
			}
		}
	}
	ctx.Count("fault-offsets", n)
	ctx.Outcome(fmt.Sprint(n))
}

func (c *c12Case) Run(ctx *core.Ctx) {
	if c.Part == "renderer" {
		c.runRenderer(ctx)
		return
	}
	if c.Part == "processor" {
		c.runProc(ctx)
		return
	}
	if c.Part == "cancel" {
		c.runCancel(ctx)
		return
	}
	p := programByName(c.Prog)
	isString := strings.HasPrefix(c.Entry, "renderstring") || c.Entry == "renderbyte" || c.Entry == "renderreader"
	if isString && (p.HasFM || p.Layout) {
		return // front-matter and layouts only exist for files
	}
	ctx.NonTrivial()
	layoutTag := "no-layout"
	if p.Layout {
		layoutTag = "layout"
	}
	where := c.Entry + "/" + layoutTag

	// reference: healthy buffer
	var ref bytes.Buffer
	ctx.Eval(1)
	refErr := c12Call(bg, p, c.Entry, &ref)
	// healthy recording writer (not a *bytes.Buffer, so no fast paths)
	hw := &failWriter{limit: 1 << 30}
	ctx.Eval(1)
	err := c12Call(bg, p, c.Entry, hw)
	switch {
	case (err != nil) != (refErr != nil):
		ctx.Violation("nondeterministic-error", where, c.Prog, fmt.Sprintf("buffer run err=%v, recording-writer run err=%v", refErr, err))
		return
	case err != nil && hw.got.Len() != 0:
		ctx.Violation("partial-output-on-error", where, failClass(p), fmt.Sprintf("program %s returned %v but wrote %d bytes: %q", c.Prog, err, hw.got.Len(), clip(hw.got.String(), 200)))
	case err == nil && hw.got.String() != ref.String():
		ctx.Violation("incomplete-output", where, c.Prog, fmt.Sprintf("nil error but writer received %q, want %q", clip(hw.got.String(), 200), clip(ref.String(), 200)))
	}
	if p.Fails && err == nil {
		ctx.Violation("failing-program-succeeds", where, c.Prog, "the program is expected to fail: "+clip(ref.String(), 200))
	}
	ctx.Outcome(fmt.Sprint(err != nil))

	// cancelled context
	cctx, cancel := context.WithCancel(context.Background())
	cancel()
	cw := &failWriter{limit: 1 << 30}
	ctx.Eval(1)
	if err := c12Call(cctx, p, c.Entry, cw); err == nil || cw.got.Len() != 0 {
		ctx.Violation("cancelled-context", where, failClass(p), fmt.Sprintf("cancelled context: err=%v, %d bytes written", err, cw.got.Len()))
	}

	// failing writer at every offset, both styles
	if err != nil {
		return
	}
	n := ref.Len()
	shared := catEngine() // one long-lived engine sees every faulty call and the healthy call after it
	offsets := 0
	for k := 0; k < n; k++ {
		if c.Stride > 0 && n > 4096 && k >= 512 && k < n-512 && k%c.Stride != 0 {
			continue
		}
		offsets++
		for style := 0; style < 7; style++ {
			short := style == 1 || style == 6
			fw := &failWriter{limit: k, short: short, once: style == 2, silent: style == 3, fullct: style == 4, eof: style >= 5}
			ctx.Eval(2)
			var dest io.Writer = fw
			if k%2 == 1 {
				dest = failStringWriter{fw} // every other offset through a writer that also takes strings
			}
			e := c12CallOn(bg, shared, p, c.Entry, dest)
			// history: a healthy call right after the failed one gets exactly the reference bytes
			after := &failWriter{limit: 1 << 30}
			if e2 := c12CallOn(bg, shared, p, c.Entry, after); e2 != nil || after.got.String() != ref.String() {
				ctx.Violation("output-after-failed-write", where, c.Prog, fmt.Sprintf("program %s: after a writer failure at offset %d of %d the next healthy render on the same engine returned err=%v and %q, want %q", c.Prog, k, n, e2, clip(after.got.String(), 300), clip(ref.String(), 300)))
				return
			}
			if !fw.once && !bytes.HasPrefix(ref.Bytes(), fw.got.Bytes()) {
				ctx.Violation("foreign-bytes-before-failure", where, c.Prog, fmt.Sprintf("offset %d: the failing writer received %q, not a prefix of %q", k, clip(fw.got.String(), 200), clip(ref.String(), 200)))
				return
			}
			if !fw.failed {
				ctx.Violation("fault-not-reached", where, c.Prog, fmt.Sprintf("offset %d/%d: the writer never had to fail", k, n))
				continue
			}
			if e == nil {
				style := "refuse"
				if short {
					style = "short-write"
				}
				if fw.once {
					style = "transient"
				}
				if fw.silent {
					style = "short-write-without-error"
				}
				if fw.fullct {
					style = "error-with-full-count"
				}
				if fw.eof {
					style += "-with-eof"
				}
				ctx.Violation("writer-failure-swallowed", where, style, fmt.Sprintf("program %s: writer failed at offset %d of %d (%s) but the render returned nil", c.Prog, k, n, style))
				return
			}
		}
	}
	ctx.Count("fault-offsets", offsets)
	if offsets < n {
		ctx.Count("fault-offsets-skipped-by-stride", n-offsets)
	}
}

func failClass(p *Program) string {
	if p.Fails {
		return "failing:" + p.Name
	}
	return "succeeding"
}

func init() {
	core.Register(&core.Check{
		ID:    "C12",
		Level: "fault_enumeration",
		Rule: "every catalogue program (25 succeeding, 6 failing early/late/in include/in layout) x entry point {Load+Render, RenderFile, RenderString, RenderByte, RenderReader} x fault {none, cancelled context, writer failing at EVERY byte offset 0..len(output)-1 in seven styles: refusing the write and every later one, short write + error, refusing that one write only (a transient fault), accepting fewer bytes than given without reporting an error, reporting the error together with the full byte count (a metering wrapper), refusing / short write with io.EOF as the writer's error (a pipe whose reader went away); every other offset through a writer that also implements io.StringWriter}; plus, for the succeeding programs, a registered node processor that changes nothing and fails at EVERY node position of the DOM it is shown (post-processing and pre-processing), which must give an error and 0 bytes; plus a context that is cancelled while the render runs - when the writer receives its k-th byte, for every k, and when the j-th file is opened, for every j - after which the call must still be all or nothing; the same with the j-th file access failing once instead (a transient fault), for every j; plus the exported serialiser (NewRenderer().Render) on the nodes of every succeeding program with the writer failing at every offset in the same seven styles. " +
			"oracle: healthy writer: error => 0 bytes received, nil => exactly the reference bytes; failing writer: non-nil error, the bytes it accepted are a prefix of the reference, and the next healthy render on the same long-lived engine returns exactly the reference bytes; cancelled context: error and 0 bytes. non-trivial = all; distinct = (program, entry point)",
		Bounds:      map[string]string{"quick": "all offsets of all programs; for the two programs with more than 4096 bytes of output the first and last 512 offsets and every 97th in between", "thorough": "all offsets of all programs"},
		Assumptions: []string{"a writer that accepts fewer bytes than given without an error breaks io.Writer's contract; the render must still report it (io.ErrShortWrite)"},
		Decode:      core.DecodeAs[c12Case](),
		Enumerate: func(tier string, emit func(core.Case)) {
			for _, p := range Catalog {
				for _, e := range []string{"render", "renderfile", "renderstring", "renderbyte", "renderreader"} {
					stride := 0
					if tier != "thorough" {
						stride = 97
					}
					emit(&c12Case{Prog: p.Name, Entry: e, Stride: stride})
					emit(&c12Case{Part: "processor", Prog: p.Name, Entry: e})
					emit(&c12Case{Part: "cancel", Prog: p.Name, Entry: e})
				}
				emit(&c12Case{Part: "renderer", Prog: p.Name})
			}
		},
	})
}
