package checks

import (
	"bytes"
	"fmt"
	"github.com/titpetric/vuego"
	"sort"
	"strings"

	"golang.org/x/net/html"

	"verif/engine/core"
	"verif/engine/htmlcmp"
)

// C03: v-if / v-else-if / v-else chains render exactly the first truthy branch; truthiness is uniform.

type c03Case struct {
	Part string `json:"part"` // chain | truth
	// chain
	Members   string `json:"members,omitempty"` // e.g. "P I+ EI- E" (kind + truth)
	Sep       string `json:"sep,omitempty"`     // none | ws | comment
	Placement string `json:"placement,omitempty"`
	// truth
	Val   string `json:"val,omitempty"`
	Reach string `json:"reach,omitempty"`
}

func (c *c03Case) Key() string { return core.KeyOf(c) }

// typed part: comparisons against literals, values of every numeric kind (and none)
var c03TypedTpls = map[string]string{
	"eq-int":    `<i id="zero" v-if="n == 0">z</i><i id="one" v-else-if="n == 1">o</i><i id="many" v-else>m</i>`,
	"ne-string": `<i id="open" v-if="n != 'done'">o</i><i id="done" v-else>d</i>`,
	"lt":        `<i id="small" v-if="n < 1">s</i><i id="big" v-else>b</i>`,
	"eq-var":    `<i id="same" v-if="n == f0">s</i><i id="diff" v-else>d</i>`,
	"show":      `<i id="m" v-if="f0">n</i><i id="one" v-else-if="n == 1" :class="{k: n == 1}">o</i>`,
}

var c03TypedVals = map[string]any{
	"int0": 0, "int1": 1, "int2": 2, "f0": 0.0, "f1": 1.0, "f05": 0.5, "i64_0": int64(0), "i64_1": int64(1), "u8_0": uint8(0), "u8_1": uint8(1), "i32_1": int32(1), "f32_1": float32(1),
	"named1": vNamedInt(1), "str1": "1", "done": "done", "todo": "todo", "true": true, "false": false, "nil": nil, "missing": nil,
}

// (the first and fourth of each - members are given expressions by their position -: a string literal that contains the other kind of quote, then strict operators)
var c03TrueExprs = []string{"qs === &quot;it's&quot; &amp;&amp; n === 1", "t", "!f", "qd !== 'say &quot;hi&quot;!' || n === 1", "n == 1", "s == 'x'", "t && t"}
var c03FalseExprs = []string{"qs === &quot;it's&quot; &amp;&amp; n !== 1", "f", "!t", "qs !== &quot;it's&quot; || n === 2", "n == 2", "zz", "n > 5", "f || zz"}

func c03Data() map[string]any {
	return map[string]any{"qs": "it's", "qd": `say "hi"`, "t": true, "f": false, "n": 1, "s": "x", "two": []int{0, 1}, "none": []int{}, "one": []int{7}}
}

// c03Build returns the template and the expected id list ("" second result = unconstrained).
func c03Build(members []string, sep, placement string) (tpl string, want []string, defined bool) {
	sepS := map[string]string{"none": "", "ws": "\n  ", "comment": "<!-- c -->", "wscomment": "\n <!-- c -->\n "}[sep]
	var parts []string
	defined = true
	// reference chain evaluation
	inChain, taken, sawElse, afterFor := false, false, false, false
	for i, m := range members {
		id := fmt.Sprintf("m%d", i)
		kind, truth := strings.TrimRight(m, "+-"), strings.HasSuffix(m, "+")
		expr := c03FalseExprs[i%len(c03FalseExprs)]
		if truth {
			expr = c03TrueExprs[i%len(c03TrueExprs)]
		}
		attr := ""
		switch kind {
		case "P":
			inChain, afterFor = false, false
			want = append(want, id)
		case "F":
			// v-for over an empty / a one-element list; a directly following v-else is its fallback
			inChain, taken, sawElse, afterFor = true, truth, false, true
			attr = ` v-for="q in none"`
			if truth {
				attr = ` v-for="q in one"`
				want = append(want, id)
			}
		case "I":
			inChain, taken, sawElse, afterFor = true, truth, false, false
			attr = fmt.Sprintf(` v-if="%s"`, expr)
			if truth {
				want = append(want, id)
			}
		case "EI":
			if !inChain || sawElse || afterFor {
				defined = false // orphan, after v-else or after v-for: unconstrained
			}
			attr = fmt.Sprintf(` v-else-if="%s"`, expr)
			if inChain && !taken && truth {
				taken = true
				want = append(want, id)
			}
		case "E":
			if !inChain || sawElse {
				defined = false
			}
			attr = " v-else"
			if inChain && !taken {
				taken = true
				want = append(want, id)
			}
			sawElse = true
		case "EL": // a v-else member that is itself a loop (two instances when its branch is taken)
			if !inChain || sawElse {
				defined = false
			}
			attr = ` v-else v-for="q in two"`
			if inChain && !taken {
				taken = true
				want = append(want, id, id)
			}
			sawElse = true
		case "EIL": // a truthy v-else-if member that is itself a loop
			if !inChain || sawElse || afterFor {
				defined = false
			}
			attr = ` v-else-if="t" v-for="q in two"`
			if inChain && !taken {
				taken = true
				want = append(want, id, id)
			}
		case "EIL0": // ... and one whose loop has no iterations: it takes the chain and renders nothing
			if !inChain || sawElse || afterFor {
				defined = false
			}
			attr = ` v-else-if="t" v-for="q in none"`
			if inChain && !taken {
				taken = true
			}
		}
		if placement == "tmpl" || placement == "inctmpl" {
			parts = append(parts, fmt.Sprintf(`<template%s><i id="%s">%s</i></template>`, attr, id, id))
		} else {
			parts = append(parts, fmt.Sprintf(`<i id="%s"%s>%s</i>`, id, attr, id))
		}
	}
	body := strings.Join(parts, sepS)
	switch placement {
	case "top", "tmpl", "inc", "inctmpl": // (inc, inctmpl: the body is a component's file)
		tpl = body
	case "div":
		tpl = "<div>" + sepS + body + sepS + "</div>"
	case "for2":
		tpl = `<section v-for="k in two">` + body + `</section>`
		want = append(append([]string{}, want...), want...)
	case "nested":
		tpl = `<div v-if="t"><b>h</b>` + body + `</div><p v-else>` + `<i id="never">x</i></p>`
	case "deep":
		tpl = `<ul><li><span>` + body + `</span></li></ul>`
	}
	return tpl, want, defined
}

func c03IDs(out string) []string {
	var ids []string
	for _, n := range htmlcmp.Find(htmlcmp.Parse(out), func(n *html.Node) bool { return n.Data == "i" }) {
		id, _ := htmlcmp.Attr(n, "id")
		ids = append(ids, id)
	}
	return ids
}

var c03Consumers = []string{"vif", "velseif", "neg", "vshow", "bind", "class", "notnot", "andt", "negandt", "orf", "tern", "bindneg", "vshowstyle", "vshowchain", "vshowelse", "and3", "andor", "orand", "ternand", "class3"}

// consumers that put the value inside a compound expression
var c03InExpr = map[string]bool{"notnot": true, "andt": true, "negandt": true, "orf": true, "tern": true, "bindneg": true, "and3": true, "andor": true, "orand": true, "ternand": true, "class3": true}

func c03TruthTpl(consumer, x string) string {
	switch consumer {
	case "vif":
		return fmt.Sprintf(`<i id="m" v-if="%s">y</i>`, x)
	case "velseif":
		return fmt.Sprintf(`<b v-if="f0">n</b><i id="m" v-else-if="%s">y</i>`, x)
	case "neg":
		return fmt.Sprintf(`<i id="m" v-if="!%s">y</i>`, x)
	case "notnot": // operands of !, && and || and the condition of ?: are judged by the same rule
		return fmt.Sprintf(`<i id="m" v-if="!!%s">y</i>`, x)
	case "andt":
		return fmt.Sprintf(`<i id="m" v-if="%s && t1">y</i>`, x)
	case "negandt":
		return fmt.Sprintf(`<i id="m" v-if="!%s && t1">y</i>`, x)
	case "orf":
		return fmt.Sprintf(`<i id="m" v-if="%s || f0">y</i>`, x)
	case "tern":
		return fmt.Sprintf(`<i id="m" :data-x="%s ? 'y' : ''">y</i>`, x)
	// the value in the middle of three operands, and as the right operand of an inner && / ||
	case "and3":
		return fmt.Sprintf(`<i id="m" v-if="t1 && %s && t1">y</i>`, x)
	case "andor":
		return fmt.Sprintf(`<i id="m" v-show="(t1 && %s) || f0">y</i>`, x)
	case "orand":
		return fmt.Sprintf(`<b v-if="f0">n</b><i id="m" v-else-if="(f0 || %s) && t1">y</i>`, x)
	case "ternand":
		return fmt.Sprintf(`<i id="m" :data-x="(t1 && %s) ? 'y' : ''">y</i>`, x)
	case "class3":
		return fmt.Sprintf(`<i id="m" :class="{on: t1 && %s && t1}">y</i>`, x)
	case "bindneg":
		return fmt.Sprintf(`<i id="m" :data-x="!%s">y</i>`, x)
	case "vshow":
		return fmt.Sprintf(`<i id="m" v-show="%s">y</i>`, x)
	case "vshowstyle": // next to a static style, and on members of a chain
		return fmt.Sprintf(`<i id="m" style="color:red" v-show="%s">y</i>`, x)
	case "vshowchain":
		return fmt.Sprintf(`<i id="m" v-if="t1" v-show="%s" style="color:red">y</i><b v-else>n</b>`, x)
	case "vshowelse":
		return fmt.Sprintf(`<b v-if="f0">n</b><i id="m" v-else style="color:red" v-show="%s">y</i>`, x)
	case "bind":
		return fmt.Sprintf(`<i id="m" :data-x="%s">y</i>`, x)
	case "class":
		return fmt.Sprintf(`<i id="m" :class="{on: %s}">y</i>`, x)
	}
	panic(consumer)
}

// c03Observe renders one consumer and reports whether it treated the value as truthy.
func c03Observe(ctx *core.Ctx, consumer, reach string, tv truthVal) (truthy bool, err error, out string) {
	x := "x"
	data := map[string]any{"f0": false, "t1": true}
	switch reach {
	case "var":
		if tv.Name != "missing" {
			data["x"] = tv.V
		}
	case "nested":
		x = "o.x"
		o := map[string]any{}
		if tv.Name != "missing" {
			o["x"] = tv.V
		}
		data["o"] = o
	case "item":
		x = "it"
		data["xs"] = []any{tv.V}
	case "shadow":
		// the value is bound in an inner scope (a loop variable) while an outer scope binds the
		// same name to a value of the opposite truthiness: the inner binding is the one that counts
		x = "x"
		opposite := any("outer")
		if tv.Truth > 0 {
			opposite = nil
		}
		data["x"] = opposite
		data["xs"] = []any{tv.V}
		ctx.Eval(1)
		out, err = renderString(`<div v-for="x in xs">`+c03TruthTpl(consumer, x)+`</div>`, data)
		if err != nil {
			return false, err, out
		}
		return c03Judge(consumer, out)
	case "slotrow":
		// the consumer is slot content that a component uses once per row: the same source node is
		// evaluated first with a value of the opposite truthiness, then with the value (judged)
		opposite := any(true)
		if tv.Truth > 0 {
			opposite = false
		}
		ctx.Eval(1)
		files := Files{
			"rows.vuego": `<ul><li v-for="r in rows"><slot :row="r"></slot></li></ul>`,
			"page.vuego": `<template include="rows.vuego" :rows="rows"><template v-slot="p">` + c03TruthTpl(consumer, "p.row.x") + `</template></template>`,
		}
		data["rows"] = []map[string]any{{"x": opposite}, {"x": tv.V}}
		out, err = renderPage(files, "page.vuego", data)
		if err != nil {
			return false, err, out
		}
		// judge the second row
		lis := htmlcmp.Find(htmlcmp.Parse(out), func(n *html.Node) bool { return n.Data == "li" })
		if len(lis) != 2 {
			return false, fmt.Errorf("want 2 rows, got %d", len(lis)), out
		}
		var sb strings.Builder
		_ = html.Render(&sb, lis[1])
		return c03Judge(consumer, sb.String())
	case "tagfield":
		// the value is a struct field reached by its JSON tag (the expression library knows Go names only)
		x = "it.val"
		data["xs"] = []c03Tagged{{Val: tv.V}}
	case "dotindex":
		x = "xs.0"
		data["xs"] = []any{tv.V}
	case "hyphen":
		x = "o.some-key"
		data["o"] = map[string]any{"some-key": tv.V}
	case "promoted", "promotedptr", "promotednested":
		// the value is a nil *struct field that an embedded struct promotes into struct (root) data
		x = "x"
		var root any = c03RootEmb{c03Emb: c03Emb{T1: true}}
		if reach == "promotedptr" {
			root = &c03RootEmb{c03Emb: c03Emb{T1: true}}
		}
		if reach == "promotednested" {
			x = "o.x"
			root = map[string]any{"o": c03RootEmb{}, "f0": false, "t1": true}
		}
		ctx.Eval(1)
		out, err = renderString(c03TruthTpl(consumer, x), root)
		if err != nil {
			return false, err, out
		}
		return c03Judge(consumer, out)
	case "goname":
		// the value is a field of struct root data, reached by its Go name (its JSON tag is another name)
		x = "X"
		ctx.Eval(1)
		out, err = renderString(c03TruthTpl(consumer, x), c03RootGo{X: tv.V, T1: true})
		if err != nil {
			return false, err, out
		}
		return c03Judge(consumer, out)
	case "nowhere", "pastend":
		// the value is missing because the path leads nowhere: two steps below an undefined key, past the end of a list
		x = "o.x.y"
		if reach == "pastend" {
			x = "xs[5]"
		}
		data["o"] = map[string]any{}
		data["xs"] = []any{1}
	case "ptrfield":
		// the value is a nil *struct FIELD of struct root data
		x = "x"
		ctx.Eval(1)
		tpl := c03TruthTpl(consumer, x)
		out, err = renderString(tpl, c03RootPtr{T1: true})
		if err != nil {
			return false, err, out
		}
		return c03Judge(consumer, out)
	}
	tpl := c03TruthTpl(consumer, x)
	if reach == "item" || reach == "tagfield" {
		tpl = `<div v-for="it in xs">` + tpl + `</div>`
	}
	ctx.Eval(1)
	out, err = renderString(tpl, data)
	if err != nil {
		return false, err, out
	}
	return c03Judge(consumer, out)
}

type c03Tagged struct {
	Val any `json:"val"`
}

// c03RootEmb: the same fields, promoted from an embedded struct
type c03Emb struct {
	X  *vStruct `json:"x"`
	F0 bool     `json:"f0"`
	T1 bool     `json:"t1"`
}

type c03RootEmb struct {
	c03Emb
	Own string `json:"own"`
}

type c03RootGo struct {
	X  any  `json:"val"`
	F0 bool `json:"f0"`
	T1 bool `json:"t1"`
}

type c03RootPtr struct {
	X  *vStruct `json:"x"`
	F0 bool     `json:"f0"`
	T1 bool     `json:"t1"`
}

func c03Judge(consumer, out string) (truthy bool, err error, o string) {
	m := htmlcmp.ByID(htmlcmp.Parse(out), "m")
	switch consumer {
	case "vif", "velseif", "notnot", "andt", "orf", "and3", "orand":
		return m != nil, nil, out
	case "neg", "negandt":
		return m == nil, nil, out
	case "bindneg":
		if m == nil {
			return false, fmt.Errorf("element lost"), out
		}
		_, ok := htmlcmp.Attr(m, "data-x")
		return !ok, nil, out
	case "tern", "ternand":
		if m == nil {
			return false, fmt.Errorf("element lost"), out
		}
		_, ok := htmlcmp.Attr(m, "data-x")
		return ok, nil, out
	case "vshow", "vshowstyle", "vshowchain", "vshowelse", "andor":
		if m == nil {
			return false, fmt.Errorf("element lost"), out
		}
		st, _ := htmlcmp.Attr(m, "style")
		return !strings.Contains(strings.ReplaceAll(st, " ", ""), "display:none"), nil, out
	case "bind":
		if m == nil {
			return false, fmt.Errorf("element lost"), out
		}
		_, ok := htmlcmp.Attr(m, "data-x")
		return ok, nil, out
	case "class", "class3":
		if m == nil {
			return false, fmt.Errorf("element lost"), out
		}
		cl, _ := htmlcmp.Attr(m, "class")
		return strings.Contains(" "+cl+" ", " on "), nil, out
	}
	panic(consumer)
}

func (c *c03Case) Run(ctx *core.Ctx) {
	switch c.Part {
	case "chain":
		members := strings.Fields(c.Members)
		tpl, want, defined := c03Build(members, c.Sep, c.Placement)
		ctx.Eval(1)
		out, err := "", error(nil)
		if strings.HasPrefix(c.Placement, "inc") {
			// the chain is all a component has; with <template> members the file starts with one
			out, err = renderStringFS(Files{"c.vuego": tpl}, `<template include="c.vuego"></template>`, c03Data())
		} else {
			out, err = renderString(tpl, c03Data())
		}
		if err != nil {
			ctx.Violation("chain-error", c.Placement+"/"+c.Sep, c.Members, fmt.Sprintf("tpl %q: %v", tpl, err))
			return
		}
		got := c03IDs(out)
		if !defined {
			ctx.Zone("orphan-or-malformed-chain")
			// only the plain siblings are checked: all present, in order, once
			var wantP, gotP []string
			isP := map[string]bool{}
			for i, m := range members {
				if m == "P" {
					isP[fmt.Sprintf("m%d", i)] = true
				}
			}
			for _, id := range want {
				if isP[id] {
					wantP = append(wantP, id)
				}
			}
			for _, id := range got {
				if isP[id] {
					gotP = append(gotP, id)
				}
			}
			if strings.Join(gotP, ",") != strings.Join(wantP, ",") {
				ctx.Violation("chain-plain-siblings", c.Placement+"/"+c.Sep, c.Members, fmt.Sprintf("tpl %q: plain siblings got %v want %v", tpl, gotP, wantP))
			}
			return
		}
		if len(members) >= 2 {
			ctx.NonTrivial()
		}
		ctx.Outcome(strings.Join(got, ","))
		if strings.Join(got, ",") != strings.Join(want, ",") {
			ctx.Violation("chain", c.Placement+"/"+c.Sep, c.Members, fmt.Sprintf("tpl %q: rendered %v want %v (out %q)", tpl, got, want, clip(out, 300)))
		}
	case "typed":
		// conditions that compare: the branch taken for a value does not depend on the Go types of
		// the values the same condition was evaluated for before (compiled conditions are kept per
		// engine) - on one long-lived engine, and within one render over a list of mixed kinds
		ctx.NonTrivial()
		tpl := c03TypedTpls[c.Placement]
		first, second := c03TypedVals[c.Val], c03TypedVals[c.Reach]
		branch := func(t vuego.Template, v any, has bool) string {
			data := map[string]any{"f0": false}
			if has {
				data["n"] = v
			}
			var buf bytes.Buffer
			ctx.Eval(1)
			if err := t.New().Fill(data).RenderString(bg, &buf, tpl); err != nil {
				return "ERR " + err.Error()
			}
			return strings.Join(c03IDs(buf.String()), ",")
		}
		long := vuego.New()
		_ = branch(long, first, c.Val != "missing")
		got := branch(long, second, c.Reach != "missing")
		want := branch(vuego.New(), second, c.Reach != "missing")
		ctx.Outcome(got)
		if got != want {
			ctx.Violation("chain", "typed/"+c.Placement, c.Val+"-then-"+c.Reach, fmt.Sprintf("tpl %q: after the condition was evaluated for n=%#v, n=%#v takes %q; on a new engine it takes %q", tpl, first, second, got, want))
		}
		// the same two values as items of one loop
		if c.Val != "missing" && c.Reach != "missing" {
			ltpl := `<div v-for="n in vals">` + tpl + `</div>`
			var buf bytes.Buffer
			ctx.Eval(1)
			err := vuego.New().Fill(map[string]any{"vals": []any{first, second}, "f0": false}).RenderString(bg, &buf, ltpl)
			a, b := branch(vuego.New(), first, true), want
			loopWant := strings.Trim(a+","+b, ",")
			if g := strings.Join(c03IDs(buf.String()), ","); err != nil || g != loopWant {
				ctx.Violation("chain", "typed-loop/"+c.Placement, c.Val+"-then-"+c.Reach, fmt.Sprintf("tpl %q over [%#v, %#v]: takes %q (err %v), each item alone takes %q", ltpl, first, second, g, err, loopWant))
			}
		}
	case "truth":
		tv := truthByName(c.Val)
		ctx.NonTrivial()
		obs := map[string]bool{}
		var truthyBy, falsyBy []string
		for _, cons := range c03Consumers {
			if c03InExpr[cons] && (c.Reach == "tagfield" || c.Reach == "dotindex" || c.Reach == "hyphen" || c.Reach == "promotednested") {
				// these paths are spellings of the stack's path syntax, not of the expression language
				continue
			}
			if (cons == "tern" || cons == "ternand") && (c.Reach == "nowhere" || c.Reach == "pastend") {
				// the expression library refuses to look into nothing inside a larger expression: the
				// render fails, loudly - only the path and its negation have a meaning of their own
				continue
			}
			t, err, out := c03Observe(ctx, cons, c.Reach, tv)
			if err != nil {
				ctx.Violation("truth-error", cons, tv.Kind, fmt.Sprintf("%s %s via %s: %v (out %q)", c.Val, cons, c.Reach, err, out))
				continue
			}
			obs[cons] = t
			if t {
				truthyBy = append(truthyBy, cons)
			} else {
				falsyBy = append(falsyBy, cons)
			}
			if tv.Truth != 0 && t != (tv.Truth > 0) {
				zero := "nonzero"
				if tv.Truth < 0 {
					zero = "zero"
				}
				if tv.Kind == "string" {
					zero = tv.Name // strings are classified by the exact value
				}
				ctx.Violation("truthiness", cons, tv.Kind+":"+zero, fmt.Sprintf("value %s (%T %v) reached as %s is %v in %s; documented %v", c.Val, tv.V, tv.V, c.Reach, t, cons, tv.Truth > 0))
			}
		}
		ctx.Outcome(fmt.Sprint(truthyBy))
		if tv.Truth == 0 {
			ctx.Zone("truthiness-unspecified:" + tv.Kind)
			if len(truthyBy) > 0 && len(falsyBy) > 0 {
				ctx.Violation("uniformity", strings.Join(truthyBy, "+"), tv.Kind, fmt.Sprintf("value %s is truthy in %v but falsy in %v (reach %s)", c.Val, truthyBy, falsyBy, c.Reach))
			}
		}
	}
}

func init() {
	core.Register(&core.Check{
		ID:    "C03",
		Level: "exploration",
		Rule: "chain part: every sibling list up to the bound over {plain, v-if(T/F), v-else-if(T/F), v-else, v-for over an empty / one-element list, v-else / v-else-if members that are themselves loops} x separators {none, whitespace, comment, both} x placements {top, div, v-for x2, <template> members, nested in a taken branch, deep, as the whole of a component file with element members / with <template> members}; oracle: reference chain evaluator gives the ordered marker list. " +
			"truth part: 46 Go values x 9 ways of reaching them (variable, nested key, loop item, struct field by JSON tag, field of struct root data by its Go name where the tag is another name, a missing value also as a path that leads nowhere - two steps below an undefined key, past the end of a list -, dotted index, hyphenated key, slot content evaluated a second time after a value of the opposite truthiness, a loop variable that shadows an outer variable of the opposite truthiness; a nil pointer also as a field of struct root data, own and promoted from an embedded struct) x 20 consumers (v-if, v-else-if, !x, v-show, :attr, :class object, !!x, x && true, !x && true, x || false, x ? : in a binding, :attr with !x, the value in the middle of three && operands in v-if and in a :class value, as the right operand of a parenthesised && / || that is itself an operand or the condition of ? :, v-show next to a static style and on v-if / v-else members); oracles: documented table and agreement between consumers. non-trivial = chain of >=2 members with defined semantics, or any truth case",
		Bounds:      map[string]string{"quick": "sibling lists of length <= 5", "thorough": "sibling lists of length <= 6"},
		Assumptions: []string{"what an orphan v-else/v-else-if renders, and members after a v-else, are unconstrained (only plain siblings are checked there)", "NaN and the string \"false\" are checked for uniformity only"},
		Decode:      core.DecodeAs[c03Case](),
		Enumerate: func(tier string, emit func(core.Case)) {
			for _, tv := range truthValues {
				if tv.Name == "nil_ptr" {
					emit(&c03Case{Part: "truth", Val: tv.Name, Reach: "ptrfield"})
					emit(&c03Case{Part: "truth", Val: tv.Name, Reach: "promoted"})
					emit(&c03Case{Part: "truth", Val: tv.Name, Reach: "promotedptr"})
					emit(&c03Case{Part: "truth", Val: tv.Name, Reach: "promotednested"})
				}
				if tv.Name == "missing" {
					emit(&c03Case{Part: "truth", Val: tv.Name, Reach: "nowhere"})
					emit(&c03Case{Part: "truth", Val: tv.Name, Reach: "pastend"})
				}
				for _, r := range []string{"var", "nested", "item", "tagfield", "dotindex", "hyphen", "slotrow", "shadow", "goname"} {
					if (r == "goname" || r == "item" || r == "tagfield" || r == "dotindex" || r == "hyphen" || r == "slotrow" || r == "shadow") && tv.Name == "missing" {
						continue
					}
					emit(&c03Case{Part: "truth", Val: tv.Name, Reach: r})
				}
			}
			var typedNames []string
			for k := range c03TypedVals {
				typedNames = append(typedNames, k)
			}
			sort.Strings(typedNames)
			for pl := range c03TypedTpls {
				for _, a := range typedNames {
					for _, b := range typedNames {
						if a != b {
							emit(&c03Case{Part: "typed", Placement: pl, Val: a, Reach: b})
						}
					}
				}
			}
			opts := []string{"P", "I+", "I-", "EI+", "EI-", "E", "F-", "F+", "EL", "EIL", "EIL0"}
			max := 5
			if tier == "thorough" {
				max = 6
			}
			tokenStrings(opts, max, func(tok []int) {
				var ms []string
				for _, i := range tok {
					ms = append(ms, opts[i])
				}
				m := strings.Join(ms, " ")
				for _, pl := range []string{"top", "div", "for2", "tmpl", "nested", "deep", "inc", "inctmpl"} {
					for _, sep := range []string{"none", "ws", "comment", "wscomment"} {
						emit(&c03Case{Part: "chain", Members: m, Sep: sep, Placement: pl})
					}
				}
			})
		},
	})
}
