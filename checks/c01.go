package checks

import (
	"bytes"
	"fmt"
	"strings"

	"github.com/titpetric/vuego"

	"verif/engine/core"
	"verif/engine/htmlcmp"
)

// C01: data values are inert — same element/attribute-name skeleton as with a harmless word,
// and mustaches inside data are never evaluated.

var c01Alphabet = []string{"<", ">", "\"", "'", "&", ";", "&amp;", "&lt;", "&#", "{{", "}}", "secret", "<b>", "</p>", " v-if=", "x", "<!--", "-->", "<?", "<!"}

// constructs in which one source node is evaluated more than once: they guard against values
// being taken for template source a second time, and are swept with the tokens that matter for
// that (the full alphabet is swept in the other constructs)
var c01Reeval = map[string]bool{"slot2": true, "slot2if": true, "slot2else": true, "slotloopif": true, "comp2if": true, "again": true, "increq": true, "incwrap": true, "increqslot": true, "slot2inc": true, "slot2incnamed": true, "forinc": true}
var c01ReevalTokens = []string{"{{", "}}", "secret", "<b>", "\"", "&amp;", "<!--"}

const c01Canary = "CANARY9"
const c01Harmless = "zqx"

var c01Typed = map[string]any{
	"int0":       0,
	"false":      false,
	"nil":        nil,
	"slice-tag":  []string{"<b>x</b>", "\"q"},
	"map-tag":    map[string]any{"k": "<i a=\"b\">"},
	"slice-must": []any{"{{secret}}"},
	"float":      1.5,
}
var c01TypedNames = []string{"int0", "false", "nil", "slice-tag", "map-tag", "slice-must", "float"}

var c01Sinks = []string{"text", "vtext", "attri", "bound", "vbind", "nsattr", "baretext"}
var c01Neighs = []string{"N0", "Nplain", "NentBefore", "NampAfter", "NattrEnt", "NattrLt"}
var c01Constructs = []string{"top", "if", "else", "forroot", "forrootOuter", "forchild", "incbound", "incinterp", "slotprop", "slotnamed", "layout", "iffor", "inpre", "slot2inc", "slot2incnamed", "forinc", "slot2", "slot2if", "slot2else", "slotloopif", "comp2if", "again", "increq", "incwrap", "increqslot", "pageroot", "keep", "pagelayout", "strroot"}

func c01NeighOK(sink, neigh string) bool {
	switch sink {
	case "text", "attri", "nsattr", "baretext":
		return true
	}
	return neigh == "N0" || neigh == "NattrEnt" || neigh == "NattrLt"
}

// c01Sink writes the sink element (id="s") reading expression e.
func c01Sink(sink, neigh, e, extra string) string {
	pre, post, attr := "", "", ""
	switch neigh {
	case "Nplain":
		pre, post = "pre ", " post"
	case "NentBefore":
		pre = "&lt;b&gt; "
	case "NampAfter":
		post = " &amp; co"
	case "NattrEnt":
		attr = ` data-n="a &amp; &quot;q&quot;"`
	case "NattrLt":
		attr = ` data-x="<"`
	}
	switch sink {
	case "text":
		el := fmt.Sprintf(`<p id="s"%s%s>%s{{ %s }}%s</p>`, extra, attr, pre, e, post)
		if c01CurHost != "" {
			return c01WrapHost(c01CurHost, el)
		}
		return el
	case "vtext":
		el := fmt.Sprintf(`<p id="s"%s%s v-text="%s"></p>`, extra, attr, e)
		if c01CurHost != "" {
			return c01WrapHost(c01CurHost, el)
		}
		return el
	case "baretext": // text that is not the child of an element of its file, next to a block element
		return fmt.Sprintf(`%slead {{ %s }} tail%s<section id="s"%s%s><h1>k</h1></section>`, pre, e, post, extra, attr)
	case "attri":
		return fmt.Sprintf(`<p id="s"%s%s title="%sa{{ %s }}b%s"></p>`, extra, attr, pre, e, post)
	case "nsattr": // attributes the parser puts into a namespace (xlink:href, xml:lang) inside foreign content
		return fmt.Sprintf(`<svg id="s"%s%s><use xlink:href="%sa{{ %s }}b%s" xml:lang="{{ %s }}"></use><a xlink:title="{{ %s }}">t</a></svg>`, extra, attr, pre, e, post, e, e)
	case "bound":
		return fmt.Sprintf(`<p id="s"%s%s :title="%s"></p>`, extra, attr, e)
	// bound attributes whose expression is spelled with {{ }}: the substituted value is the
	// attribute's value - it is not read as an expression (an object literal, a path) a second time
	case "bclassm":
		return fmt.Sprintf(`<p id="s"%s%s class="k" :class="{{ %s }}"></p>`, extra, attr, e)
	case "bstylem":
		return fmt.Sprintf(`<p id="s"%s%s :style="{{ %s }}" :title="{{ %s }}"></p>`, extra, attr, e, e)
	case "bclassobjm":
		return fmt.Sprintf(`<p id="s"%s%s :class="{ 'btn-{{ %s }}': t }" :data-k="{{ %s }}"></p>`, extra, attr, e, e)
	case "vbind":
		return fmt.Sprintf(`<p id="s"%s%s v-bind:title="%s"></p>`, extra, attr, e)
	// bindings to the names of the attributes in which the engine keeps the evaluated output of
	// v-html / v-text between evaluation and serialisation: refused, or an attribute like any other
	// static class / style written with {{ }} next to a binding: the bound value is joined to text
	// that is interpolated - before, not after, the two are put together
	case "mergeclass":
		return fmt.Sprintf(`<p id="s"%s%s class="card {{ t }}" :class="%s" data-k="{{ t }}-k"></p>`, extra, attr, e)
	case "mergestyle":
		return fmt.Sprintf(`<p id="s"%s%s style="color: {{ t }}" :style="%s" title="a {{ t }}" :title="%s"></p>`, extra, attr, e, e)
	case "reservedh":
		return fmt.Sprintf(`<p id="s"%s%s :data-v-html-content="%s">a</p>`, extra, attr, e)
	case "reservedt":
		return fmt.Sprintf(`<p id="s"%s%s v-bind:data-v-text-content="%s">a</p>`, extra, attr, e)
	case "reservedbr":
		return fmt.Sprintf(`<p id="s"%s%s [data-v-html-content]="{{ %s }}">a</p>`, extra, attr, e)
	}
	panic("sink")
}

// c01Program builds the template set for a context; the hostile value is always bound to v
// (and to items[0] for loops) in the data.
func c01Program(sink, neigh, construct string) (Files, string) {
	f := Files{}
	switch construct {
	case "top":
		f["page.vuego"] = `<div>` + c01Sink(sink, neigh, "v", "") + `</div>`
	case "if":
		f["page.vuego"] = `<div v-if="t">` + c01Sink(sink, neigh, "v", "") + `</div>`
	case "else":
		f["page.vuego"] = `<div v-if="f">no</div><div v-else>` + c01Sink(sink, neigh, "v", "") + `</div>`
	case "forroot":
		f["page.vuego"] = `<div>` + c01Sink(sink, neigh, "it", ` v-for="it in items"`) + `</div>`
	case "forrootOuter":
		f["page.vuego"] = `<div>` + c01Sink(sink, neigh, "v", ` v-for="it in items"`) + `</div>`
	case "forchild":
		f["page.vuego"] = `<div v-for="it in items"><span>k</span>` + c01Sink(sink, neigh, "it", "") + `</div>`
	case "inpre": // the sink is a descendant of <pre>: preformatted content has its own serialiser
		f["page.vuego"] = `<div><pre class="src"><code>` + c01Sink(sink, neigh, "v", "") + `</code></pre></div>`
	case "iffor":
		f["page.vuego"] = `<div v-if="t" v-for="it in items">` + c01Sink(sink, neigh, "it", "") + `</div>`
	case "incbound":
		f["page.vuego"] = `<div><template include="c.vuego" :p="v"></template></div>`
		f["c.vuego"] = c01Sink(sink, neigh, "p", "")
	case "incinterp":
		f["page.vuego"] = `<div><template include="c.vuego" p="{{ v }}"></template></div>`
		f["c.vuego"] = c01Sink(sink, neigh, "p", "")
	case "slotprop":
		f["page.vuego"] = `<div><template include="c.vuego" :p="v"><template v-slot="sp">` + c01Sink(sink, neigh, "sp.item", "") + `</template></template></div>`
		f["c.vuego"] = `<section><slot :item="p"></slot></section>`
	case "slotnamed":
		f["page.vuego"] = `<div><template include="c.vuego"><template v-slot:body>` + c01Sink(sink, neigh, "v", "") + `</template></template></div>`
		f["c.vuego"] = `<section><slot name="body"></slot></section>`
	case "slot2inc": // an include inside plain slot content that the component uses twice
		f["page.vuego"] = `<div><template include="s2.vuego"><template include="c.vuego" p="{{ v }}"></template></template></div>`
		f["s2.vuego"] = `<section><slot></slot><hr><slot></slot></section>`
		f["c.vuego"] = c01Sink(sink, neigh, "p", "")
	case "slot2incnamed": // same through a named v-slot template, slot used in a loop
		f["page.vuego"] = `<div><template include="s2.vuego"><template #body><template include="c.vuego" p="{{ v }}" :q="v"></template></template></template></div>`
		f["s2.vuego"] = `<section><b v-for="i in items"><slot name="body"></slot></b><slot name="body"></slot></section>`
		f["c.vuego"] = c01Sink(sink, neigh, "p", "")
	case "forinc": // v-for on the include tag itself, prop interpolated from the item
		f["page.vuego"] = `<div><template v-for="it in items" include="c.vuego" p="{{ it }}"></template></div>`
		f["c.vuego"] = c01Sink(sink, neigh, "p", "")
	case "increq": // the documented component shape: a <template :required> root around the body
		f["page.vuego"] = `<div><template include="c.vuego" :p="v"></template></div>`
		f["c.vuego"] = `<template :required="p">` + c01Sink(sink, neigh, "p", "") + `</template>`
	case "incwrap": // a wrapper component whose root is itself an include
		f["page.vuego"] = `<div><template include="w.vuego" :q="v"></template></div>`
		f["w.vuego"] = `<template include="c.vuego" :p="q"></template>`
		f["c.vuego"] = c01Sink(sink, neigh, "p", "")
	case "increqslot": // template-rooted component whose slot receives the sink
		f["page.vuego"] = `<div><template include="c.vuego" :p="v">` + c01Sink(sink, neigh, "v", "") + `</template></div>`
		f["c.vuego"] = `<template :required="p"><section><slot></slot></section></template>`
	case "slot2": // the sink itself is slot content that the component uses twice (one source node, two evaluations)
		f["page.vuego"] = `<div><template include="s2.vuego">` + c01Sink(sink, neigh, "v", "") + `</template></div>`
		f["s2.vuego"] = `<section><slot></slot><hr><slot></slot></section>`
	case "slot2if":
		f["page.vuego"] = `<div><template include="s2.vuego">` + c01Sink(sink, neigh, "v", ` v-if="t"`) + `</template></div>`
		f["s2.vuego"] = `<section><slot></slot><hr><slot></slot></section>`
	case "slot2else":
		f["page.vuego"] = `<div><template include="s2.vuego"><i v-if="f">n</i>` + c01Sink(sink, neigh, "v", ` v-else`) + `</template></div>`
		f["s2.vuego"] = `<section><slot></slot><hr><slot></slot></section>`
	case "slotloopif":
		f["page.vuego"] = `<div><template include="s2.vuego"><template #body>` + c01Sink(sink, neigh, "v", ` v-if="t"`) + `</template></template></div>`
		f["s2.vuego"] = `<section><b v-for="i in two"><slot name="body"></slot></b><slot name="body"></slot></section>`
	case "comp2if": // a cached component evaluated twice
		f["page.vuego"] = `<div><template include="c.vuego" :p="v"></template><template include="c.vuego" :p="v"></template></div>`
		f["c.vuego"] = `<i v-if="f">n</i>` + c01Sink(sink, neigh, "p", ` v-else`)
	case "pageroot", "strroot": // the sink is the root of the page (strroot: the page is given as a string)
		f["page.vuego"] = c01Sink(sink, neigh, "v", "") + `<p>after</p>`
	case "keep": // ... or the content of a <template v-keep>
		f["page.vuego"] = `<div><template v-keep>` + c01Sink(sink, neigh, "v", "") + `</template></div>`
	case "pagelayout": // ... or the root of a page that goes into a layout
		f["page.vuego"] = "---\nlayout: l\n---\n" + c01Sink(sink, neigh, "v", "") + "\n"
		f["layouts/l.vuego"] = `<html><head><title>t</title></head><body><main v-html="content"></main></body></html>`
	case "again": // the page is rendered twice on one engine, the second output is judged
		f["page.vuego"] = `<div v-if="t">` + c01Sink(sink, neigh, "v", ` v-if="t"`) + `</div>`
	case "layout":
		f["page.vuego"] = "---\nlayout: l\n---\n<i>page</i>"
		f["layouts/l.vuego"] = `<main>` + c01Sink(sink, neigh, "v", "") + `<div v-html="content"></div></main>`
	default:
		panic("construct")
	}
	return f, "page.vuego"
}

func c01Data(v any) map[string]any {
	return map[string]any{"v": v, "items": []any{v}, "two": []int{1, 2}, "t": true, "f": false, "secret": c01Canary}
}

type c01Case struct {
	Host      string `json:"host,omitempty"` // element that directly contains the text sink ("" = p)
	Sink      string `json:"sink"`
	Neigh     string `json:"neigh"`
	Construct string `json:"construct"`
	Tokens    []int  `json:"tokens,omitempty"`
	Typed     string `json:"typed,omitempty"`
	Value     string `json:"value"` // informational: the string form
	// Pad > 0 (sizes part): the token string is embedded in a run of Pad harmless letters, At the
	// start / middle / end of it (values around the lengths at which buffers and fast paths change)
	Pad int    `json:"pad,omitempty"`
	At  string `json:"at,omitempty"`
}

func (c *c01Case) Key() string {
	return fmt.Sprintf("%s|%s|%s|%s|%v|%s|%d%s", c.Host, c.Sink, c.Neigh, c.Construct, c.Tokens, c.Typed, c.Pad, c.At)
}

// hosts whose content model is special for the HTML5 parser (raw text, escapable raw text,
// scripting-dependent, foreign context, table and select scoping)
var c01Hosts = []string{"noscript", "iframe", "xmp", "textarea", "title", "noembed", "noframes", "pre", "option", "td", "button", "svg", "svg-style", "math-style", "svg-script"}

func c01HostAlphabet(host string) []string {
	end := host
	if i := strings.Index(host, "-"); i > 0 {
		end = host[i+1:] // svg-style: the end tag that could close the sink is </style>
	}
	return append(append([]string{}, c01Alphabet...), "</"+end+">")
}

func c01WrapHost(host, sinkHTML string) string {
	// sinkHTML is <p id="s"...>TEXT</p>: re-tag it
	inner := strings.TrimSuffix(strings.TrimPrefix(sinkHTML, "<p"), "</p>")
	el := "<" + host + inner + "</" + host + ">"
	switch host {
	case "option":
		return "<select>" + el + "</select>"
	case "td":
		return "<table><tr>" + el + "</tr></table>"
	case "svg":
		return "<svg><text" + inner + "</text></svg>"
	case "svg-style": // <style> and <script> in foreign content are ordinary elements, not raw text
		return "<svg><style" + inner + "</style></svg>"
	case "math-style":
		return "<math><style" + inner + "</style></math>"
	case "svg-script":
		return "<svg><script" + inner + "</script><g><style" + strings.Replace(inner, ` id="s"`, "", 1) + "</style></g></svg>"
	}
	return el
}

func (c *c01Case) value() any {
	if c.Typed != "" {
		return c01Typed[c.Typed]
	}
	if c.Host != "" {
		return joinTokens(c01HostAlphabet(c.Host), c.Tokens)
	}
	v := joinTokens(c01Alphabet, c.Tokens)
	if c.Pad > 0 {
		n := c.Pad - len(v)
		if n < 0 {
			n = 0
		}
		switch c.At {
		case "start":
			return v + strings.Repeat("a", n)
		case "middle":
			return strings.Repeat("a", n/2) + v + strings.Repeat("a", n-n/2)
		default:
			return strings.Repeat("a", n) + v
		}
	}
	return v
}

var c01RefCache = map[string]string{}

// c01CurHost is the host element of the case being run (workers are single-threaded).
var c01CurHost string

// c01Skeleton: element/attribute-name skeleton; for special hosts under both scripting modes.
func c01Skeleton(out string) string {
	s := htmlcmp.Skeleton(htmlcmp.Parse(out))
	if c01CurHost != "" {
		s += "\n--noscript-mode--\n" + htmlcmp.Skeleton(htmlcmp.ParseFragmentNoScript(out))
	}
	return s
}

func c01Ref(sink, neigh, construct string) string {
	k := c01CurHost + "|" + sink + "|" + neigh + "|" + construct
	if s, ok := c01RefCache[k]; ok {
		return s
	}
	files, page := c01Program(sink, neigh, construct)
	out, err := c01Render(construct, files, page, c01Data(c01Harmless))
	s := c01Skeleton(out)
	if err != nil {
		s = "ERROR " + err.Error()
	}
	c01RefCache[k] = s
	return s
}

func c01Render(construct string, files Files, page string, data map[string]any) (string, error) {
	if construct == "strroot" {
		var out bytes.Buffer
		err := vuego.NewFS(files.FS()).New().Fill(data).RenderString(bg, &out, files[page])
		return out.String(), err
	}
	if construct != "again" {
		return renderPage(files, page, data)
	}
	t := vuego.NewFS(files.FS())
	var first, second bytes.Buffer
	if err := t.Load(page).Fill(data).Render(bg, &first); err != nil {
		return first.String(), err
	}
	err := t.Load(page).Fill(data).Render(bg, &second)
	return second.String(), err
}

// c01LastOut: the bytes of the latest probe (what the outcome count is taken over)
var c01LastOut string

// c01Probe renders one context with one value and returns the failure mode ("" = inert).
func c01Probe(ctx *core.Ctx, sink, neigh, construct string, v any) (mode, detail string) {
	ref := c01Ref(sink, neigh, construct)
	files, page := c01Program(sink, neigh, construct)
	ctx.Eval(1)
	out, err := c01Render(construct, files, page, c01Data(v))
	c01LastOut = out
	if strings.HasPrefix(sink, "reserved") && err != nil && strings.Contains(err.Error(), "reserved") {
		return "", "" // refused
	}
	if strings.HasPrefix(ref, "ERROR") {
		return "reference-fails", ref
	}
	if err != nil {
		return "render-error", err.Error()
	}
	if strings.Contains(out, c01Canary) {
		return "mustache-evaluated", "canary in output: " + clip(out, 300)
	}
	got := c01Skeleton(out)
	if got != ref {
		mode = "markup-injected"
		if c01SameTags(got, ref) {
			mode = "attr-injected"
		}
		return mode, fmt.Sprintf("skeleton differs\n got: %s\nwant: %s\n out: %s", strings.ReplaceAll(got, "\n", "⏎"), strings.ReplaceAll(ref, "\n", "⏎"), clip(out, 300))
	}
	return "", ""
}

func c01SameTags(a, b string) bool {
	strip := func(s string) string {
		var out []string
		for _, l := range strings.Split(s, "\n") {
			if i := strings.Index(l, "<"); i >= 0 {
				f := strings.Fields(l[i:])
				if len(f) > 0 {
					out = append(out, strings.Repeat(" ", i)+strings.TrimSuffix(f[0], ">"))
				}
			}
		}
		return strings.Join(out, "\n")
	}
	return strip(a) == strip(b)
}

func c01Trigger(s string) string {
	switch {
	case strings.Contains(s, "&amp;") || strings.Contains(s, "&quot;") || strings.Contains(s, "&apos;") || strings.Contains(s, "&lt;") || strings.Contains(s, "&gt;") || strings.Contains(s, "&#"):
		return "entity-lookalike"
	case strings.Contains(s, "&") && strings.Contains(s, ";"):
		return "amp-semicolon"
	}
	return "plain"
}

func (c *c01Case) Run(ctx *core.Ctx) {
	c01CurHost = c.Host
	defer func() { c01CurHost = "" }()
	v := c.value()
	s := fmt.Sprint(v)
	if strings.ContainsAny(s, "<>\"'&{") {
		ctx.NonTrivial()
	}
	if (c.Sink == "bound" || c.Sink == "vbind") && (c.Typed == "int0" || c.Typed == "false" || c.Typed == "nil") {
		// a falsy bound value legitimately omits the attribute (C14); nothing to compare
		ctx.Zone("falsy-bound-attribute-omitted")
		return
	}
	mode, detail := c01Probe(ctx, c.Sink, c.Neigh, c.Construct, v)
	ctx.Outcome(mode + "|" + fmt.Sprint(core.Hash(c01LastOut))) // distinct outcomes = distinct rendered outputs
	if mode == "" {
		return
	}
	// attribute the failure to the smallest context in which this value still fails
	where := c.Sink + "@" + c.Construct + "+" + c.Neigh
	if c.Host != "" {
		where = c.Sink + "-in-" + c.Host + "@" + c.Construct + "+" + c.Neigh
	}
	for _, alt := range [][2]string{{"top", "N0"}, {c.Construct, "N0"}, {"top", c.Neigh}} {
		if alt[0] == c.Construct && alt[1] == c.Neigh {
			break
		}
		if m, _ := c01Probe(ctx, c.Sink, alt[1], alt[0], v); m == mode {
			where = c.Sink + "@" + alt[0] + "+" + alt[1]
			if c.Host != "" {
				where = c.Sink + "-in-" + c.Host + "@" + alt[0] + "+" + alt[1]
			}
			break
		}
	}
	trig := c01Trigger(s)
	if mode == "mustache-evaluated" {
		trig = "mustache"
	}
	if c.Typed != "" {
		trig += ":" + c.Typed
	}
	ctx.Violation(mode, where, trig, fmt.Sprintf("value %q in %s@%s+%s: %s", s, c.Sink, c.Construct, c.Neigh, detail))
}

func init() {
	core.Register(&core.Check{
		ID:    "C01",
		Level: "exploration",
		Rule: "all token strings up to the bound over the alphabet " + fmt.Sprintf("%q", c01Alphabet) + " plus 7 non-string values, in every sink (text, v-text, interpolated attr, :attr, v-bind:attr, interpolated namespaced attributes xlink:href / xml:lang / xlink:title inside <svg>; plus, in 4 constructs, bound :class / :style / :title / :data-k whose expression is spelled with {{ }}, bindings joined to a static class / style that is itself written with {{ }}, and bindings to the engine's internal data-v-html-content / data-v-text-content attribute names, which must be refused or stay attributes) x static neighbourhood (6) x enclosing construct (" + fmt.Sprint(len(c01Constructs)) + ": 13 single-evaluation constructs (incl. a sink below <pre>) swept with the full alphabet, 12 constructs in which one source node is evaluated repeatedly - slot content used twice / in a loop, cached components, template-rooted components, a second render - swept with the 7 tokens that matter for repeated interpolation); plus a sizes part: every token at the start / middle / end of values of 21 lengths around 16 .. 4096 in every sink; " +
			"oracle: HTML5 re-parse has the same element/attribute-name skeleton as with the value 'zqx', and a canary bound to `secret` never appears. non-trivial = value contains one of < > \" ' & {; distinct = distinct (context, token vector)",
		Bounds:      map[string]string{"quick": "token strings of length <= 3 in all contexts; text and v-text sinks inside 15 special host elements (raw-text, RCDATA, noscript in both scripting modes, select, table, svg text, style / script inside svg and math) with the host's end tag added to the alphabet, length <= 3", "thorough": "token strings of length <= 3 in all contexts, length 4 in the N0 neighbourhood of every sink and construct"},
		Assumptions: []string{"golang.org/x/net/html is a faithful HTML5 parser", "v-html sinks and script/style bodies are exempt and never used as sinks"},
		Decode:      core.DecodeAs[c01Case](),
		Enumerate: func(tier string, emit func(core.Case)) {
			ctxs := func(f func(s, n, c string)) {
				for _, c := range c01Constructs {
					for _, s := range c01Sinks {
						for _, n := range c01Neighs {
							if c01NeighOK(s, n) {
								f(s, n, c)
							}
						}
					}
				}
			}
			ctxs(func(s, n, c string) {
				for _, t := range c01TypedNames {
					emit(&c01Case{Sink: s, Neigh: n, Construct: c, Typed: t, Value: fmt.Sprint(c01Typed[t])})
				}
			})
			for _, h := range c01Hosts {
				alpha := c01HostAlphabet(h)
				tokenStrings(alpha, 3, func(tok []int) {
					val := joinTokens(alpha, tok)
					for _, c := range []string{"top", "forchild", "incbound", "slotnamed"} {
						emit(&c01Case{Host: h, Sink: "text", Neigh: "N0", Construct: c, Tokens: append([]int(nil), tok...), Value: val})
						if c == "top" || c == "forchild" {
							emit(&c01Case{Host: h, Sink: "vtext", Neigh: "N0", Construct: c, Tokens: append([]int(nil), tok...), Value: val})
						}
					}
				})
			}
			// sizes part
			for i, tk := range c01Alphabet {
				if tk == "w" || tk == " " {
					continue
				}
				for _, pad := range []int{15, 16, 17, 31, 32, 33, 63, 64, 65, 127, 128, 129, 255, 256, 257, 1023, 1024, 1025, 4095, 4096, 4097} {
					for _, at := range []string{"start", "middle", "end"} {
						for _, s := range c01Sinks {
							emit(&c01Case{Sink: s, Neigh: "N0", Construct: "top", Tokens: []int{i}, Pad: pad, At: at, Value: tk})
						}
						emit(&c01Case{Sink: "text", Neigh: "N0", Construct: "incbound", Tokens: []int{i}, Pad: pad, At: at, Value: tk})
						emit(&c01Case{Sink: "vtext", Neigh: "N0", Construct: "inpre", Tokens: []int{i}, Pad: pad, At: at, Value: tk})
					}
				}
			}
			// bound attributes spelled with {{ }}
			tokenStrings(c01Alphabet, 3, func(tok []int) {
				val := joinTokens(c01Alphabet, tok)
				for _, c := range []string{"top", "forchild", "incbound", "slot2"} {
					for _, s := range []string{"bclassm", "bstylem", "bclassobjm", "reservedh", "reservedt", "reservedbr", "mergeclass", "mergestyle"} {
						emit(&c01Case{Sink: s, Neigh: "N0", Construct: c, Tokens: append([]int(nil), tok...), Value: val})
					}
				}
			})
			full, n0 := 3, 3
			if tier == "thorough" {
				full, n0 = 3, 4
			}
			tokenStrings(c01Alphabet, n0, func(tok []int) {
				val := joinTokens(c01Alphabet, tok)
				ctxs(func(s, n, c string) {
					if c01Reeval[c] {
						return
					}
					if len(tok) > full {
						if n != "N0" {
							return
						}
					}
					emit(&c01Case{Sink: s, Neigh: n, Construct: c, Tokens: append([]int(nil), tok...), Value: val})
				})
			})
			var ridx []int
			for _, t := range c01ReevalTokens {
				for i, a := range c01Alphabet {
					if a == t {
						ridx = append(ridx, i)
					}
				}
			}
			tokenStrings(c01ReevalTokens, n0, func(rt []int) {
				tok := make([]int, len(rt))
				for i, r := range rt {
					tok[i] = ridx[r]
				}
				val := joinTokens(c01Alphabet, tok)
				ctxs(func(s, n, c string) {
					if !c01Reeval[c] || (len(tok) > full && n != "N0") {
						return
					}
					emit(&c01Case{Sink: s, Neigh: n, Construct: c, Tokens: tok, Value: val})
				})
			})
		},
	})
}
