package checks

import (
	"errors"
	"fmt"
	"io/fs"
	"sort"
	"strings"
	"syscall"
	"testing/fstest"
	"time"

	"github.com/titpetric/vuego"

	"verif/engine/core"
)

// C18: overlay filesystem == reference union model, for all stacks of <= 3 layers.

type c18Layer struct {
	A string // "-" absent, "f" file
	D string // "-" absent, "f" file, "d" dir
	X string // under D=="d": "-" or "f"
	Y string
	W string // "f": a sibling directory d-z with a file x (sorts before "d/" as a string, after "d" as a directory name)
	E string // "-" absent, "d" empty dir, "f" file
}

var c18Layers = func() []c18Layer {
	var out []c18Layer
	for _, a := range []string{"-", "f"} {
		for _, e := range []string{"-", "d", "f"} {
			out = append(out, c18Layer{A: a, D: "-", X: "-", Y: "-", E: e})
			out = append(out, c18Layer{A: a, D: "f", X: "-", Y: "-", E: e})
			for _, x := range []string{"-", "f"} {
				for _, y := range []string{"-", "f"} {
					out = append(out, c18Layer{A: a, D: "d", X: x, Y: y, E: e})
					if x == "f" && y == "-" {
						out = append(out, c18Layer{A: a, D: "d", X: x, Y: y, W: "f", E: e})
					}
				}
			}
		}
	}
	return out
}()

// reduced layer set for the deepest stacks of the quick tier
var c18Reduced = func() []int {
	var idx []int
	for i, l := range c18Layers {
		if l.A == "f" && (l.E == "d" || l.E == "-") {
			idx = append(idx, i)
		}
	}
	return idx
}()

func (l c18Layer) build(pos int) fstest.MapFS {
	m := fstest.MapFS{}
	mt := time.Date(2020, 1, 1+pos, 0, 0, 0, 0, time.UTC)
	file := func(p string) {
		m[p] = &fstest.MapFile{Data: []byte(fmt.Sprintf("L%d:%s%s", pos, p, strings.Repeat("+", pos))), ModTime: mt, Mode: 0o644}
	}
	dir := func(p string) { m[p] = &fstest.MapFile{Mode: fs.ModeDir | 0o755, ModTime: mt} }
	if l.A == "f" {
		file("a")
	}
	switch l.D {
	case "f":
		file("d")
	case "d":
		dir("d")
		if l.X == "f" {
			file("d/x")
		}
		if l.Y == "f" {
			file("d/y")
		}
		if l.W == "f" {
			dir("d-z")
			file("d-z/x")
		}
	}
	switch l.E {
	case "f":
		file("e")
	case "d":
		dir("e")
	}
	return m
}

type c18Case struct {
	Layers []int `json:"layers"` // index into the layer table, -1 = nil layer
	// Wide, when set, replaces the layer table: a directory "w" with N entries spread over
	// NL layers by Pattern (listings long enough to leave any small-input path of a sort)
	Wide *c18Wide `json:"wide,omitempty"`
	// OSLike: the layers answer like a directory of the operating system: a path below a regular
	// file fails with ENOTDIR ("not a directory"), not with fs.ErrNotExist
	OSLike bool `json:"oslike,omitempty"`
	// OpenOnly: which layers are handed over as a bare fs.FS (Open alone: no Stat, ReadDir, ReadFile
	// or Glob of their own, like embed.FS behind a wrapper or a zip reader): upper | lower | all
	OpenOnly string `json:"openonly,omitempty"`
	// Kids > 0: the nested part: Kids overlays built from one parent overlay that wraps an overlay of Depth layers
	Kids  int `json:"kids,omitempty"`
	Depth int `json:"depth,omitempty"`
	// Hist: the history part: events on the layers of one long-lived overlay
	Hist []string `json:"hist,omitempty"`
}

// openOnlyFS hides everything but Open.
type openOnlyFS struct{ fs.FS }

// osLikeFS wraps a layer: looking up a path whose parent is a regular file reports ENOTDIR.
type osLikeFS struct{ fs.FS }

func (o osLikeFS) Open(name string) (fs.File, error) {
	parts := strings.Split(name, "/")
	for i := 1; i < len(parts); i++ {
		if fi, err := fs.Stat(o.FS, strings.Join(parts[:i], "/")); err == nil && !fi.IsDir() {
			return nil, &fs.PathError{Op: "open", Path: name, Err: syscall.ENOTDIR}
		}
	}
	return o.FS.Open(name)
}

type c18Wide struct {
	N       int    `json:"n"`
	NL      int    `json:"nl"`
	Pattern string `json:"pattern"` // all | alt | mod3 | dirs
}

// in reports whether entry i of a wide directory exists in layer pos
func (w *c18Wide) in(i, pos int) bool {
	switch w.Pattern {
	case "alt":
		return pos == 0 && i%2 == 0 || pos > 0
	case "mod3":
		return i%3 != pos%3
	}
	return true
}

func (w *c18Wide) build(pos int) fstest.MapFS {
	m := fstest.MapFS{}
	mt := time.Date(2021, 1, 1+pos, 0, 0, 0, 0, time.UTC)
	m["w"] = &fstest.MapFile{Mode: fs.ModeDir | 0o755, ModTime: mt}
	for i := 0; i < w.N; i++ {
		if !w.in(i, pos) {
			continue
		}
		p := fmt.Sprintf("w/p%02d", i)
		if w.Pattern == "dirs" && i%4 == 3 {
			m[p] = &fstest.MapFile{Mode: fs.ModeDir | 0o755, ModTime: mt}
			m[p+"/k"] = &fstest.MapFile{Data: []byte("k"), ModTime: mt, Mode: 0o644}
			continue
		}
		m[p] = &fstest.MapFile{Data: []byte(fmt.Sprintf("L%d:%s%s", pos, p, strings.Repeat("+", pos))), ModTime: mt, Mode: 0o644}
	}
	return m
}

func (c *c18Case) Key() string { return core.KeyOf(c) }

var c18Paths = []string{"a", "d", "d/x", "d/y", "e", "zz", "d/zz", "e/zz", "d-z/x", "d-z"}
var c18Dirs = []string{".", "d", "e", "zz", "d-z"}
var c18WideDirs = []string{".", "w", "zz"}
var c18Globs = []string{"*", "d/*", "*/x", "?", "*/*", "[", "a", "d/x", "zz", `\a`, `d/\x`, `d\-z/x`, `d/[x]`, `\*`, "d/x/", "./a", "d"}

type c18Model struct {
	layers []fs.FS // non-nil layers in order
	desc   []string
}

// first0: the first layer that has p (nil when none)
func first0(layers []fs.FS, p string) fs.FS {
	for _, l := range layers {
		if kindIn(l, p) != "-" {
			return l
		}
	}
	return nil
}

// kind of path p in layer: "-" absent, "f" file, "d" dir
func kindIn(l fs.FS, p string) string {
	if l == nil {
		return "-"
	}
	fi, err := fs.Stat(l, p)
	if err != nil {
		return "-"
	}
	if fi.IsDir() {
		return "d"
	}
	return "f"
}

func (m *c18Model) pattern(p string) string {
	var s []string
	for _, l := range m.layers {
		k := kindIn(l, p)
		if k == "d" {
			ents, _ := fs.ReadDir(l, p)
			if len(ents) == 0 {
				k = "E" // empty directory
			}
		}
		s = append(s, k)
	}
	return strings.Join(s, "")
}

// shadowedBelow reports whether some proper prefix of p is a file in an upper layer and a
// directory in a lower one (unconstrained zone).
func (m *c18Model) mixed(p string) bool {
	parts := strings.Split(p, "/")
	for i := 1; i <= len(parts); i++ {
		pre := strings.Join(parts[:i], "/")
		if pre == "." {
			continue
		}
		sawFile := false
		for _, l := range m.layers {
			switch kindIn(l, pre) {
			case "f":
				sawFile = true
			case "d":
				if sawFile {
					return true
				}
			}
		}
	}
	return false
}

// runNested: overlays built on overlays, several of them from one parent: each must serve its own
// layers, whatever else was built from the same parent before or after it.
func (c *c18Case) runNested(ctx *core.Ctx) {
	ctx.NonTrivial()
	layer := func(i int) fstest.MapFS {
		m := fstest.MapFS{}
		mt := time.Date(2022, 1, 1+i, 0, 0, 0, 0, time.UTC)
		name := string(rune('a' + i))
		m[name+".txt"] = &fstest.MapFile{Data: []byte("only " + name), ModTime: mt, Mode: 0o644}
		m["shared.txt"] = &fstest.MapFile{Data: []byte("shared " + name), ModTime: mt, Mode: 0o644}
		return m
	}
	// parent = overlay of (overlay of Depth base layers) plus one more; Kids children, each adding one layer
	var base []fs.FS
	for i := 0; i < c.Depth; i++ {
		base = append(base, layer(i))
	}
	inner := vuego.NewOverlayFS(base[0], base[1:]...)
	parentLayers := append(append([]fs.FS{}, base...), layer(c.Depth))
	parent := vuego.NewOverlayFS(inner, layer(c.Depth))
	type kid struct {
		o      *vuego.OverlayFS
		layers []fs.FS
	}
	var kids []kid
	for k := 0; k < c.Kids; k++ {
		extra := layer(c.Depth + 1 + k)
		kids = append(kids, kid{vuego.NewOverlayFS(parent, extra), append(append([]fs.FS{}, parentLayers...), extra)})
	}
	check := func(name string, o *vuego.OverlayFS, layers []fs.FS) {
		ctx.Eval(1)
		m := &c18Model{layers: layers}
		want, _, _ := m.readDir(".")
		got, err := o.ReadDir(".")
		if err != nil || strings.Join(names(got), ",") != strings.Join(want, ",") {
			ctx.Violation("nested", name, "wrong-listing", fmt.Sprintf("depth %d, %d children: %s lists %v (err %v), its layers have %v", c.Depth, c.Kids, name, names(got), err, want))
			return
		}
		for _, e := range want {
			p, _, _ := strings.Cut(e, ":")
			var wantData []byte
			for _, l := range layers {
				if b, err := fs.ReadFile(l, p); err == nil {
					wantData = b
					break
				}
			}
			if b, err := fs.ReadFile(o, p); err != nil || string(b) != string(wantData) {
				ctx.Violation("nested", name, "wrong-content", fmt.Sprintf("depth %d, %d children: %s serves %s = %q (err %v), want %q", c.Depth, c.Kids, name, p, b, err, wantData))
				return
			}
		}
	}
	check("parent", parent, parentLayers)
	for i, k := range kids {
		check(fmt.Sprintf("child-%d-of-%d", i, len(kids)), k.o, k.layers)
	}
	ctx.Outcome(fmt.Sprint(c.Depth, c.Kids))
}

// runHistory: one overlay over layers that change while it is alive (directories on disk, maps
// edited in place): after every change it answers like an overlay created now over the same layers.
func (c *c18Case) runHistory(ctx *core.Ctx) {
	ctx.NonTrivial()
	upper, lower := fstest.MapFS{"keep.txt": {Data: []byte("U-keep"), ModTime: baseTime}}, fstest.MapFS{"d/f.txt": {Data: []byte("L-f"), ModTime: baseTime, Mode: 0o644}, "keep.txt": {Data: []byte("L-keep-longer"), ModTime: baseTime.Add(time.Hour)}}
	long := vuego.NewOverlayFS(upper, lower)
	observe := func(o fs.FS) string {
		var sb strings.Builder
		for _, p := range []string{"d/f.txt", "keep.txt", "d", "d/g.txt"} {
			b, err := fs.ReadFile(o, p)
			fi, serr := fs.Stat(o, p)
			size, mt := int64(-1), ""
			if serr == nil {
				size, mt = fi.Size(), fi.ModTime().UTC().Format(time.RFC3339)
				if fi.IsDir() {
					size = -2
				}
			}
			fmt.Fprintf(&sb, "%s=%q/%v/%d/%s;", p, b, err != nil, size, mt)
		}
		ents, err := fs.ReadDir(o, "d")
		fmt.Fprintf(&sb, "dir=%v/%v;", names(ents), err != nil)
		gl, _ := fs.Glob(o, "d/*")
		fmt.Fprintf(&sb, "glob=%v", gl)
		return sb.String()
	}
	ver := 0
	for i, ev := range c.Hist {
		ver++
		later := baseTime.Add(time.Duration(ver) * time.Minute)
		switch ev {
		case "look":
		case "add-upper":
			upper["d/f.txt"] = &fstest.MapFile{Data: []byte(fmt.Sprintf("U-f-v%d-longer", ver)), ModTime: later, Mode: 0o600}
		case "del-upper":
			delete(upper, "d/f.txt")
		case "add-upper-g":
			upper["d/g.txt"] = &fstest.MapFile{Data: []byte("U-g"), ModTime: later}
		case "del-lower":
			delete(lower, "d/f.txt")
		case "add-lower":
			lower["d/f.txt"] = &fstest.MapFile{Data: []byte(fmt.Sprintf("L-f-v%d", ver)), ModTime: later, Mode: 0o644}
		case "upper-file-d": // the upper layer gets a FILE called d
			delete(upper, "d/f.txt")
			delete(upper, "d/g.txt")
			upper["d"] = &fstest.MapFile{Data: []byte("file-d"), ModTime: later}
		case "upper-undo-d":
			delete(upper, "d")
		}
		if _, isFile := upper["d"]; isFile {
			ctx.Zone("file-over-directory")
			continue
		}
		ctx.Eval(2)
		ctx.Transition(1)
		got, want := observe(long), observe(vuego.NewOverlayFS(upper, lower))
		if got != want {
			ctx.Violation("history", "layers-change", ev, fmt.Sprintf("history %v: the overlay that has been answering all along says\n  %s\nan overlay created now over the same layers says\n  %s", c.Hist[:i+1], got, want))
			return
		}
	}
	ctx.Outcome(strings.Join(c.Hist, ">"))
}

func (c *c18Case) Run(ctx *core.Ctx) {
	if len(c.Hist) > 0 {
		c.runHistory(ctx)
		return
	}
	if c.Kids > 0 {
		c.runNested(ctx)
		return
	}
	var stack []fs.FS
	m := &c18Model{}
	nils := 0
	dirs, paths, globs := c18Dirs, c18Paths, c18Globs
	if c.Wide != nil {
		dirs, paths, globs = c18WideDirs, []string{"w/p00", "w/p01", "w/p02", fmt.Sprintf("w/p%02d", c.Wide.N-1), "w/zz"}, []string{"w/*", "*/p0?"}
		for pos := 0; pos < c.Wide.NL; pos++ {
			l := c.Wide.build(pos)
			stack = append(stack, l)
			m.layers = append(m.layers, l)
		}
	}
	for pos, li := range c.Layers {
		if li < 0 {
			stack = append(stack, nil)
			nils++
			continue
		}
		l := c18Layers[li].build(pos)
		switch {
		case c.OSLike:
			stack = append(stack, osLikeFS{l})
		case c.OpenOnly == "all" || (c.OpenOnly == "upper" && pos == 0) || (c.OpenOnly == "lower" && pos > 0):
			stack = append(stack, openOnlyFS{l})
		default:
			stack = append(stack, l)
		}
		m.layers = append(m.layers, l)
	}
	o := vuego.NewOverlayFS(stack[0], stack[1:]...)
	if len(m.layers) >= 2 {
		ctx.NonTrivial()
	}
	nilTag := ""
	if nils > 0 {
		nilTag = "+nil"
	}

	// --- files: ReadFile / Stat
	for _, p := range paths {
		ctx.Eval(2)
		var first fs.FS
		for _, l := range m.layers {
			if kindIn(l, p) != "-" {
				first = l
				break
			}
		}
		pat := m.pattern(p) + nilTag
		if c.OSLike {
			pat += "+oslike"
		}
		if c.OpenOnly != "" {
			pat += "+openonly-" + c.OpenOnly
		}
		if m.mixed(p) && kindIn(first0(m.layers, p), p) == "d" {
			// the first layer that has p has a directory where a layer above has a file of a prefix's name:
			// what a directory below a shadowing file is, is not stated
			ctx.Zone("file-over-directory")
			continue
		}
		got, gerr := fs.ReadFile(o, p)
		gfi, serr := fs.Stat(o, p)
		if first == nil {
			if gerr == nil || !errors.Is(gerr, fs.ErrNotExist) {
				ctx.Violation("readfile", "absent:"+pat, "not-notexist", fmt.Sprintf("ReadFile(%q) = %q, %v; want ErrNotExist", p, got, gerr))
			}
			if serr == nil || !errors.Is(serr, fs.ErrNotExist) {
				ctx.Violation("stat", "absent:"+pat, "not-notexist", fmt.Sprintf("Stat(%q) err=%v; want ErrNotExist", p, serr))
			}
			ctx.Outcome("absent")
			continue
		}
		wfi, _ := fs.Stat(first, p)
		if serr != nil {
			ctx.Violation("stat", "present:"+pat, "error", fmt.Sprintf("Stat(%q) err=%v; want info from first layer", p, serr))
		} else if gfi.Name() != wfi.Name() || gfi.Size() != wfi.Size() || gfi.Mode() != wfi.Mode() || !gfi.ModTime().Equal(wfi.ModTime()) || gfi.IsDir() != wfi.IsDir() {
			ctx.Violation("stat", "present:"+pat, "wrong-layer", fmt.Sprintf("Stat(%q) = {%s %d %v %v}; want {%s %d %v %v}", p, gfi.Name(), gfi.Size(), gfi.Mode(), gfi.ModTime(), wfi.Name(), wfi.Size(), wfi.Mode(), wfi.ModTime()))
		}
		if wfi.IsDir() {
			if gerr == nil {
				ctx.Violation("readfile", "dir:"+pat, "no-error", fmt.Sprintf("ReadFile(%q) of a directory returned %q", p, got))
			}
			ctx.Outcome("dir")
			continue
		}
		want, _ := fs.ReadFile(first, p)
		if gerr != nil || string(got) != string(want) {
			ctx.Violation("readfile", "present:"+pat, "wrong-content", fmt.Sprintf("ReadFile(%q) = %q, %v; want %q", p, got, gerr, want))
		}
		ctx.Outcome(string(want))
	}

	// --- directories
	for _, d := range dirs {
		ctx.Eval(1)
		pat := m.pattern(d) + nilTag
		want, wok, zone := m.readDir(d)
		if zone {
			ctx.Zone("file-over-directory")
			continue
		}
		got, err := o.ReadDir(d)
		if len(m.layers) == 0 && d == "." {
			// pinned by TestOverlayFSReadDir_AllFSNil: an overlay of only nil layers lists nothing, without error
			ctx.Zone("root-of-empty-stack")
			continue
		}
		if !wok && m.existsAsFile(d) {
			// d is a file wherever it exists: listing it must fail, with whatever error
			if err == nil {
				ctx.Violation("readdir", "file", "no-error", fmt.Sprintf("ReadDir(%q) of a file = %v, nil", d, names(got)))
			}
			continue
		}
		if !wok {
			if err == nil || !errors.Is(err, fs.ErrNotExist) {
				ctx.Violation("readdir", "absent:"+pat, "not-notexist", fmt.Sprintf("ReadDir(%q) = %v, %v; want ErrNotExist", d, names(got), err))
			}
			continue
		}
		if err != nil {
			ctx.Violation("readdir", "present:"+pat, "error", fmt.Sprintf("ReadDir(%q) err=%v; want %v", d, err, want))
			continue
		}
		if g := names(got); strings.Join(g, ",") != strings.Join(want, ",") {
			ctx.Violation("readdir", "present:"+pat, "wrong-listing", fmt.Sprintf("ReadDir(%q) = %v; want %v", d, g, want))
		}
		// every entry describes the file of the first layer that has it (an upper entry shadows a lower one)
		for _, e := range got {
			p := e.Name()
			if d != "." {
				p = d + "/" + p
			}
			var wfi fs.FileInfo
			for _, l := range m.layers {
				if fi, err := fs.Stat(l, p); err == nil {
					wfi = fi
					break
				}
			}
			gfi, ierr := e.Info()
			if wfi == nil || ierr != nil {
				continue
			}
			if gfi.Size() != wfi.Size() || !gfi.ModTime().Equal(wfi.ModTime()) || gfi.Mode() != wfi.Mode() || e.IsDir() != wfi.IsDir() {
				where := "present:" + pat
				if c.Wide != nil {
					where = "wide:" + c.Wide.Pattern
				}
				ctx.Violation("readdir", where, "entry-from-lower-layer", fmt.Sprintf("ReadDir(%q) entry %s = {%d %v %v}; the first layer that has it says {%d %v %v}", d, e.Name(), gfi.Size(), gfi.Mode(), gfi.ModTime(), wfi.Size(), wfi.Mode(), wfi.ModTime()))
				break
			}
		}
		ctx.Outcome("ls:" + strings.Join(want, ","))
	}

	// --- glob
	for _, g := range globs {
		ctx.Eval(1)
		if g == "[" {
			ctx.Zone("malformed-glob")
			_, _ = o.Glob(g)
			continue
		}
		set := map[string]bool{}
		for _, l := range m.layers {
			ms, _ := fs.Glob(l, g)
			for _, x := range ms {
				set[x] = true
			}
		}
		var want []string
		for x := range set {
			want = append(want, x)
		}
		sort.Strings(want)
		got, err := fs.Glob(o, g)
		if err != nil || strings.Join(got, ",") != strings.Join(want, ",") {
			ctx.Violation("glob", g, "wrong-matches", fmt.Sprintf("Glob(%q) = %v, %v; want %v (layers %v)", g, got, err, want, c.Layers))
		}
		ctx.Outcome("glob:" + strings.Join(want, ","))
	}

	// --- walk
	ctx.Eval(1)
	wantWalk, zone := m.walk(".")
	if len(m.layers) == 0 {
		ctx.Zone("root-of-empty-stack")
	} else if zone {
		ctx.Zone("file-over-directory")
	} else {
		var got []string
		err := fs.WalkDir(o, ".", func(p string, d fs.DirEntry, err error) error {
			if err != nil {
				got = append(got, p+"!err")
				return nil
			}
			t := "f"
			if d.IsDir() {
				t = "d"
			}
			got = append(got, p+":"+t)
			return nil
		})
		if err != nil || strings.Join(got, ",") != strings.Join(wantWalk, ",") {
			ctx.Violation("walk", "root:"+m.pattern("d")+"/"+m.pattern("e")+nilTag, "wrong-walk", fmt.Sprintf("WalkDir = %v, %v; want %v", got, err, wantWalk))
		}
	}
}

func names(es []fs.DirEntry) []string {
	var out []string
	for _, e := range es {
		t := "f"
		if e.IsDir() {
			t = "d"
		}
		out = append(out, e.Name()+":"+t)
	}
	return out
}

// readDir is the reference listing: name-sorted union over the layers in which d is a
// directory; the uppermost entry of a name decides its type. ok=false when no layer has d.
func (m *c18Model) readDir(d string) (list []string, ok bool, zone bool) {
	if m.mixed(d) {
		return nil, false, true
	}
	seen := map[string]string{}
	any := false
	for _, l := range m.layers {
		k := "d"
		if d != "." {
			k = kindIn(l, d)
		}
		if k == "f" {
			// first layer that has it has a file: not a directory at all. A listing is then
			// an error of some kind; only "d is a file everywhere it exists" is defined.
			if !any {
				return nil, false, !m.allFileOrAbsent(d)
			}
			continue
		}
		if k != "d" {
			continue
		}
		any = true
		ents, _ := fs.ReadDir(l, d)
		for _, e := range ents {
			if _, dup := seen[e.Name()]; dup {
				continue
			}
			t := "f"
			if e.IsDir() {
				t = "d"
			}
			seen[e.Name()] = t
		}
	}
	if !any {
		return nil, false, false
	}
	var ns []string
	for n := range seen {
		ns = append(ns, n)
	}
	sort.Strings(ns) // by name (not by "name:type": '-' sorts before ':')
	for _, n := range ns {
		list = append(list, n+":"+seen[n])
	}
	return list, true, false
}

func (m *c18Model) existsAsFile(d string) bool {
	for _, l := range m.layers {
		if kindIn(l, d) == "f" {
			return true
		}
	}
	return false
}

func (m *c18Model) allFileOrAbsent(d string) bool {
	for _, l := range m.layers {
		if kindIn(l, d) == "d" {
			return false
		}
	}
	return true
}

func (m *c18Model) walk(root string) (out []string, zone bool) {
	out = append(out, root+":d")
	list, ok, z := m.readDir(root)
	if z {
		return nil, true
	}
	if !ok {
		return out, false
	}
	for _, e := range list {
		name, t, _ := strings.Cut(e, ":")
		p := name
		if root != "." {
			p = root + "/" + name
		}
		if t == "d" {
			sub, z := m.walk(p)
			if z {
				return nil, true
			}
			out = append(out, sub...)
		} else {
			out = append(out, p+":f")
		}
	}
	return out, false
}

func init() {
	core.Register(&core.Check{
		ID:    "C18",
		Level: "exploration",
		Rule: "every stack of <=3 layers (nil layers in any position) over a layer table in which each of a, d, d/x, d/y, e is absent / file / (empty) directory, optionally with a sibling directory d-z (whose path sorts before d/ although its name sorts after d); " +
			"per stack: ReadFile+Stat on 10 paths, ReadDir on 5 directories (names, types and each entry's size/mode/mtime against the first layer that has it), 6 glob patterns, one WalkDir; compared with a reference union model; " +
			"plus overlays built on overlays: 1..3 children made from one parent that wraps an overlay of 1..9 layers, each child checked against its own layers after all were built; plus wide directories: 1..N entries spread over 2-3 layers in 4 membership patterns (listings beyond the small-input regime of the sort). " +
			"non-trivial = stack with at least two non-nil layers; distinct = distinct layer-index vectors",
		Bounds: map[string]string{
			"quick":    "wide N<=20; all stacks of <=2 layers over 48 layer configs + nil; 3-layer stacks over a 12-config subset + nil",
			"thorough": "wide N<=40; all stacks of <=3 layers over 48 layer configs + nil; 4-layer stacks over the 12-config subset + nil",
		},
		Assumptions: []string{"testing/fstest.MapFS is a correct fs.FS", "listing or walking a name that is a file in an upper layer and a directory in a lower one is unconstrained (files below it are served from the first layer that has them)"},
		Decode:      core.DecodeAs[c18Case](),
		Enumerate: func(tier string, emit func(core.Case)) {
			all := []int{-1}
			for i := range c18Layers {
				all = append(all, i)
			}
			red := append([]int{-1}, c18Reduced...)
			var rec func(prefix []int, depth int, set []int)
			rec = func(prefix []int, depth int, set []int) {
				if depth == 0 {
					// a stack of only nil layers is legal too
					emit(&c18Case{Layers: append([]int(nil), prefix...)})
					return
				}
				for _, i := range set {
					rec(append(prefix, i), depth-1, set)
				}
			}
			maxN := 20
			if tier == "thorough" {
				maxN = 40
			}
			for _, pat := range []string{"all", "alt", "mod3", "dirs"} {
				for nl := 2; nl <= 3; nl++ {
					for n := 1; n <= maxN; n++ {
						emit(&c18Case{Wide: &c18Wide{N: n, NL: nl, Pattern: pat}})
					}
				}
			}
			hev := []string{"look", "add-upper", "del-upper", "add-upper-g", "del-lower", "add-lower", "upper-file-d", "upper-undo-d"}
			tokenStrings(hev, 4, func(tok []int) {
				var h []string
				for _, i := range tok {
					h = append(h, hev[i])
				}
				emit(&c18Case{Hist: h})
			})
			for depth := 1; depth <= 9; depth++ {
				for kids := 1; kids <= 3; kids++ {
					emit(&c18Case{Kids: kids, Depth: depth})
				}
			}
			// layers that answer like OS directories (ENOTDIR below a file), stacks of 2
			for _, i := range all {
				for _, j := range all {
					emit(&c18Case{Layers: []int{i, j}, OSLike: true})
					for _, oo := range []string{"upper", "lower", "all"} {
						emit(&c18Case{Layers: []int{i, j}, OpenOnly: oo})
					}
				}
			}
			for _, i := range red {
				for _, j := range red {
					for _, k := range red {
						for _, oo := range []string{"upper", "lower", "all"} {
							emit(&c18Case{Layers: []int{i, j, k}, OpenOnly: oo})
						}
					}
				}
			}
			rec(nil, 1, all)
			rec(nil, 2, all)
			if tier == "thorough" {
				rec(nil, 3, all)
				rec(nil, 4, red)
			} else {
				rec(nil, 3, red)
			}
		},
	})
}
