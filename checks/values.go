package checks

import (
	"fmt"
	"math"
	"net/url"
	"reflect"
)

// Typed Go values referenced by name from cases (so that cases stay JSON-serialisable).

type vStruct struct {
	Name  string `json:"name"`
	Count int    `json:"count"`
	priv  int
}

type vInner struct {
	Label string `json:"label"`
	N     int
}

type vOuter struct {
	Title string `json:"title"`
	Inner vInner `json:"inner"`
	Ptr   *vInner
	List  []int `json:"list"`
	M     map[string]any
	priv  string
}

var nilStructPtr *vStruct

// truthSpec: name -> (value, documented truthiness: +1 truthy, -1 falsy, 0 unconstrained)
type truthVal struct {
	Name  string
	V     any
	Truth int
	Kind  string // class for signatures
}

// named types (enums, ids, database column types): the kind decides, not the type name
type (
	vNamedInt   int
	vNamedU8    uint8
	vNamedFloat float64
	vNamedBool  bool
	vNamedStr   string
)

var truthValues = []truthVal{
	{"named_int0", vNamedInt(0), -1, "named-int"}, {"named_int1", vNamedInt(3), 1, "named-int"}, {"named_u8_0", vNamedU8(0), -1, "named-uint8"},
	{"named_float0", vNamedFloat(0), -1, "named-float"}, {"named_false", vNamedBool(false), -1, "named-bool"}, {"named_true", vNamedBool(true), 1, "named-bool"},
	{"named_empty", vNamedStr(""), -1, "named-string"}, {"named_str", vNamedStr("x"), 1, "named-string"},
	{"false", false, -1, "bool"}, {"true", true, 1, "bool"},
	{"int0", int(0), -1, "int"}, {"int1", int(1), 1, "int"}, {"intneg", int(-3), 1, "int"},
	{"int8_0", int8(0), -1, "int8"}, {"int8_1", int8(1), 1, "int8"},
	{"int16_0", int16(0), -1, "int16"}, {"int16_1", int16(1), 1, "int16"},
	{"int32_0", int32(0), -1, "int32"}, {"int32_1", int32(1), 1, "int32"},
	{"int64_0", int64(0), -1, "int64"}, {"int64_1", int64(1), 1, "int64"},
	{"uint_0", uint(0), -1, "uint"}, {"uint_1", uint(1), 1, "uint"},
	{"uint8_0", uint8(0), -1, "uint8"}, {"uint8_1", uint8(1), 1, "uint8"},
	{"uint16_0", uint16(0), -1, "uint16"}, {"uint16_1", uint16(1), 1, "uint16"},
	{"uint32_0", uint32(0), -1, "uint32"}, {"uint32_1", uint32(1), 1, "uint32"},
	{"uint64_0", uint64(0), -1, "uint64"}, {"uint64_1", uint64(1), 1, "uint64"},
	{"uintptr_0", uintptr(0), -1, "uintptr"}, {"uintptr_1", uintptr(1), 1, "uintptr"},
	{"float32_0", float32(0), -1, "float32"}, {"float32_1", float32(1.5), 1, "float32"},
	{"float64_0", float64(0), -1, "float64"}, {"float64_1", float64(0.5), 1, "float64"},
	{"str_empty", "", -1, "string"}, {"str_0", "0", 1, "string"}, {"str_x", "x", 1, "string"}, {"str_false", "false", 0, "string"},
	{"nil", nil, -1, "nil"}, {"missing", nil, -1, "missing"},
	{"slice_empty", []any{}, 1, "slice"}, {"slice_1", []any{1}, 1, "slice"}, {"ints_empty", []int{}, 1, "slice"},
	{"map_empty", map[string]any{}, 1, "map"}, {"map_1", map[string]any{"k": 1}, 1, "map"},
	{"array", [2]int{0, 0}, 1, "array"},
	{"struct", vStruct{Name: "n"}, 1, "struct"}, {"struct_zero", vStruct{}, 1, "struct"},
	{"ptr", &vStruct{Name: "p"}, 1, "ptr"}, {"nil_ptr", nilStructPtr, -1, "nilptr"}, {"nil_intptr", (*int)(nil), -1, "nilptr"},
	// a pointer that is not nil is truthy whatever it points to (an optional field that is set)
	{"ptr_false", new(bool), 1, "ptr"}, {"ptr_zero", new(int), 1, "ptr"}, {"ptr_empty", new(string), 1, "ptr"}, {"ptr_f0", new(float64), 1, "ptr"},
	{"ptr_str", vPtr("px"), 1, "ptr"}, {"ptr_int7", vPtr(7), 1, "ptr"}, {"ptr_true", vPtr(true), 1, "ptr"}, {"ptr_f15", vPtr(1.5), 1, "ptr"}, {"ptr_named", vPtr(vNamedStr("pn")), 1, "ptr"},
	{"negzero", math.Copysign(0, -1), -1, "float64"}, {"negzero32", float32(math.Copysign(0, -1)), -1, "float32"},
	{"nan", math.NaN(), 0, "nan"},
	// values whose string form has more than one spelling (exponent notation, sign, width)
	{"float_small", 0.00005, 1, "float64"}, {"float_huge", 1e21, 1, "float64"}, {"float_frac", 1234567.125, 1, "float64"},
	{"uint64_max", uint64(math.MaxUint64), 1, "uint64"}, {"int64_min", int64(math.MinInt64), 1, "int64"}, {"float32_third", float32(1) / 3, 1, "float32"},
}

func vPtr[T any](v T) *T { return &v }

// printedForm: what a template prints for a value - fmt.Sprint, except that a pointer to a
// string, number or bool prints what it points to (fmt would print an address).
func printedForm(v any) string {
	rv := reflect.ValueOf(v)
	if rv.Kind() == reflect.Ptr && !rv.IsNil() {
		switch rv.Elem().Kind() {
		case reflect.Struct, reflect.Map, reflect.Slice, reflect.Array, reflect.Ptr, reflect.Interface, reflect.Func, reflect.Chan:
		default:
			return fmt.Sprint(rv.Elem().Interface())
		}
	}
	return fmt.Sprint(v)
}

func truthByName(n string) truthVal {
	for _, t := range truthValues {
		if t.Name == n {
			return t
		}
	}
	panic("unknown truth value " + n)
}

// ---- values for C11 (wrong types in every directive position)

type vEmbedded struct {
	vInner
	Extra string
}

type vSelf struct {
	Name string
	Next *vSelf
}

// cyclic typed data: the cycle passes through a by-value struct, a slice, a map, an interface
type vOwner struct {
	Name    string   `json:"name"`
	Profile vProfile `json:"profile"`
}

type vProfile struct {
	Bio   string  `json:"bio"`
	Owner *vOwner `json:"owner"`
}

type vTree struct {
	Name string            `json:"name"`
	Kids []*vTree          `json:"kids"`
	M    map[string]*vTree `json:"m"`
	Any  any               `json:"any"`
	Next *vTree            `json:"next"`
	A    string            `json:"a"`
}

// a promoted field through a nil embedded pointer
type vEmbPtr struct {
	*vInner
	Extra string
}

type vStringer struct{ s string }

func (v vStringer) String() string { return "stringer:" + v.s }

func deepNested(depth int) any {
	var v any = "leaf"
	for i := 0; i < depth; i++ {
		if i%2 == 0 {
			v = map[string]any{"a": v}
		} else {
			v = []any{v}
		}
	}
	return v
}

type wrongVal struct {
	Name string
	V    any
}

var wrongValues = func() []wrongVal {
	self := &vSelf{Name: "self"}
	self.Next = self
	var nilMap map[string]any
	var nilSlice []string
	var nilFunc func()
	var nilIface error
	ch := make(chan int)
	owner := &vOwner{Name: "ann"}
	owner.Profile = vProfile{Bio: "b", Owner: owner}
	tslice := &vTree{Name: "ts"}
	tslice.Kids = []*vTree{tslice}
	tmap := &vTree{Name: "tm"}
	tmap.M = map[string]*vTree{"a": tmap}
	tany := &vTree{Name: "ta"}
	tany.Any = tany
	ta, tb := &vTree{Name: "c2a"}, &vTree{Name: "c2b"}
	ta.Next, tb.Next = tb, ta
	tanyval := &vTree{Name: "tv"}
	tanyval.Any = []any{map[string]any{"p": tanyval}}
	return []wrongVal{
		{"cyc-byvalue", owner}, {"cyc-byvalue-val", *owner}, {"cyc-slice", tslice}, {"cyc-map", tmap}, {"cyc-any", tany}, {"cyc-2", ta}, {"cyc-any-nested", tanyval},
		{"nil-embedded-ptr", vEmbPtr{Extra: "e"}}, {"nil-embedded-ptr-ptr", &vEmbPtr{Extra: "e"}},
		{"nil", nil}, {"true", true}, {"int", 7}, {"int8", int8(-8)}, {"uint64", uint64(1 << 63)}, {"float", 2.5}, {"nan", math.NaN()}, {"inf", math.Inf(1)},
		{"complex", complex(1, 2)}, {"string", "str"}, {"empty", ""}, {"bytes", []byte("by")}, {"rune", 'r'},
		{"ints", []int{1, 2}}, {"anys", []any{1, "a", nil}}, {"array", [2]string{"x", "y"}}, {"nested", [][]int{{1}, {}}},
		{"map", map[string]any{"a": map[string]any{"b": 1}, "Name": "n"}}, {"mapss", map[string]string{"a": "b"}}, {"mapint", map[int]string{0: "zero", 1: "one"}}, {"mapany", map[any]any{"a": 1, 2: "b"}},
		{"nilmap", nilMap}, {"nilslice", nilSlice}, {"nilptr", nilStructPtr}, {"nilfunc", nilFunc}, {"niliface", nilIface},
		{"struct", vStruct{Name: "n", Count: 1, priv: 2}}, {"structptr", &vStruct{Name: "p", priv: 3}}, {"outer", vOuter{Title: "t", Ptr: nil, priv: "x"}}, {"embedded", vEmbedded{vInner: vInner{Label: "l"}, Extra: "e"}},
		{"func", func() string { return "f" }}, {"chan", ch}, {"time", baseTime}, {"self", self}, {"stringer", vStringer{"s"}},
		{"deep1000", deepNested(1000)}, {"sliceofstruct", []vStruct{{Name: "a"}}}, {"ptrslice", &[]int{1}},
		{"nil-stringer-ptr", (*url.URL)(nil)}, {"stringer-ptr", &url.URL{Scheme: "x", Host: "h"}},
	}
}()

// vSelfPtr: a pointer type that points to itself (p = &p): following it never reaches a value
type vSelfPtr *vSelfPtr

func wrongByName(n string) any {
	if n == "selfptrtype" {
		var p vSelfPtr
		p = &p
		return p
	}
	for _, w := range wrongValues {
		if w.Name == n {
			return w.V
		}
	}
	panic("unknown wrong value " + n)
}
