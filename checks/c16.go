package checks

import (
	"bytes"
	"fmt"
	"sort"
	"strings"
	"testing/fstest"
	"time"

	"github.com/titpetric/vuego"
	"golang.org/x/net/html"

	"verif/engine/core"
)

// C16: v-once emits each marked element exactly once per render, independently.

type c16Prog struct {
	Name string
	Page string
	// expected number of occurrences per marker when rendered WITHOUT layouts (vue/fragment/string)
	Want map[string]int
	// additional occurrences contributed by the layout chain (template entry points)
	Layout map[string]int
	// StrSrc: for the string entry points, this source is rendered on a template that has Page
	// loaded (a snippet rendered on a page's template), with StrWant as expectation
	StrSrc  string
	StrWant map[string]int
}

var c16Files = Files{
	"a.vuego":  `<b v-once>OA</b><span>a</span>`,
	"b.vuego":  `<b v-once>OB</b><i v-once>OB2</i>`,
	"c.vuego":  `<em v-once>OC</em>`,
	"ac.vuego": `<div class="ac"><template include="c.vuego"></template><b v-once>OAC</b></div>`,
	"s1.vuego": `<div><slot></slot></div>`,
	"s2.vuego": `<div><slot></slot></div><section><slot></slot></section>`,
	"sf.vuego": `<ul><li v-for="i in three"><slot></slot></li></ul>`,

	"n1.vuego":                      `<section>x</section><div v-once><u>N1W</u><style v-once>N1S</style></div>`,
	"n2.vuego":                      `<span>y</span><div v-once><u>N2W</u><script v-once>N2S</script></div>`,
	"p_nest.vuego":                  `<div v-once><u>OW</u><b v-once>ON</b></div><i v-once>O1</i>`,
	"p_nestfor.vuego":               `<div v-for="i in three"><div v-once><u>OW</u><p><b v-once>ON</b></p></div><i v-once>O1</i></div>`,
	"p_nestcomp.vuego":              `<div v-for="i in three"><template include="n1.vuego"></template><template include="n2.vuego"></template></div><template include="n1.vuego"></template>`,
	"tr.vuego":                      `<template><b v-once>OT</b><i>t</i></template><u v-once>OU</u>`,
	"p_tmplroot.vuego":              `<template include="tr.vuego"></template><template include="tr.vuego"></template>`,
	"p_tmplroot1.vuego":             `<div><template include="tr.vuego"></template></div>`,
	"p_elseonce.vuego":              `<div v-for="i in three"><p v-if="i == 9">z</p><p v-else v-once>OE</p><p v-if="i == 9">z</p><p v-else-if="i < 5" v-once>OE2</p></div>`,
	"p_forelseonce.vuego":           `<div v-for="i in three"><p v-for="x in none">x</p><p v-else v-once>OF</p></div>`,
	"p_forifonce.vuego":             `<p v-for="i in three" v-if="i == 1" v-once>OG</p><p v-for="i in three" v-if="i > 0" v-once>OH</p><p v-for="i in three" v-if="i < 2" v-once>OK</p>`,
	"p_many.vuego":                  `<div v-for="i in three"><b v-once>M01</b><b v-once>M02</b><b v-once>M03</b><b v-once>M04</b><b v-once>M05</b><b v-once>M06</b><b v-once>M07</b><b v-once>M08</b><b v-once>M09</b><b v-once>M10</b><b v-once>M11</b><b v-once>M12</b></div><template include="many_c.vuego"></template><template include="many_c.vuego"></template>`,
	"many_c.vuego":                  `<i v-once>N01</i><i v-once>N02</i><i v-once>N03</i><i v-once>N04</i><i v-once>N05</i><i v-once>N06</i><i v-once>N07</i><i v-once>N08</i><i v-once>N09</i><i v-once>N10</i><i v-once>N11</i>`,
	"p_samebase.vuego":              `<template include="components/forms/Button.vuego"></template><template include="components/nav/Button.vuego"></template><template include="components/forms/Button.vuego"></template><template include="components/nav/Button.vuego"></template>`,
	"components/forms/Button.vuego": `<style v-once>BF</style><button>f</button>`,
	"components/nav/Button.vuego":   `<style v-once>BN</style><button>n</button>`,
	"p_strself.vuego":               `<em v-once>OZ</em><em v-once>OZ2</em>`,
	"p_ifonce.vuego":                `<div v-for="i in three"><p v-once v-if="i == 1">OI</p></div>`,
	"p_layslot.vuego":               "---\nlayout: once_slots\n---\n<template #side><p v-once>LA</p><p v-once>LB</p></template><i>body</i>",
	"p_layslot2.vuego":              "---\nlayout: once_slots2\n---\n<template #head><style v-once>LC</style><b v-once>LD</b></template><i v-once>LG</i><template #foot><script v-once>LE</script><b v-once>LF</b></template>",
	"layouts/once_slots2.vuego":     `<html><head><slot name="head"></slot></head><body><div v-html="content"></div><footer><slot name="foot"></slot></footer></body></html>`,
	"layouts/once_slots.vuego":      `<main><aside><slot name="side"></slot></aside><div v-html="content"></div></main>`,
	"p_elsefor.vuego":               `<p v-if="nope">p</p><b v-else v-for="i in three" v-once>OL1</b><p v-for="x in none">x</p><u v-else v-for="i in three" v-once>OL2</u><p v-if="nope">p</p><em v-else-if="t" v-for="i in three" v-once>OL3</em>`,
	"c_elsefor.vuego":               `<ul><li v-if="nope">h</li><li v-else-if="t" v-for="i in three" v-once>OL4</li></ul>`,
	"p_elsefor2.vuego":              `<template include="c_elsefor.vuego"></template><template include="c_elsefor.vuego"></template>`,
	"tr2.vuego":                     `<template v-once><b>OR</b></template><i>r</i>`,
	"p_tmplonce.vuego":              `<template include="tr2.vuego"></template><template include="tr2.vuego"></template><div v-for="i in three"><template include="tr2.vuego"></template></div>`,
	"p_preonce.vuego":               `<div v-for="i in three"><u class="auto">PA</u><b v-once>PB</b><u class="auto">PC</u></div><u class="auto">PD</u>`,
	"p_upper.vuego":                 `<template include="up_a.vuego"></template><template include="up_b.vuego"></template><template include="up_a.vuego"></template><div v-for="i in three"><template include="up_b.vuego"></template></div><u V-ONCE>UD</u>`,
	"up_a.vuego":                    `<style V-ONCE>UA</style><b>a</b>`,
	"up_b.vuego":                    `<script v-Once>UB</script><i V-Once>UC</i>`,
	"p_prevonce.vuego":              `<div v-for="i in three"><script v-once v-pre>QA</script><b v-pre v-once>QB</b></div><template include="pv_c.vuego"></template><template include="pv_c.vuego"></template>`,
	"pv_c.vuego":                    `<style v-pre v-once>QC</style><i>c</i>`,
	"p_top.vuego":                   `<b v-once>O1</b><p>x</p><b v-once>O2</b><b v-once>O3</b>`,
	// shorthand component tags that carry v-once, in slot content a page hands to its layout (whose slot is in a loop)
	"p_layslotcomp.vuego":         "---\nlayout: once_slotloop\n---\n<template #side><once-card v-once></once-card><once-badge v-once></once-badge><i v-once>LK</i></template><i>body</i>",
	"layouts/once_slotloop.vuego": `<main><section v-for="i in three"><slot name="side"></slot></section><div v-html="content"></div></main>`,
	"components/OnceCard.vuego":   `<b>LH</b>`,
	"components/OnceBadge.vuego":  `<u>LI</u>`,
	// a component without v-once elements that is edited (see "editrow") into one with two of them
	"p_row.vuego": `<ul><li v-for="i in three"><template include="row.vuego"></template></li></ul><template include="row2.vuego"></template>`,
	"row.vuego":   `<b>r</b>`,
	"row2.vuego":  `<i>r2</i>`,
	// renders that fail after they have passed v-once elements (of the page, of components other pages include too)
	"p_failinc.vuego":          `<b v-once>O1</b><template include="a.vuego"></template><template include="b.vuego"></template><div v-for="i in three"><u v-once>O2</u></div><template include="no_such_file.vuego"></template>`,
	"p_failtop.vuego":          `<b v-once>O1</b><p>x</p><b v-once>O2</b><template include="ac.vuego"></template><p>{{ t | nosuchfilter }}</p><b v-once>O3</b>`,
	"p_for.vuego":              `<div v-for="i in three"><b v-once>O1</b><i>{{ i }}</i><u v-once>O2</u></div>`,
	"p_forself.vuego":          `<b v-for="i in three" v-once>O1</b><i v-for="j in three">I</i>`,
	"p_inc1.vuego":             `<template include="a.vuego"></template>`,
	"p_inc2.vuego":             `<template include="a.vuego"></template><template include="a.vuego"></template>`,
	"p_inc3.vuego":             `<template include="a.vuego"></template><p v-once>O1</p><template include="a.vuego"></template><template include="a.vuego"></template>`,
	"p_ab.vuego":               `<template include="a.vuego"></template><template include="b.vuego"></template><template include="a.vuego"></template><b v-once>O1</b>`,
	"p_incfor.vuego":           `<div v-for="i in three"><template include="a.vuego"></template></div>`,
	"p_nested.vuego":           `<template include="ac.vuego"></template><template include="ac.vuego"></template><template include="c.vuego"></template>`,
	"p_slot1.vuego":            `<template include="s1.vuego"><b v-once>OS</b></template><b v-once>O1</b>`,
	"p_slot2.vuego":            `<template include="s2.vuego"><b v-once>OS</b></template>`,
	"p_slotfor.vuego":          `<template include="sf.vuego"><template v-slot><b v-once>OS</b></template></template>`,
	"p_if.vuego":               `<div v-if="t"><b v-once>O1</b></div><div v-else><b v-once>O2</b></div><b v-if="t" v-once>O3</b>`,
	"p_lay.vuego":              "---\nlayout: once_lay\n---\n<b v-once>O1</b><template include=\"a.vuego\"></template><template include=\"a.vuego\"></template>",
	"layouts/once_lay.vuego":   "---\nlayout: once_outer\n---\n<main><b v-once>OL</b><template include=\"a.vuego\"></template><div v-for=\"i in three\"><u v-once>OL2</u></div><section v-html=\"content\"></section></main>",
	"layouts/once_outer.vuego": "<html><body><b v-once>OO</b><template include=\"a.vuego\"></template><template include=\"a.vuego\"></template><div v-html=\"content\"></div></body></html>",
}

var c16Progs = []c16Prog{
	{"top", "p_top.vuego", map[string]int{"O1": 1, "O2": 1, "O3": 1}, nil, "", nil},
	{"for", "p_for.vuego", map[string]int{"O1": 1, "O2": 1}, nil, "", nil},
	{"forself", "p_forself.vuego", map[string]int{"O1": 1}, nil, "", nil},
	{"inc1", "p_inc1.vuego", map[string]int{"OA": 1}, nil, "", nil},
	{"inc2", "p_inc2.vuego", map[string]int{"OA": 1}, nil, "", nil},
	{"inc3", "p_inc3.vuego", map[string]int{"OA": 1, "O1": 1}, nil, "", nil},
	{"ab", "p_ab.vuego", map[string]int{"OA": 1, "OB": 1, "OB2": 1, "O1": 1}, nil, "", nil},
	{"incfor", "p_incfor.vuego", map[string]int{"OA": 1}, nil, "", nil},
	{"nested", "p_nested.vuego", map[string]int{"OC": 1, "OAC": 1}, nil, "", nil},
	{"slot1", "p_slot1.vuego", map[string]int{"OS": 1, "O1": 1}, nil, "", nil},
	{"slot2", "p_slot2.vuego", map[string]int{"OS": 1}, nil, "", nil},
	{"slotfor", "p_slotfor.vuego", map[string]int{"OS": 1}, nil, "", nil},
	{"if", "p_if.vuego", map[string]int{"O1": 1, "O2": 0, "O3": 1}, nil, "", nil},
	{"nest", "p_nest.vuego", map[string]int{"OW": 1, "ON": 1, "O1": 1}, nil, "", nil},
	{"nestfor", "p_nestfor.vuego", map[string]int{"OW": 1, "ON": 1, "O1": 1}, nil, "", nil},
	{"nestcomp", "p_nestcomp.vuego", map[string]int{"N1W": 1, "N1S": 1, "N2W": 1, "N2S": 1}, nil, "", nil},
	{"tmplroot", "p_tmplroot.vuego", map[string]int{"OT": 1, "OU": 1}, nil, "", nil},
	{"tmplroot1", "p_tmplroot1.vuego", map[string]int{"OT": 1, "OU": 1}, nil, "", nil},
	{"elseonce", "p_elseonce.vuego", map[string]int{"OE": 1, "OE2": 1}, nil, "", nil},
	{"forelseonce", "p_forelseonce.vuego", map[string]int{"OF": 1}, nil, "", nil},
	{"ifonce", "p_ifonce.vuego", map[string]int{"OI": 1}, nil, "", nil},
	{"strself", "p_strself.vuego", map[string]int{"OZ": 1, "OZ2": 1}, nil, `<b v-once>OX</b><template include="p_strself.vuego"></template><b v-once>OY</b><template include="p_strself.vuego"></template>`, map[string]int{"OX": 1, "OY": 1, "OZ": 1, "OZ2": 1}},
	{"many", "p_many.vuego", map[string]int{"M01": 1, "M02": 1, "M03": 1, "M04": 1, "M05": 1, "M06": 1, "M07": 1, "M08": 1, "M09": 1, "M10": 1, "M11": 1, "M12": 1, "N01": 1, "N02": 1, "N03": 1, "N04": 1, "N05": 1, "N06": 1, "N07": 1, "N08": 1, "N09": 1, "N10": 1, "N11": 1}, nil, "", nil},
	{"samebase", "p_samebase.vuego", map[string]int{"BF": 1, "BN": 1}, nil, "", nil},
	{"forifonce", "p_forifonce.vuego", map[string]int{"OG": 1, "OH": 1, "OK": 1}, nil, "", nil},
	{"layslot", "p_layslot.vuego", nil, map[string]int{"LA": 1, "LB": 1}, "", nil}, // in the layout slot (not a second time in the page content)
	{"layslot2", "p_layslot2.vuego", nil, map[string]int{"LC": 1, "LD": 1, "LE": 1, "LF": 1, "LG": 1}, "", nil},
	{"elsefor", "p_elsefor.vuego", map[string]int{"OL1": 1, "OL2": 1, "OL3": 1}, nil, "", nil},
	{"elsefor2", "p_elsefor2.vuego", map[string]int{"OL4": 1}, nil, "", nil},
	{"tmplonce", "p_tmplonce.vuego", map[string]int{"OR": 1}, nil, "", nil},
	{"preonce", "p_preonce.vuego", map[string]int{"PA": 1, "PB": 1, "PC": 1, "PD": 1}, nil, "", nil}, // class="auto" is marked v-once by the processor's PreProcess
	{"upper", "p_upper.vuego", map[string]int{"UA": 1, "UB": 1, "UC": 1, "UD": 1}, nil, "", nil},     // attribute names are case-insensitive
	{"prevonce", "p_prevonce.vuego", map[string]int{"QA": 1, "QB": 1, "QC": 1}, nil, "", nil},        // v-pre keeps the content as written; the element is still emitted once
	{"lay", "p_lay.vuego", map[string]int{"O1": 1, "OA": 1}, map[string]int{"OL": 1, "OL2": 1, "OO": 1, "OA": 2}, "", nil},
	{"layslotcomp", "p_layslotcomp.vuego", nil, map[string]int{"LH": 1, "LI": 1, "LK": 1}, "", nil},
	{"row", "p_row.vuego", map[string]int{}, nil, "", nil},     // (after "editrow": RA, RB, RC once each)
	{"editrow", "p_row.vuego", map[string]int{}, nil, "", nil}, // rendered like "row", then the two components are replaced by versions with v-once elements
	{"failinc", "p_failinc.vuego", map[string]int{}, nil, "", nil},
	{"failtop", "p_failtop.vuego", map[string]int{}, nil, "", nil},
}

// c16Fails: programs whose render fails (what they leave behind must not reach the next render)
var c16Fails = map[string]bool{"failinc": true, "failtop": true}

func c16Prog_(name string) *c16Prog {
	for i := range c16Progs {
		if c16Progs[i].Name == name {
			return &c16Progs[i]
		}
	}
	return nil
}

type c16Case struct {
	Seq   []string `json:"seq"`   // program names rendered in order on one engine
	Entry string   `json:"entry"` // load | renderfile | vue | fragment | string | byte | reader
}

func (c *c16Case) Key() string { return core.KeyOf(c) }

var c16Markers = []string{"QA", "QB", "QC", "UA", "UB", "UC", "UD", "PA", "PB", "PC", "PD", "BF", "BN", "LC", "LD", "LE", "LF", "LG", "M01", "M02", "M03", "M04", "M05", "M06", "M07", "M08", "M09", "M10", "M11", "M12", "N01", "N02", "N03", "N04", "N05", "N06", "N07", "N08", "N09", "N10", "N11", "OX", "OY", "OZ2", "OZ", "OG", "OH", "OK", "OR", "OL1", "OL2", "OL3", "OL4", "OE2", "OE", "OF", "OI", "LA", "LB", "OT", "OU", "OW", "ON", "N1W", "N1S", "N2W", "N2S", "O1", "O2", "O3", "OA", "OB2", "OB", "OC", "OAC", "OS", "OL2", "OL", "OO", "RA", "RB", "RC", "LH", "LI", "LK"}

// c16Proc is registered on every engine: its pre-processing step marks elements of class "auto"
// with v-once (a processor that de-duplicates injected assets would do this).
type c16Proc struct{}

func (c16Proc) New() vuego.NodeProcessor             { return c16Proc{} }
func (c16Proc) PostProcess(nodes []*html.Node) error { return nil }
func (c16Proc) PreProcess(nodes []*html.Node) error {
	var walk func(n *html.Node)
	walk = func(n *html.Node) {
		if n.Type == html.ElementNode {
			auto, once := false, false
			for _, a := range n.Attr {
				auto = auto || (a.Key == "class" && a.Val == "auto")
				once = once || a.Key == "v-once"
			}
			if auto && !once {
				n.Attr = append(n.Attr, html.Attribute{Key: "v-once"})
			}
		}
		for c := n.FirstChild; c != nil; c = c.NextSibling {
			walk(c)
		}
	}
	for _, n := range nodes {
		walk(n)
	}
	return nil
}

func c16Count(out string) map[string]int {
	m := map[string]int{}
	for _, mk := range c16Markers {
		// markers are written as >MARK< (element text)
		m[mk] = strings.Count(out, ">"+mk+"<")
	}
	return m
}

func (c *c16Case) Run(ctx *core.Ctx) {
	ctx.NonTrivial()
	data := map[string]any{"three": []int{0, 1, 2}, "t": true, "none": []int{}}
	fsT, fsV := c16Files.FS(), c16Files.FS()
	tpl := vuego.NewFS(fsT, vuego.WithProcessor(c16Proc{}), vuego.WithComponents())
	vue := vuego.NewVue(fsV)
	vue.RegisterNodeProcessor(c16Proc{})
	rowEdited := false
	for i, name := range c.Seq {
		p := c16Prog_(name)
		editRow := func() {
			if name != "editrow" {
				return
			}
			// after its render: the components get v-once elements (a later modification time: the engines must notice)
			for _, m := range []fstest.MapFS{fsT, fsV} {
				m["row.vuego"] = &fstest.MapFile{Data: []byte(`<style v-once>RA</style><b>r</b><script v-once>RB</script>`), ModTime: baseTime.Add(time.Hour), Mode: 0o644}
				m["row2.vuego"] = &fstest.MapFile{Data: []byte(`<i>r2</i><u v-once>RC</u>`), ModTime: baseTime.Add(time.Hour), Mode: 0o644}
			}
			rowEdited = true
		}
		var buf bytes.Buffer
		var err error
		src := stripFM(c16Files[p.Page])
		strT := tpl.New()
		if p.StrSrc != "" {
			src, strT = p.StrSrc, tpl.Load(p.Page)
		}
		ctx.Eval(1)
		ctx.Transition(1)
		withLayout := false
		switch c.Entry {
		case "load":
			err = tpl.Load(p.Page).Fill(data).Render(bg, &buf)
			withLayout = true
		case "renderfile":
			err = tpl.New().Fill(data).RenderFile(bg, &buf, p.Page)
			withLayout = true
		case "vue":
			err = vue.Render(&buf, p.Page, data)
		case "fragment":
			err = vue.RenderFragment(&buf, p.Page, data)
		case "string":
			err = strT.Fill(data).RenderString(bg, &buf, src)
		case "byte":
			err = strT.Fill(data).RenderByte(bg, &buf, []byte(src))
		case "reader":
			err = strT.Fill(data).RenderReader(bg, &buf, strings.NewReader(src))
		}
		where := p.Name + "/" + c.Entry
		trig := fmt.Sprintf("render#%d", min(i, 1))
		if p.Want == nil && !withLayout {
			continue // the program only has a meaning through its layout
		}
		if c16Fails[p.Name] {
			if err == nil {
				ctx.Violation("no-error", where, trig, fmt.Sprintf("seq %v: the render was to fail", c.Seq[:i+1]))
			}
			ctx.State(1)
			continue
		}
		if err != nil {
			ctx.Violation("render-error", where, trig, fmt.Sprintf("seq %v: %v", c.Seq[:i+1], err))
			return
		}
		want := map[string]int{}
		for k, v := range p.Want {
			want[k] = v
		}
		if (name == "row" || name == "editrow") && rowEdited {
			want["RA"], want["RB"], want["RC"] = 1, 1, 1
		}
		if p.StrSrc != "" && (c.Entry == "string" || c.Entry == "byte" || c.Entry == "reader") {
			want = map[string]int{}
			for k, v := range p.StrWant {
				want[k] = v
			}
		}
		if withLayout {
			for k, v := range p.Layout {
				want[k] += v
			}
		}
		got := c16Count(buf.String())
		var bad []string
		for _, mk := range c16Markers {
			if got[mk] != want[mk] {
				kind := "suppressed"
				if got[mk] > want[mk] {
					kind = "repeated"
				}
				bad = append(bad, fmt.Sprintf("%s:%s(%d!=%d)", mk, kind, got[mk], want[mk]))
				ctx.Violation("v-once-"+kind, where, trig+"/"+mk, fmt.Sprintf("seq %v entry %s: marker %s occurs %d times, want %d\nout %q", c.Seq[:i+1], c.Entry, mk, got[mk], want[mk], clip(buf.String(), 600)))
			}
		}
		sort.Strings(bad)
		ctx.Outcome(p.Name + c.Entry + strings.Join(bad, ","))
		ctx.State(1)
		editRow()
	}
}

func init() {
	core.Register(&core.Check{
		ID:    "C16",
		Level: "model_checking",
		Rule: "39 programs: 34 placements of 1-4 v-once elements (v-once nested inside v-once at top level, in a loop and in two components included from a loop, in a component whose root is a <template> tag (inside, on and after it), on v-else / v-else-if members and on the v-else of an empty v-for inside a loop, together with v-if, together with v-for and a v-if that is false for the first item, on chain members that are loops themselves, in slot content a page hands to its layout (one and two slot templates), top level, inside v-for, on the looped element itself, in a component included 1..3 times, in two different components, in two components whose files have the same name in different directories, in a component included from a loop, nested components, slot content used once / twice / in a loop, v-if branches, page + two layouts each including the same component, twelve v-once elements in one file (IDs of more than one digit), a string template rendered on a template object that has loaded the very file the string includes, v-once together with v-pre (in a loop, in a component included twice), the directive spelled in capitals (V-ONCE, v-Once) in two components, elements a node processor marks v-once in its pre-processing step (the page's nodes: components are not pre-processed)), and two pages whose render fails - a missing include, an unknown filter - after v-once elements of the page and of shared components have been passed, a page whose layout slot (in a loop) receives shorthand component tags that carry v-once, and a page whose two components have no v-once elements until an edit operation (part of the histories) replaces them by versions with two and one, x 7 entry points (Load+Render, RenderFile, Vue.Render, Vue.RenderFragment, RenderString/Byte/Reader) x every history of <=L renders on one long-lived engine; " +
			"oracle: every marked source element occurs exactly once per render (per link of a layout chain), unreached ones zero times. states = renders checked; non-trivial = all",
		Bounds:      map[string]string{"quick": "L=2 (all ordered pairs of programs)", "thorough": "L=3 (all ordered triples)"},
		Assumptions: []string{"markers are counted textually as >MARK< in the output"},
		Decode:      core.DecodeAs[c16Case](),
		Enumerate: func(tier string, emit func(core.Case)) {
			L := 2
			if tier == "thorough" {
				L = 3
			}
			for _, e := range []string{"load", "renderfile", "vue", "fragment", "string", "byte", "reader"} {
				var rec func(seq []string)
				rec = func(seq []string) {
					if len(seq) > 0 {
						emit(&c16Case{Seq: append([]string(nil), seq...), Entry: e})
					}
					if len(seq) == L {
						return
					}
					for _, p := range c16Progs {
						rec(append(seq, p.Name))
					}
				}
				rec(nil)
			}
		},
	})
}
