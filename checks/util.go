package checks

import (
	"bytes"
	"context"
	"encoding/json"
	"fmt"
	"io/fs"
	"os"
	"sort"
	"strings"
	"testing/fstest"
	"time"

	"github.com/titpetric/vuego"
)

// Files is a template set: path -> content.
type Files map[string]string

var baseTime = time.Date(2021, 3, 4, 5, 6, 7, 0, time.UTC)

// FS builds an in-memory filesystem with a fixed, non-zero modification time.
func (f Files) FS() fstest.MapFS {
	m := fstest.MapFS{}
	for p, c := range f {
		m[p] = &fstest.MapFile{Data: []byte(c), ModTime: baseTime, Mode: 0o644}
	}
	return m
}

func (f Files) String() string {
	var keys []string
	for k := range f {
		keys = append(keys, k)
	}
	sort.Strings(keys)
	var b strings.Builder
	for _, k := range keys {
		fmt.Fprintf(&b, "--- %s\n%s\n", k, f[k])
	}
	return b.String()
}

var bg = context.Background()

// renderPage renders page from files through Load().Fill(data).Render on a fresh engine.
func renderPage(files Files, page string, data any, opts ...vuego.LoadOption) (string, error) {
	var fsys fs.FS = files.FS()
	t := vuego.NewFS(fsys, opts...)
	var buf bytes.Buffer
	err := t.Load(page).Fill(data).Render(bg, &buf)
	return buf.String(), err
}

// renderString renders a template string on a fresh engine.
func renderString(tpl string, data any) (string, error) {
	var buf bytes.Buffer
	err := vuego.New().Fill(data).RenderString(bg, &buf, tpl)
	return buf.String(), err
}

// renderStringFS renders a template string on a fresh engine that can include files.
func renderStringFS(files Files, tpl string, data any) (string, error) {
	var buf bytes.Buffer
	err := vuego.NewFS(files.FS()).Fill(data).RenderString(bg, &buf, tpl)
	return buf.String(), err
}

// tokenStrings enumerates all strings of 1..maxLen tokens over alphabet, shortest first.
func tokenStrings(alphabet []string, maxLen int, emit func(tokens []int)) {
	var rec func(prefix []int, n int)
	rec = func(prefix []int, n int) {
		if n == 0 {
			emit(prefix)
			return
		}
		for i := range alphabet {
			rec(append(prefix, i), n-1)
		}
	}
	for n := 1; n <= maxLen; n++ {
		rec(make([]int, 0, n), n)
	}
}

func joinTokens(alphabet []string, idx []int) string {
	var b strings.Builder
	for _, i := range idx {
		b.WriteString(alphabet[i])
	}
	return b.String()
}

func clip(s string, n int) string {
	if len(s) > n {
		return s[:n] + "…"
	}
	return s
}

// loadSites reads the instrumenter's site table (map-order seam) so that signatures can
// name functions instead of line numbers.
func loadSites() {
	dir := os.Getenv("VERIF_OVERLAY_DIR")
	if dir == "" {
		return
	}
	b, err := os.ReadFile(dir + "/sites.json")
	if err != nil {
		return
	}
	var sites []struct{ ID, File, Func string }
	if json.Unmarshal(b, &sites) != nil {
		return
	}
	for _, s := range sites {
		siteFuncs[s.ID] = strings.TrimSuffix(s.File, ".go") + "." + s.Func
	}
}
