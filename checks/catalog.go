package checks

import (
	"html/template"
	"sort"
	"strings"
)

// A catalogue of template programs, one per feature, shared by C09, C10, C12, C15, C16.
// All programs live in ONE file set (distinct file names) so that they can be rendered on one
// long-lived engine. Every program prints a per-render canary taken from its data.

type Program struct {
	Name  string
	Page  string
	Fails bool // the render is expected to fail
	// Data builds fresh caller data for one render.
	Data func(canary string) map[string]any
	// HasFM: the page has front-matter (Vue.Render merges it into the data).
	HasFM bool
	// Layout: rendering through Template.Render goes through a layout chain.
	Layout bool
}

type catItem struct {
	Name string `json:"name"`
	N    int    `json:"n"`
}

// catBigMap: a map beyond the sizes at which sorts and maps change their ways (12 elements, 8 per bucket)
func catBigMap(n int) map[string]any {
	m := map[string]any{}
	for i := 0; i < n; i++ {
		m[string(rune('a'+(i*7)%26))+string(rune('a'+i))] = i
	}
	return m
}

func catData(extra map[string]any) func(string) map[string]any {
	return func(canary string) map[string]any {
		m := map[string]any{
			"canary": canary,
			"title":  "T<i>tle & \"q\"",
			"show":   true,
			"hide":   false,
			"n":      3,
			"items":  []any{"a", "b", "c"},
			"rows":   [][]int{{1, 2}, {3}},
			"objs":   []map[string]any{{"name": "x", "on": true}, {"name": "y", "on": false}},
			"m":      map[string]any{"k1": "v1", "k2": "v2", "k3": "v3", "k4": "v4", "k5": "v5"},
			"user":   map[string]any{"name": "Ann", "tags": []string{"p", "q"}},
			"color":  "red",
			"html":   "<em>raw</em>",
			"st":     catItem{Name: "S", N: 7},
			"url":    "/a?b=1&c=2",
			"mi":     map[int]string{3: "c", 1: "a", 2: "b", 10: "j"},
			"mf":     map[float64]string{1.5: "x", 0.5: "y", 2: "z"},
			"m13":    catBigMap(13),
			"m9":     catBigMap(9),
		}
		for k, v := range extra {
			m[k] = v
		}
		return m
	}
}

// catAlt: a second data set for every program: every boolean flipped, other lengths, other
// strings. Histories render the same program with both (state left behind by a render with
// other data must not show).
func catAlt(canary string) map[string]any {
	return catData(map[string]any{
		"title": "Alt", "show": false, "hide": true, "n": 1, "items": []any{"z"}, "rows": [][]int{{9}},
		"objs":  []map[string]any{{"name": "w", "on": false}},
		"m":     map[string]any{"k1": "w1", "k9": "w9"},
		"user":  map[string]any{"name": "Bob", "tags": []string{"r", "s"}},
		"color": "green", "html": "<u>alt</u>", "st": catItem{Name: "A", N: 1}, "url": "/alt",
	})(canary)
}

// catRetyped: the same values as the normal data set in other Go types (what a JSON decoder, a
// typed struct or a database row would deliver): compiled expressions and cached paths must not
// remember the types of an earlier render.
type catUser struct {
	Name string   `json:"name"`
	Tags []string `json:"tags"`
}

func catRetyped(canary string) map[string]any {
	return catData(map[string]any{
		"n": float64(3), "items": []string{"a", "b", "c"}, "rows": []any{[]any{1.0, 2.0}, []any{3.0}},
		"objs":  []any{map[string]any{"name": "x", "on": true}, map[string]any{"name": "y", "on": false}},
		"m":     map[string]string{"k1": "v1", "k2": "v2", "k3": "v3", "k4": "v4", "k5": "v5"},
		"user":  catUser{Name: "Ann", Tags: []string{"p", "q"}},
		"st":    map[string]any{"name": "S", "n": 7.0, "Name": "S"},
		"color": template.HTML("red"), "show": 1, "hide": 0,
	})(canary)
}

var CatalogFiles = Files{
	"theme.yml":  "site: ThemeSite\ntcolor: blue\n",
	"data/a.yml": "site: DataSite\nmenu:\n  - home\n  - about\n",

	"p_text.vuego":              `<h1>{{ title }}</h1><p>{{ canary }} {{ user.name }} {{ n }} {{ missing }}</p>`,
	"p_if.vuego":                `<div v-if="hide">A</div><div v-else-if="n == 3">B{{ canary }}</div><div v-else>C</div><p v-if="show">S</p>`,
	"p_for.vuego":               `<ul><li v-for="(i, it) in items" :data-i="i">{{ it }}{{ canary }}</li><li v-else>none</li></ul>`,
	"p_formap.vuego":            `<ul><li v-for="v in m">{{ v }}</li></ul><p>{{ canary }}</p>`,
	"p_formapbig.vuego":         `<ul><li v-for="(i, v) in m13" :data-i="i">{{ v }}</li></ul><ol><li v-for="v in m9">{{ v }}</li></ol><p>{{ canary }}</p>`,
	"p_formapkeys.vuego":        `<ul><li v-for="v in mi">{{ v }}</li><li v-for="(i, v) in mf">{{ i }}={{ v }}</li><li v-for="(i, v) in user">{{ i }}</li><li v-for="v in mx">{{ v }}</li></ul><p>{{ canary }}</p>`,
	"p_nested.vuego":            `<div v-for="row in rows"><span v-for="c in row">{{ c }}</span></div><p>{{ canary }}</p>`,
	"p_attrs.vuego":             `<a :href="url" :title="title" :data-c="canary" :id="color" :class="color" class="base" rel="x">L</a>`,
	"p_style.vuego":             `<div style="color: blue; margin: 0; padding: 1px" :style="{color: color, fontSize: '12px', lineHeight: 1}">{{ canary }}</div>`,
	"p_show.vuego":              `<div style="color: blue; margin: 0; padding: 1px; top: 0" v-show="hide">{{ canary }}</div><p v-show="show" style="a: b; c: d">v</p>`,
	"p_class.vuego":             `<div class="s" :class="{on: show, off: hide, 'x-y': n}">{{ canary }}</div><p :style="{'--c': color, backgroundColor: color}">o</p>`,
	"p_showhtml.vuego":          `<div style="color: red" v-show="show" v-html="html"></div><p style="a: b" v-show="hide" v-text="title"></p><i style="c: d" :style="{color: color}" v-show="show" v-html="canary"></i>`,
	"p_slotshow.vuego":          `<template include="c_twice.vuego"><b style="x: y" v-show="show" :title="color">{{ canary }}</b><i v-if="hide" style="k: v" v-show="show">h</i><u v-else :class="color" class="s">e</u></template>`,
	"c_twice.vuego":             `<div><slot></slot></div><section><slot></slot></section>`,
	"p_incl.vuego":              `<section><template include="c_card.vuego" :heading="title" sub="st{{ n }}" :c="canary"></template><template include="c_card.vuego" heading="second" :c="canary"></template></section>`,
	"c_card.vuego":              `<template :required="heading"><div class="card"><h2>{{ heading }}</h2><p>{{ sub }}|{{ c }}</p></div></template>`,
	"p_slots.vuego":             `<template include="c_modal.vuego"><template #header>H{{ canary }}</template><b>body {{ title }}</b><template v-slot:footer><i :title="color">F</i></template></template>`,
	"c_modal.vuego":             `<div class="modal"><header><slot name="header">dh</slot></header><main><slot>db</slot></main><footer><slot name="footer">df</slot></footer></div>`,
	"p_scoped.vuego":            `<template include="c_list.vuego" :list="items"><template v-slot="{ item, index }">{{ index }}:{{ item }}{{ canary }}</template></template>`,
	"c_list.vuego":              `<ul><li v-for="(i, it) in list"><slot :item="it" :index="i">fb</slot></li></ul>`,
	"p_layout.vuego":            "---\nlayout: cat_inner\npagevar: PV\n---\n<article>{{ canary }} {{ pagevar }}</article>",
	"layouts/cat_inner.vuego":   "---\nlayout: cat_outer\n---\n<div class=\"inner\">{{ pagevar }}<section v-html=\"content\"></section></div>",
	"layouts/cat_outer.vuego":   "<html><head><title>{{ site }}</title></head><body><main v-html=\"content\"></main></body></html>",
	"p_filters.vuego":           `<p>{{ title | upper }} {{ user.name | lower | title }} {{ missing | default("dflt") }} {{ items | len }} {{ canary | upper | lower }}</p><pre>{{ m | json }}</pre>`,
	"p_fm.vuego":                "---\ntitle: FromFM\nextra: [1, 2]\nlayout: \"\"\n---\n<h1>{{ title }}</h1><p>{{ extra[1] }} {{ canary }}</p>",
	"p_fmcount.vuego":           "---\nvisits: 0\nseen: []\n---\n<template :visits=\"visits + 1\"></template><template :label=\"canary\"></template><p>{{ visits }} {{ label }} {{ canary }}</p><i v-for=\"visits in items\">{{ visits }}</i><b>{{ visits }}</b>",
	"p_once.vuego":              `<div v-for="it in items"><b v-once>once{{ canary }}</b><i>{{ it }}</i></div><u v-once>other</u>`,
	"p_html.vuego":              `<div v-html="html"></div><p v-text="title"></p><span v-text="canary"></span>`,
	"p_tmpl.vuego":              `<template :cnt="0"></template><div v-for="it in items"><template :cnt="cnt + 1"></template><i>{{ cnt }}</i></div><p>{{ canary }}</p>`,
	"p_pre.vuego":               `<div v-pre><b :title="x">{{ raw }}</b></div><p [v-if]="keep" [title]="lit">{{ canary }}</p>`,
	"p_expr.vuego":              `<p>{{ n > 2 ? "big" : "small" }} {{ show && !hide }} {{ n + 1 }} {{ user.name == "Ann" }}</p><i :title="n > 2 ? canary : ''">e</i>`,
	"p_struct.vuego":            `<p>{{ st.name }} {{ st.n }} {{ st.Name }}</p><b>{{ canary }}</b>`,
	"p_config.vuego":            `<p>{{ site }} {{ tcolor }} {{ menu[1] }} {{ canary }}</p>`,
	"p_doc.vuego":               "<!DOCTYPE html><html><head><title>{{ title }}</title><script>var x = \"{{ canary }}\" < 1;</script></head><body><p>{{ canary }}</p><br><img src=\"a.png\"></body></html>",
	"p_short.vuego":             `<cat-badge kind="ok" :text="canary"></cat-badge><cat-badge kind="warn" text="w"></cat-badge>`,
	"components/CatBadge.vuego": `<template :require="kind"><span class="badge badge-{{ kind }}">{{ text }}</span></template>`,
	"p_incfor.vuego":            `<div v-for="o in objs"><template include="c_card.vuego" :heading="o.name" :c="canary"></template></div>`,
	"p_wrap.vuego":              `<section><template include="c_wrap.vuego" :label="title" :cn="canary"></template></section>`,
	"c_wrap.vuego":              `<template include="c_card.vuego" :heading="label" :c="cn" sub="w"></template>`,
	"p_inconce.vuego":           `<template include="c_once.vuego" :c="canary"></template><template include="c_once.vuego" :c="canary"></template>`,
	"c_once.vuego":              `<div class="o"><b v-once>once {{ c }}</b><i>{{ c }}</i></div>`,
	"p_badmid.vuego":            `<p>Hello {{ canary }}, you owe {{ title | nosuchmid }}</p>`,
	"p_badattr.vuego":           `<p>{{ canary }}</p><i title="pre {{ canary }} {{ n | nosuchmid2 }}">x</i>`,
	"p_badfilter.vuego":         `<p>ok {{ canary }}</p><p>{{ title | nosuchfilter }}</p>`,
	"p_badincl.vuego":           `<p>{{ canary }}</p><template include="does_not_exist.vuego"></template>`,
	"p_badreq.vuego":            `<p>{{ canary }}</p><template include="c_card.vuego" sub="x"></template>`,
	"p_badlate.vuego":           `<ul><li v-for="it in items">{{ it }}{{ canary }}</li></ul><div><div><p>{{ n | int | nosuch2 }}</p></div></div>`,
	// layouts that name their own layout with a YAML scalar that is not a string (a year, a boolean)
	"p_laynum.vuego":         "---\nlayout: cat_num\n---\n<p>{{ canary }}</p>",
	"layouts/cat_num.vuego":  "---\nlayout: 2024\n---\n<article v-html=\"content\"></article>",
	"layouts/2024.vuego":     "---\nlayout: true\n---\n<section class=\"y\" v-html=\"content\"></section>",
	"layouts/true.vuego":     "<html><body><main v-html=\"content\"></main><i>{{ site }}</i></body></html>",
	"p_laynumbad.vuego":      "---\nlayout: cat_num2\n---\n<p>{{ canary }}</p>",
	"layouts/cat_num2.vuego": "---\nlayout: 2025\n---\n<article v-html=\"content\"></article>",
	"layouts/2025.vuego":     "<html><head><title>{{ canary | nosuch4 }}</title></head><body v-html=\"content\"></body></html>",
	// an empty (or blank, or interpolated-to-nothing) static style next to a bound one with several properties
	"p_styleempty.vuego": `<p style="" :style="{color: color, fontSize: '12px', marginTop: '1px', paddingLeft: '2px', lineHeight: 1}">{{ canary }}</p><i style="  " :style="{top: 0, left: n, right: n}" v-show="hide">x</i><b style="{{ missing }}" :style="{color: color, width: '1px', height: '2px'}">y</b>`,
	// raw-text elements whose content comes from data that contains their own end tag (nothing can be escaped there)
	"p_rawend.vuego": `<h1>{{ title }}</h1><p>{{ canary }}</p><script>const note = "{{ endscript }}";</script><style>{{ endstyle }}</style><p>tail</p>`,
	// rows of two struct types that have the same name (declared in two functions) and their tags at other positions
	"p_rows.vuego": `<ul><li v-for="r in rows" :title="r.name">{{ r.name }}|{{ r.qty }}|<b v-if="r.name == 'bob'">b</b></li></ul><p>{{ canary }}</p>`,
	// two pages in different directories name the same layout: one has a file of that name next to it
	"blog/p_post.vuego":        "---\nlayout: cat_wrap\n---\n<p>post {{ canary }}</p>",
	"blog/cat_wrap.vuego":      "<section class=\"blog\" v-html=\"content\"></section>",
	"docs/p_page.vuego":        "---\nlayout: cat_wrap\n---\n<p>doc {{ canary }}</p>",
	"layouts/cat_wrap.vuego":   "<main class=\"site\" v-html=\"content\"></main>",
	"p_badlayout.vuego":        "---\nlayout: cat_missing\n---\n<p>{{ canary }}</p>",
	"p_badinlayout.vuego":      "---\nlayout: cat_broken\n---\n<p>{{ canary }}</p>",
	"layouts/cat_broken.vuego": "<div><section v-html=\"content\"></section>{{ canary | nosuch3 }}</div>",
}

func init() {
	// programs at the edges of size: 150 nested elements, 400 siblings
	CatalogFiles["p_deep.vuego"] = `<header>{{ canary }}</header>` + strings.Repeat("<div>", 150) + `<p>{{ title }}</p><p>{{ canary }}</p>` + strings.Repeat("</div>", 150) + `<footer>{{ n }}</footer>`
	CatalogFiles["p_wide.vuego"] = `<ul>` + strings.Repeat(`<li :title="color">{{ canary }}</li>`, 400) + `</ul>`
}

var Catalog = func() []Program {
	d := catData(nil)
	ps := []Program{
		{Name: "text", Page: "p_text.vuego", Data: d},
		{Name: "if", Page: "p_if.vuego", Data: d},
		{Name: "for", Page: "p_for.vuego", Data: d},
		{Name: "formap", Page: "p_formap.vuego", Data: d},
		{Name: "formapkeys", Page: "p_formapkeys.vuego", Data: d},
		{Name: "formapbig", Page: "p_formapbig.vuego", Data: d},
		{Name: "nested", Page: "p_nested.vuego", Data: d},
		{Name: "attrs", Page: "p_attrs.vuego", Data: d},
		{Name: "style", Page: "p_style.vuego", Data: d},
		{Name: "show", Page: "p_show.vuego", Data: d},
		{Name: "class", Page: "p_class.vuego", Data: d},
		{Name: "showhtml", Page: "p_showhtml.vuego", Data: d},
		{Name: "slotshow", Page: "p_slotshow.vuego", Data: d},
		{Name: "incl", Page: "p_incl.vuego", Data: d},
		{Name: "slots", Page: "p_slots.vuego", Data: d},
		{Name: "scoped", Page: "p_scoped.vuego", Data: d},
		{Name: "layout", Page: "p_layout.vuego", Data: d, HasFM: true, Layout: true},
		{Name: "filters", Page: "p_filters.vuego", Data: d},
		{Name: "fm", Page: "p_fm.vuego", Data: d, HasFM: true},
		{Name: "fmcount", Page: "p_fmcount.vuego", Data: d, HasFM: true},
		{Name: "once", Page: "p_once.vuego", Data: d},
		{Name: "deep", Page: "p_deep.vuego", Data: d},
		{Name: "wide", Page: "p_wide.vuego", Data: d},
		{Name: "html", Page: "p_html.vuego", Data: d},
		{Name: "tmpl", Page: "p_tmpl.vuego", Data: d},
		{Name: "pre", Page: "p_pre.vuego", Data: d},
		{Name: "expr", Page: "p_expr.vuego", Data: d},
		{Name: "struct", Page: "p_struct.vuego", Data: d},
		{Name: "config", Page: "p_config.vuego", Data: d},
		{Name: "doc", Page: "p_doc.vuego", Data: d},
		{Name: "short", Page: "p_short.vuego", Data: d},
		{Name: "incfor", Page: "p_incfor.vuego", Data: d},
		{Name: "wrap", Page: "p_wrap.vuego", Data: d},
		{Name: "inconce", Page: "p_inconce.vuego", Data: d},
		{Name: "laynum", Page: "p_laynum.vuego", Data: d, HasFM: true, Layout: true},
		{Name: "styleempty", Page: "p_styleempty.vuego", Data: d},
		{Name: "rawend", Page: "p_rawend.vuego", Data: catData(map[string]any{"endscript": "</script><img src=x>", "endstyle": "a{} </STYLE><b>"})},
		{Name: "rowsorders", Page: "p_rows.vuego", Data: catRowsOrders},
		{Name: "rowsusers", Page: "p_rows.vuego", Data: catRowsUsers},
		{Name: "laysibling", Page: "blog/p_post.vuego", Data: d, HasFM: true, Layout: true},
		{Name: "layshared", Page: "docs/p_page.vuego", Data: d, HasFM: true, Layout: true},
		{Name: "laynumbad", Page: "p_laynumbad.vuego", Data: d, Fails: true, HasFM: true, Layout: true},
		{Name: "badmid", Page: "p_badmid.vuego", Data: d, Fails: true},
		{Name: "badattr", Page: "p_badattr.vuego", Data: d, Fails: true},
		{Name: "badfilter", Page: "p_badfilter.vuego", Data: d, Fails: true},
		{Name: "badincl", Page: "p_badincl.vuego", Data: d, Fails: true},
		{Name: "badreq", Page: "p_badreq.vuego", Data: d, Fails: true},
		{Name: "badlate", Page: "p_badlate.vuego", Data: d, Fails: true},
		{Name: "badlayout", Page: "p_badlayout.vuego", Data: d, Fails: true, HasFM: true, Layout: true},
		{Name: "badinlayout", Page: "p_badinlayout.vuego", Data: d, Fails: true, HasFM: true, Layout: true},
	}
	sort.SliceStable(ps, func(i, j int) bool { return false })
	return ps
}()

// catRowsOrders / catRowsUsers: each declares its own `type row struct` - two types that print
// the same (checks.row) with the name and qty tags on fields at other positions.
func catRowsOrders(canary string) map[string]any {
	type row struct {
		Name string `json:"name"`
		Qty  int    `json:"qty"`
	}
	return catData(map[string]any{"rows": []row{{"nuts", 7}, {"bolts", 8}}})(canary)
}

func catRowsUsers(canary string) map[string]any {
	type row struct {
		ID   int    `json:"id"`
		Qty  string `json:"qty"`
		Name string `json:"name"`
	}
	return catData(map[string]any{"rows": []row{{1, "one", "alice"}, {2, "two", "bob"}}})(canary)
}

func programByName(n string) *Program {
	for i := range Catalog {
		if Catalog[i].Name == n {
			return &Catalog[i]
		}
	}
	return nil
}
