package checks

import (
	"bytes"
	"fmt"
	"github.com/titpetric/vuego/markdown"
	"reflect"
	"sort"
	"strings"
	"sync"
	"testing/fstest"
	"time"

	"github.com/titpetric/vuego"
	"github.com/titpetric/vuego/zverif/vrt"
	"github.com/titpetric/vuego/zverif/vsync"
	"github.com/titpetric/vuego/zverif/vtime"

	"verif/engine/core"
)

// C10: output is a function of the call's inputs, byte for byte: independent of map iteration
// order, of earlier renders on the same engine, of the clock; caller data is not modified.

type c10Case struct {
	Part  string   `json:"part"` // order | history | data | clock
	Prog  string   `json:"prog,omitempty"`
	Depth int      `json:"depth,omitempty"` // order: max deviating occurrences
	Seq   []string `json:"seq,omitempty"`   // history: program names rendered in order on one engine
	Entry string   `json:"entry,omitempty"` // template | vue | fragment
	// Data (order part): "" = the program's data; "keys" = the looped maps keyed by other Go
	// types (int, float64, any holding strings - what yaml.v2 or a database driver delivers)
	Data string `json:"data,omitempty"`
}

// catKeys: the maps a program loops over, keyed by something else than string
func catKeys(canary string) map[string]any {
	return catData(map[string]any{
		"m":    map[any]any{"k1": "v1", "k2": "v2", "k3": "v3", "k4": "v4", "k5": "v5"},
		"user": map[any]any{"name": "Ann", "tags": []string{"p", "q"}},
		"mi":   map[int]string{3: "c", 1: "a", 2: "b", 10: "j"},
		"mf":   map[float64]string{1.5: "x", 0.5: "y", 2: "z"},
		// keys of different types that print the same
		"mx": map[any]any{1: "int", "1": "str", int64(1): "i64", 1.0: "f", "b": "bee", true: "bool", "true": "strue"},
	})(canary)
}

func (c *c10Case) Key() string { return core.KeyOf(c) }

// ---- the map-order seam

type vrtOcc struct {
	Site string
	N    int
}

type vrtPlan struct {
	dev    map[int]int // occurrence index -> permutation index (into permsOf(n))
	global string      // "" | "reverse" | "rotate"
	occ    []vrtOcc
}

func permsOf(n int) [][]int {
	id := make([]int, n)
	for i := range id {
		id[i] = i
	}
	var out [][]int
	if n <= 4 {
		var rec func(p []int, k int)
		rec = func(p []int, k int) {
			if k == n {
				out = append(out, append([]int(nil), p...))
				return
			}
			for i := k; i < n; i++ {
				p[k], p[i] = p[i], p[k]
				rec(p, k+1)
				p[k], p[i] = p[i], p[k]
			}
		}
		rec(append([]int(nil), id...), 0)
		// drop identity (first)
		var res [][]int
		for _, p := range out {
			same := true
			for i := range p {
				if p[i] != i {
					same = false
				}
			}
			if !same {
				res = append(res, p)
			}
		}
		return res
	}
	rev := make([]int, n)
	for i := range rev {
		rev[i] = n - 1 - i
	}
	out = append(out, rev)
	for r := 1; r < n; r++ {
		p := make([]int, n)
		for i := range p {
			p[i] = (i + r) % n
		}
		out = append(out, p)
	}
	return out
}

func (p *vrtPlan) hook(site string, n int) []int {
	idx := len(p.occ)
	p.occ = append(p.occ, vrtOcc{site, n})
	switch p.global {
	case "reverse":
		r := make([]int, n)
		for i := range r {
			r[i] = n - 1 - i
		}
		return r
	case "rotate":
		r := make([]int, n)
		for i := range r {
			r[i] = (i + 1) % n
		}
		return r
	}
	if pi, ok := p.dev[idx]; ok {
		ps := permsOf(n)
		if pi < len(ps) {
			return ps[pi]
		}
	}
	return nil
}

// withPlan runs f with the given map-order plan installed; pools are reset first so that
// every execution starts from the same pool state.
func withPlan(p *vrtPlan, f func()) {
	vsync.ResetAllPools()
	vrt.Hook = p.hook
	defer func() { vrt.Hook = nil }()
	f()
}

// ---- rendering helpers on the catalogue

func catEngine() vuego.Template {
	return vuego.NewFS(CatalogFiles.FS(), vuego.WithComponents())
}

func catRender(t vuego.Template, p *Program, canary string) (string, error) {
	var buf bytes.Buffer
	err := t.Load(p.Page).Fill(p.Data(canary)).Render(bg, &buf)
	return buf.String(), err
}

// catStep renders one history step: "name" or "name~alt" (the program with the alternative data set).
type catEng struct {
	t vuego.Template
	v *vuego.Vue
}

func newCatEng() *catEng {
	return &catEng{t: catEngine(), v: vuego.NewVue(CatalogFiles.FS())}
}

func (e *catEng) step(entry, step, canary string) string {
	name, variant, _ := strings.Cut(step, "~")
	p := programByName(name)
	var data any = p.Data(canary)
	switch variant {
	case "alt":
		data = catAlt(canary)
	case "retyped":
		data = catRetyped(canary)
	case "nil":
		data = nil // a render without any data
	case "empty":
		data = map[string]any{}
	}
	var buf bytes.Buffer
	var err error
	switch entry {
	case "vue":
		err = e.v.Render(&buf, p.Page, data)
	case "fragment":
		err = e.v.RenderFragment(&buf, p.Page, data)
	default:
		err = e.t.Load(p.Page).Fill(data).Render(bg, &buf)
	}
	return res(buf.String(), err)
}

func res(out string, err error) string {
	if err != nil {
		return "ERR(" + err.Error() + ")" + out
	}
	return out
}

func (c *c10Case) Run(ctx *core.Ctx) {
	switch c.Part {
	case "order":
		c.runOrder(ctx)
	case "history":
		c.runHistory(ctx)
	case "cold":
		c.runCold(ctx)
	case "data":
		c.runData(ctx)
	case "clock":
		c.runClock(ctx)
	case "files":
		c.runFiles(ctx)
	case "markdown":
		c.runMarkdown(ctx)
	case "less":
		c.runLess(ctx)
	case "strings":
		c.runStrings(ctx)
	}
}

// c10Strings: string templates that write to the scope they are evaluated in (top-level
// <template :x>, counters carried out of loops), call functions inside operator expressions, pipe
// into expressions - and templates that would show what those left behind
var c10Strings = map[string]string{
	"bind":    `<template :greeting="'hi ' + name"></template><p>{{ greeting }}</p>`,
	"show":    `<p>{{ greeting | default('nobody greeted') }}, {{ name }}|{{ n }}</p>`,
	"call":    `<p>{{ upper(name) + '!' }} {{ len(l) > 1 ? 'many' : 'few' }}</p>`,
	"names":   `<i v-if="upper">u</i><i v-else>nou</i>|{{ title }}|{{ type }}|{{ len }}|{{ default }}`,
	"counter": `<template v-for="x in l" :n="n + 1"></template><b>{{ n }}</b>`,
	"dot":     `<b>{{ n | . + 1 }}</b>`,
	"piped":   `[{{ __piped__ }}]`,
	"plain":   `<template name="Zed" extra="e"></template><u>{{ name }}{{ extra }}</u>`,
	"extra":   `<u>{{ extra }}|{{ x }}|{{ it }}</u>`,
	"loop":    `<i v-for="it in l">{{ it }}</i>`,
}

var c10StringNames = func() []string {
	var ns []string
	for k := range c10Strings {
		ns = append(ns, k)
	}
	sort.Strings(ns)
	return ns
}()

// runStrings: a history of string templates rendered on one Template object (built and given its
// data in one of several ways); the last one renders as it does on a Template built the same way
// that has rendered nothing else.
func (c *c10Case) runStrings(ctx *core.Ctx) {
	ctx.NonTrivial()
	build := func() vuego.Template {
		data := map[string]any{"name": "Ann", "n": 1, "l": []int{1, 2}}
		switch c.Entry {
		case "new-assign":
			t := vuego.New()
			for _, k := range []string{"l", "n", "name"} {
				t = t.Assign(k, data[k])
			}
			return t
		case "new-fill":
			return vuego.New().Fill(data)
		case "fs-assign":
			t := vuego.NewFS(fstest.MapFS{})
			for _, k := range []string{"l", "n", "name"} {
				t = t.Assign(k, data[k])
			}
			return t
		case "new-fillnil-assign":
			return vuego.New().Fill(nil).Assign("name", "Ann").Assign("n", 1).Assign("l", []int{1, 2})
		case "new-child":
			return vuego.New().Fill(data).New().Assign("name", "Ann")
		}
		panic(c.Entry)
	}
	render := func(t vuego.Template, name string) string {
		var buf bytes.Buffer
		ctx.Eval(1)
		err := t.RenderString(bg, &buf, c10Strings[name])
		return res(buf.String(), err)
	}
	long := build()
	for i, name := range c.Seq {
		got := render(long, name)
		ctx.Transition(1)
		if i == 0 {
			continue
		}
		if want := render(build(), name); got != want {
			ctx.Violation("depends-on-earlier-renders", "string-template/"+c.Entry, name, fmt.Sprintf("template %q rendered after %v on one Template object (%s):\n got %q\nwant %q (a Template that rendered nothing before)", c10Strings[name], c.Seq[:i], c.Entry, clip(got, 300), clip(want, 300)))
			return
		}
	}
	ctx.Outcome(strings.Join(c.Seq, ">"))
}

// runLess: the CSS compiled from a LESS block is a function of the block and of the files it
// imports from the rendering engine's own file system - whatever other engines of the process
// (with the same page over other files) compiled before, and after an imported file changed.
func (c *c10Case) runLess(ctx *core.Ctx) {
	ctx.NonTrivial()
	page := "<style type=\"text/css+less\">\n@import \"theme.less\";\n.box {\n  color: @brand;\n}\n</style><p>x</p>"
	inline := "<style type=\"text/css+less\">\n@brand: teal;\n.box {\n  color: @brand;\n}\n</style><p>x</p>"
	mk := func(colour string) fstest.MapFS {
		return fstest.MapFS{"page.vuego": {Data: []byte(page), ModTime: baseTime}, "inline.vuego": {Data: []byte(inline), ModTime: baseTime}, "theme.less": {Data: []byte("@brand: " + colour + ";\n"), ModTime: baseTime}}
	}
	fss := map[string]fstest.MapFS{"A": mk("red"), "B": mk("blue")}
	engines := map[string]vuego.Template{}
	colour := map[string]string{"A": "red", "B": "blue"}
	later := baseTime
	for i, ev := range c.Seq {
		which, what, _ := strings.Cut(ev, ":")
		switch what {
		case "edit": // the imported file is replaced
			colour[which] = map[string]string{"red": "green", "blue": "purple", "green": "red", "purple": "blue"}[colour[which]]
			later = later.Add(time.Hour)
			fss[which]["theme.less"] = &fstest.MapFile{Data: []byte("@brand: " + colour[which] + ";\n"), ModTime: later}
			continue
		case "fresh":
			delete(engines, which)
			continue
		}
		if engines[which] == nil {
			engines[which] = vuego.NewFS(fss[which], vuego.WithLessProcessor())
		}
		file, want := "page.vuego", colour[which]
		if what == "inline" {
			file, want = "inline.vuego", "teal"
		}
		var buf bytes.Buffer
		ctx.Eval(1)
		ctx.Transition(1)
		err := engines[which].Load(file).Render(bg, &buf)
		out := buf.String()
		ok := err == nil && strings.Contains(out, "color: "+want)
		for _, other := range []string{"red", "blue", "green", "purple", "teal"} {
			if other != want && strings.Contains(out, "color: "+other) {
				ok = false
			}
		}
		if !ok {
			ctx.Violation("depends-on-earlier-renders", "less/"+what, which, fmt.Sprintf("history %v: engine %s (theme.less says %s) renders %s as %q (err %v) at step %d", c.Seq, which, colour[which], file, clip(out, 300), err, i))
			return
		}
	}
	ctx.Outcome(strings.Join(c.Seq, ">"))
}

// c10Docs: Markdown documents whose constructs make a parser keep something: link reference
// definitions, headings (generated ids), tables, lists, raw HTML, front-matter.
var c10Docs = map[string]string{
	"def":      "[docs]: https://example.com/private \"Internal\"\n\nSee [docs] and [the docs][docs].\n",
	"use":      "See [docs] for more, and [other][docs].\n",
	"def2":     "[docs]: https://example.org/public\n[Docs2]: /two\n\nRead [docs], [docs2].\n",
	"head":     "# Title\n\n## Title\n\ntext\n",
	"head2":    "# Title\n\npara\n\n# Other\n",
	"table":    "| a | b |\n|:--|--:|\n| 1 | 2 |\n",
	"list":     "1. one\n2. two\n\n- [x] done\n- [ ] open\n",
	"html":     "<div class=\"raw\">\n\n*inside*\n\n</div>\n\ntext & <b>bold</b>\n",
	"fm":       "---\ntitle: Doc\n---\n\n# Title\n\n[docs]\n",
	"fmdef":    "---\ntitle: Other\n---\n\n[docs]: /from-front-matter-doc\n\n[docs]\n",
	"code":     "```go\nx := 1\n```\n\n    indented [docs]\n",
	"autolink": "<https://example.com> and https://example.net and ~~gone~~\n",
	"emptydoc": "",
	"imgdef":   "![alt][pic]\n\n[pic]: /img.png \"Pic\"\n",
	"imguse":   "![alt][pic] and [pic]\n",
}

var c10DocNames = func() []string {
	var ns []string
	for k := range c10Docs {
		ns = append(ns, k)
	}
	sort.Strings(ns)
	return ns
}()

// runMarkdown: every document rendered after a history of other documents on one Markdown
// engine gives the bytes it gives on a new engine (RenderBytes, and Load + Render from files).
func (c *c10Case) runMarkdown(ctx *core.Ctx) {
	ctx.NonTrivial()
	fsys := fstest.MapFS{}
	for n, src := range c10Docs {
		fsys[n+".md"] = &fstest.MapFile{Data: []byte(src), ModTime: baseTime}
	}
	render := func(m *markdown.Markdown, doc string) string {
		var buf bytes.Buffer
		ctx.Eval(1)
		if c.Entry == "load" {
			d, err := m.Load(doc + ".md")
			if err != nil {
				return res("", err)
			}
			err = d.Render(&buf)
			return res(buf.String()+fmt.Sprintf("|fm=%v", d.FrontMatter()), err)
		}
		err := m.RenderBytes(&buf, []byte(c10Docs[doc]))
		return res(buf.String(), err)
	}
	long := markdown.New(fsys)
	for i, doc := range c.Seq {
		got := render(long, doc)
		want := render(markdown.New(fsys), doc)
		ctx.Transition(1)
		if got != want {
			ctx.Violation("depends-on-earlier-renders", "markdown/"+c.Entry, doc, fmt.Sprintf("document %q rendered after %v on one Markdown engine:\n got %q\nwant %q (a new engine)", doc, c.Seq[:i], clip(got, 400), clip(want, 400)))
			return
		}
	}
	ctx.Outcome(strings.Join(c.Seq, ">"))
}

// runOrder: iterative deviation bounding over the dynamic map-iteration occurrences.
func (c *c10Case) runOrder(ctx *core.Ctx) {
	p := programByName(c.Prog)
	run := func(plan *vrtPlan) string {
		var r string
		withPlan(plan, func() {
			ctx.Eval(1)
			if c.Data == "keys" {
				var buf bytes.Buffer
				err := catEngine().Load(p.Page).Fill(catKeys("CANARY")).Render(bg, &buf)
				r = res(buf.String(), err)
				return
			}
			r = res(catRender(catEngine(), p, "CANARY"))
		})
		return r
	}
	base := &vrtPlan{}
	ref := run(base)
	ctx.State(1)
	if len(base.occ) > 0 {
		ctx.NonTrivial()
	}
	ctx.Count("map-iteration-occurrences", len(base.occ))
	report := func(plan *vrtPlan, got string, what string) {
		// attribute to the deviating site(s)
		var sites []string
		for i := range plan.occ {
			if _, ok := plan.dev[i]; ok {
				sites = append(sites, siteFunc(plan.occ[i].Site))
			}
		}
		where := strings.Join(sites, "+")
		if where == "" {
			where = "global-" + plan.global
		}
		ctx.Violation("map-order-dependent", where, c.Prog, fmt.Sprintf("%s: output differs from the ascending-order run\n got: %q\nwant: %q", what, clip(got, 500), clip(ref, 500)))
	}
	for _, g := range []string{"reverse", "rotate"} {
		plan := &vrtPlan{global: g}
		if got := run(plan); got != ref {
			report(plan, got, "all maps iterated in "+g+" order")
		}
		ctx.Transition(1)
	}
	var rec func(dev map[int]int, from, depth int)
	rec = func(dev map[int]int, from, depth int) {
		// discover occurrences under the current deviations
		probe := &vrtPlan{dev: dev}
		got := run(probe)
		ctx.Transition(1)
		ctx.State(1)
		if got != ref {
			report(probe, got, fmt.Sprintf("deviations %v", dev))
			return
		}
		if depth == 0 {
			return
		}
		for i := from; i < len(probe.occ); i++ {
			for pi := range permsOf(probe.occ[i].N) {
				nd := map[int]int{}
				for k, v := range dev {
					nd[k] = v
				}
				nd[i] = pi
				rec(nd, i+1, depth-1)
			}
		}
	}
	for i := 0; i < len(base.occ); i++ {
		for pi := range permsOf(base.occ[i].N) {
			rec(map[int]int{i: pi}, i+1, c.Depth-1)
		}
	}
	ctx.Outcome(ref)
}

func siteFunc(site string) string {
	// site ids are file:line; lines move with edits, so signatures use the file only plus the
	// function recorded by the instrumenter when available.
	if f, ok := siteFuncs[site]; ok {
		return f
	}
	return site[:strings.Index(site+":", ":")]
}

var siteFuncs = map[string]string{}

// runCold: a render in a process that has rendered every program of the catalogue (both data
// sets, three entry points) equals the same render in a process of its own in which nothing else
// has happened: process-wide state - caches with a limit, memo tables, pools - is not an input.
func (c *c10Case) runCold(ctx *core.Ctx) {
	ctx.NonTrivial()
	c10WarmProcess.Do(func() {
		for _, entry := range []string{"", "vue", "fragment"} {
			e := newCatEng()
			for _, p := range Catalog {
				for _, variant := range []string{"", "~alt"} {
					e.step(entry, p.Name+variant, "CANARY_WARM")
				}
			}
		}
	})
	step := c.Seq[0]
	ctx.Eval(2)
	var got string
	withPlan(&vrtPlan{}, func() { got = newCatEng().step(c.Entry, step, "CANARY_LAST") })
	want, err := core.Solo("c10render", c.Entry, step)
	if err != nil {
		ctx.Violation("solo-process-failed", step, c.Entry, err.Error())
		return
	}
	ctx.Outcome(got)
	if got != want {
		ctx.Violation("depends-on-process-history", step+"/"+c.Entry, "after-the-whole-catalogue", fmt.Sprintf("in a process that has rendered the whole catalogue, %s renders\n got: %q\nin a process of its own\nwant: %q", step, clip(got, 500), clip(want, 500)))
	}
}

var c10WarmProcess sync.Once

func init() {
	core.RegisterSolo("c10render", func(args []string) string {
		var out string
		withPlan(&vrtPlan{}, func() { out = newCatEng().step(args[0], args[1], "CANARY_LAST") })
		return out
	})
}

// runHistory: render Seq on ONE engine; the last render must equal the same render on a fresh engine.
func (c *c10Case) runHistory(ctx *core.Ctx) {
	ctx.NonTrivial()
	var last string
	var canaries []string
	withPlan(&vrtPlan{}, func() {
		e := newCatEng()
		for i, name := range c.Seq {
			can := fmt.Sprintf("CANARY_%d_%s", i, strings.ReplaceAll(name, "~", "_"))
			if i == len(c.Seq)-1 {
				can = "CANARY_LAST"
			}
			canaries = append(canaries, can)
			ctx.Eval(1)
			ctx.Transition(1)
			last = e.step(c.Entry, name, can)
		}
	})
	var fresh string
	withPlan(&vrtPlan{}, func() {
		ctx.Eval(1)
		fresh = newCatEng().step(c.Entry, c.Seq[len(c.Seq)-1], "CANARY_LAST")
	})
	ctx.State(1)
	lastName := c.Seq[len(c.Seq)-1]
	if c.Entry != "" {
		lastName += "/" + c.Entry
	}
	if last != fresh {
		ctx.Violation("history-dependent", lastName, "after-"+strings.Join(c.Seq[:len(c.Seq)-1], ","), fmt.Sprintf("after %v the render of %s differs from a fresh engine\n got: %q\nwant: %q", c.Seq[:len(c.Seq)-1], lastName, clip(last, 500), clip(fresh, 500)))
	}
	for _, can := range canaries[:len(canaries)-1] {
		if strings.Contains(last, can) || strings.Contains(strings.ToLower(last), strings.ToLower(can)) {
			ctx.Violation("cross-render-leak", lastName, "after-"+strings.Join(c.Seq[:len(c.Seq)-1], ","), fmt.Sprintf("value %s of an earlier render appears in %q", can, clip(last, 500)))
		}
	}
	ctx.Outcome(last)
}

// runData: the caller's data is deep-equal before and after the call.
// catVars is a map type of the caller's own (its underlying type is what the engine works with)
type catVars map[string]any

func (c *c10Case) runData(ctx *core.Ctx) {
	p := programByName(c.Prog)
	ctx.NonTrivial()
	base := p.Data("CANARY")
	want := p.Data("CANARY")
	// the datum as the caller holds it: the map itself, a named map type over it, a pointer to it
	var data any = base
	switch c.Data {
	case "named":
		data = catVars(base)
	case "ptrmap":
		data = &base
	}
	var buf bytes.Buffer
	withPlan(&vrtPlan{}, func() {
		ctx.Eval(1)
		switch c.Entry {
		case "template":
			_ = catEngine().Load(p.Page).Fill(data).Render(bg, &buf)
		case "vue":
			_ = vuego.NewVue(CatalogFiles.FS()).Render(&buf, p.Page, data)
		case "fragment":
			_ = vuego.NewVue(CatalogFiles.FS()).RenderFragment(&buf, p.Page, data)
		case "renderfile":
			_ = catEngine().Fill(data).RenderFile(bg, &buf, p.Page)
		}
	})
	if !reflect.DeepEqual(base, want) {
		var diff []string
		for k := range base {
			if _, ok := want[k]; !ok {
				diff = append(diff, "+"+k)
			} else if !reflect.DeepEqual(base[k], want[k]) {
				diff = append(diff, "~"+k)
			}
		}
		for k := range want {
			if _, ok := base[k]; !ok {
				diff = append(diff, "-"+k)
			}
		}
		class := "value-changed"
		if p.HasFM {
			class = "front-matter-written"
		}
		ctx.Violation("caller-data-modified", c.Entry+c.Data, class, fmt.Sprintf("program %s via %s (data as %q): caller's map changed: %v", c.Prog, c.Entry, c.Data, diff))
	}
	ctx.Outcome(c.Entry)
}

// runFiles: the output is a function of the CURRENT template files: after the page file is
// replaced (by a version with a later or an earlier modification time - a deployment, a
// rollback) a long-used engine renders what a fresh one renders.
func (c *c10Case) runFiles(ctx *core.Ctx) {
	p := programByName(c.Prog)
	ctx.NonTrivial()
	m := CatalogFiles.FS()
	eng := vuego.NewFS(m, vuego.WithComponents())
	render := func(t vuego.Template) string {
		var buf bytes.Buffer
		err := t.Load(p.Page).Fill(p.Data("CANARY")).Render(bg, &buf)
		return res(buf.String(), err)
	}
	ctx.Eval(1)
	_ = render(eng)
	for step, d := range c.Seq {
		delta := map[string]time.Duration{"later": time.Hour, "earlier": -time.Hour, "much-earlier": -1000 * time.Hour}[d]
		src := CatalogFiles[p.Page] + fmt.Sprintf("<!-- v%d --><em>edit %d</em>", step+1, step+1)
		m[p.Page] = &fstest.MapFile{Data: []byte(src), ModTime: m[p.Page].ModTime.Add(delta), Mode: 0o644}
		ctx.Eval(2)
		got, want := render(eng), render(vuego.NewFS(m, vuego.WithComponents()))
		if got != want {
			ctx.Violation("depends-on-earlier-files", "page-replaced/"+d, c.Prog, fmt.Sprintf("program %s, page replaced (%v): the used engine renders %q, a fresh engine %q", c.Prog, c.Seq[:step+1], clip(got, 300), clip(want, 300)))
			return
		}
	}
	ctx.Outcome(strings.Join(c.Seq, ","))
}

// runClock: a clock that does not advance must not change the output.
func (c *c10Case) runClock(ctx *core.Ctx) {
	p := programByName(c.Prog)
	ctx.NonTrivial()
	render := func(clock func() time.Time) string {
		vtime.NowFn = clock
		defer func() { vtime.NowFn = nil }()
		var r string
		withPlan(&vrtPlan{}, func() {
			ctx.Eval(1)
			var buf bytes.Buffer
			err := vuego.NewVue(CatalogFiles.FS()).Render(&buf, p.Page, p.Data("CANARY"))
			r = res(buf.String(), err)
		})
		return r
	}
	t0 := time.Date(2024, 1, 2, 3, 4, 5, 0, time.UTC)
	n := 0
	adv := render(func() time.Time { n++; return t0.Add(time.Duration(n) * time.Millisecond) })
	frozen := render(func() time.Time { return t0 })
	n = 0
	back := render(func() time.Time { n++; return t0.Add(-time.Duration(n) * time.Second) })
	if frozen != adv {
		ctx.Violation("clock-dependent", c.Prog, "frozen-clock", fmt.Sprintf("output with a frozen clock differs\n got: %q\nwant: %q", clip(frozen, 400), clip(adv, 400)))
	}
	if back != adv {
		ctx.Violation("clock-dependent", c.Prog, "backwards-clock", fmt.Sprintf("output with a clock running backwards differs\n got: %q\nwant: %q", clip(back, 400), clip(adv, 400)))
	}
	ctx.Outcome(adv)
}

func init() {
	core.Register(&core.Check{
		ID:    "C10",
		Level: "model_checking",
		Rule: "a catalogue of " + fmt.Sprint(len(Catalog)) + " programs (one per feature, incl. 6 failing ones), all on one file set. (1) map-order: with every map iteration of the vuego module behind a seam, every execution with <=d deviating occurrences (all permutations for <=4 keys, reversal+rotations above) plus two global orders must give the bytes of the ascending-order run (the looped maps also keyed by int, float64 and any); " +
			"(2) histories: every ordered sequence of <=L (program, data set) steps - each program with its normal and with an alternative data set that flips every boolean and changes lengths and strings, with the same values in other Go types (float64 for int, typed slices and maps, a struct for a map), and without any data (nil / empty map) - on one engine through Load().Fill().Render, Vue.Render and Vue.RenderFragment, last render compared with a fresh engine, no canary of an earlier render; (2b) cold part: every program (both data sets, three entry points) rendered in a process that has rendered the whole catalogue before, compared with the same render in a process of its own that has done nothing else; (3) caller data deep-equal before/after through 4 entry points, handed over as map[string]any, as a named map type and as a pointer to the map; (4) frozen and backwards clocks; (5) the page file replaced between renders by versions with later / earlier modification times, used engine against fresh engine. states = executions whose output was compared; non-trivial = program reaches at least one map iteration / any history",
		Bounds:      map[string]string{"quick": "d=1 deviation, L=2 (all ordered pairs)", "thorough": "d=2 deviations, L=3 (all ordered triples)"},
		Assumptions: []string{"the instrumenter finds every range-over-map and MapKeys call of the vuego module by type (sites listed in the overlay's sites.json)", "map iteration inside dependencies (expr-lang, yaml, goldmark) is not controlled"},
		Decode:      core.DecodeAs[c10Case](),
		Setup:       func(string) { loadSites() },
		Enumerate: func(tier string, emit func(core.Case)) {
			d, L := 1, 2
			if tier == "thorough" {
				d, L = 2, 3
			}
			for _, p := range Catalog {
				emit(&c10Case{Part: "order", Prog: p.Name, Depth: d})
			}
			for _, n := range []string{"formap", "formapkeys"} {
				emit(&c10Case{Part: "order", Prog: n, Depth: d, Data: "keys"})
			}
			for _, p := range Catalog {
				for _, e := range []string{"template", "vue", "fragment", "renderfile"} {
					emit(&c10Case{Part: "data", Prog: p.Name, Entry: e})
					emit(&c10Case{Part: "data", Prog: p.Name, Entry: e, Data: "named"})
					emit(&c10Case{Part: "data", Prog: p.Name, Entry: e, Data: "ptrmap"})
				}
				emit(&c10Case{Part: "clock", Prog: p.Name})
				for _, seq := range [][]string{{"later"}, {"earlier"}, {"later", "earlier"}, {"earlier", "later"}, {"much-earlier", "earlier"}, {"later", "later"}} {
					emit(&c10Case{Part: "files", Prog: p.Name, Seq: seq})
				}
			}
			for _, entry := range []string{"new-assign", "new-fill", "fs-assign", "new-fillnil-assign", "new-child"} {
				for _, a := range c10StringNames {
					for _, b := range c10StringNames {
						emit(&c10Case{Part: "strings", Seq: []string{a, b}, Entry: entry})
						if L > 2 {
							for _, c3 := range c10StringNames {
								emit(&c10Case{Part: "strings", Seq: []string{a, b, c3}, Entry: entry})
							}
						}
					}
				}
			}
			lessEv := []string{"A:render", "B:render", "A:edit", "B:edit", "A:inline", "B:inline", "A:fresh"}
			tokenStrings(lessEv, 4, func(tok []int) {
				var seq []string
				renders := 0
				for _, i := range tok {
					seq = append(seq, lessEv[i])
					if strings.HasSuffix(lessEv[i], "render") || strings.HasSuffix(lessEv[i], "inline") {
						renders++
					}
				}
				if renders >= 2 && !strings.HasSuffix(seq[len(seq)-1], "edit") && !strings.HasSuffix(seq[len(seq)-1], "fresh") {
					emit(&c10Case{Part: "less", Seq: seq})
				}
			})
			for _, entry := range []string{"bytes", "load"} {
				var rec func(seq []string)
				rec = func(seq []string) {
					if len(seq) >= 2 {
						emit(&c10Case{Part: "markdown", Seq: append([]string(nil), seq...), Entry: entry})
					}
					if len(seq) == L+1 {
						return
					}
					for _, d := range c10DocNames {
						rec(append(seq, d))
					}
				}
				rec(nil)
			}
			for _, entry := range []string{"", "vue", "fragment"} {
				for _, p := range Catalog {
					emit(&c10Case{Part: "cold", Seq: []string{p.Name}, Entry: entry})
					emit(&c10Case{Part: "cold", Seq: []string{p.Name + "~alt"}, Entry: entry})
				}
			}
			for _, entry := range []string{"", "vue", "fragment"} {
				var rec func(seq []string)
				rec = func(seq []string) {
					if len(seq) >= 2 {
						emit(&c10Case{Part: "history", Seq: append([]string(nil), seq...), Entry: entry})
					}
					if len(seq) == L {
						return
					}
					for _, p := range Catalog {
						rec(append(seq, p.Name))
						rec(append(seq, p.Name+"~alt"))
						rec(append(seq, p.Name+"~retyped"))
						if len(seq) == 0 || p.HasFM {
							// without data: as the first step for every program, later for programs with front-matter
							rec(append(seq, p.Name+"~nil"))
							rec(append(seq, p.Name+"~empty"))
						}
					}
				}
				rec(nil)
			}
		},
	})
}
