package checks

import (
	"bytes"
	"errors"
	"fmt"
	"io/fs"
	"path"
	"strings"

	"golang.org/x/net/html"

	"github.com/titpetric/vuego"

	"verif/engine/core"
	"verif/engine/htmlcmp"
)

// C07: layout chains nest innermost-first, the default layout applies only when due, chains end.

type c07Case struct {
	Part string `json:"part"` // graph | chain | keys
	// graph
	PageDir string `json:"page_dir,omitempty"` // "" | "pages"
	PageLay string `json:"page_lay,omitempty"` // none | a | b | base | missing | twin(a resolves relative)
	PageSrc string `json:"page_src,omitempty"` // fm | fill
	ALay    string `json:"a_lay,omitempty"`
	BLay    string `json:"b_lay,omitempty"`
	Base    string `json:"base,omitempty"` // absent | none | a | b | self
	Twin    string `json:"twin,omitempty"` // absent | none | a | b  (pages/a.vuego)
	// BaseTwin: a file called base.vuego stands next to the page (it is a layout only for a page that names "base")
	BaseTwin bool `json:"base_twin,omitempty"`
	// chain
	Len   int  `json:"len,omitempty"`
	Cycle bool `json:"cycle,omitempty"`
	// Twice: every layout of the chain uses `content` twice (a chain that does not end then
	// doubles its content on every lap)
	Twice bool `json:"twice,omitempty"`
	// Names: how the layouts of a chain are named: "" = l1, l2 ...; num = 1, 2 ... (YAML reads the
	// front-matter value as a number); bool = the first layout is called "true"
	Names string `json:"names,omitempty"`
	// keys
	KeyIn string `json:"key_in,omitempty"` // subset letters of p(age fm) a b f(ill)
	// content: how each link of the chain page -> l1 -> l2 ... uses `content`
	Forms    []string `json:"forms,omitempty"`
	PageForm string   `json:"page_form,omitempty"` // normal | empty | two
	// Ctor: how the engine is built: "" = NewFS(fs); withfs = New(WithFS(fs)); replace = NewFS(decoy, WithFS(fs))
	// where the decoy file system differs in whether layouts/base.vuego exists
	Ctor string `json:"ctor,omitempty"`
}

func (c *c07Case) Key() string { return core.KeyOf(c) }

func c07Layout(id, lay, extraFM string) string {
	fm := ""
	if lay != "none" && lay != "" {
		fm += "layout: " + lay + "\n"
	}
	fm += extraFM
	if fm != "" {
		fm = "---\n" + fm + "---\n"
	}
	return fm + `<div id="` + id + `"><b class="k">{{ k }}</b><section v-html="content"></section></div>`
}

// wrapErrFS decorates a file system the way multi-tenant or tracing wrappers do: every error of
// Open comes back with context around it.
type wrapErrFS struct {
	fs.FS
	own bool
}

type c07NotFound struct{ name string }

func (e c07NotFound) Error() string        { return "tenant acme: no such template: " + e.name }
func (e c07NotFound) Is(target error) bool { return target == fs.ErrNotExist }

func (w wrapErrFS) Open(name string) (fs.File, error) {
	f, err := w.FS.Open(name)
	if err != nil && w.own && errors.Is(err, fs.ErrNotExist) {
		return nil, c07NotFound{name}
	}
	if err != nil {
		return nil, fmt.Errorf("tenant acme: %w", err)
	}
	return f, nil
}

func c07IDs(out string) []string {
	var ids []string
	for _, n := range htmlcmp.Find(htmlcmp.Parse(out), func(n *html.Node) bool { _, ok := htmlcmp.Attr(n, "id"); return ok }) {
		id, _ := htmlcmp.Attr(n, "id")
		ids = append(ids, id)
	}
	return ids
}

func (c *c07Case) Run(ctx *core.Ctx) {
	files := Files{}
	var fill map[string]any
	page := "page.vuego"
	var want []string // expected ids outermost..page; nil = error expected
	wantErr := false
	either := false
	trig := ""
	wantK := map[string]string{}
	switch c.Part {
	case "graph":
		if c.PageDir != "" {
			page = c.PageDir + "/page.vuego"
		}
		pfm := ""
		fill = map[string]any{}
		lay := c.PageLay
		layName := lay
		if lay == "twin" {
			layName = "a"
		}
		if lay == "a-ext" { // the name written with its extension
			layName = "a.vuego"
		}
		if lay != "none" {
			switch c.PageSrc {
			case "fm":
				pfm = "---\nlayout: " + layName + "\n---\n"
			case "config": // the site's config names the default layout of pages
				files["theme.yml"] = "layout: " + layName + "\n"
			default:
				fill["layout"] = layName
			}
		}
		files[page] = pfm + `<i id="page">P</i>`
		name := func(l string) string {
			if l == "self" {
				return ""
			}
			return l
		}
		files["layouts/a.vuego"] = c07Layout("la", strings.Replace(c.ALay, "self", "a", 1), "")
		files["layouts/b.vuego"] = c07Layout("lb", strings.Replace(c.BLay, "self", "b", 1), "")
		if c.Base != "absent" {
			files["layouts/base.vuego"] = c07Layout("lbase", strings.Replace(c.Base, "self", "base", 1), "")
		}
		if c.Twin != "absent" {
			files["pages/a.vuego"] = c07Layout("twin", c.Twin, "")
		}
		_ = name
		baseTwin := path.Join(path.Dir(page), "base.vuego")
		if c.BaseTwin {
			files[baseTwin] = c07Layout("btwin", "none", "")
		}
		// reference resolver
		exists := func(p string) bool { _, ok := files[p]; return ok }
		layoutOf := func(file string) string {
			src := files[file]
			if strings.HasPrefix(src, "---\nlayout: ") {
				rest := src[len("---\nlayout: "):]
				return rest[:strings.Index(rest, "\n")]
			}
			return ""
		}
		idOf := map[string]string{page: "page", "layouts/a.vuego": "la", "layouts/b.vuego": "lb", "layouts/base.vuego": "lbase", "pages/a.vuego": "twin", baseTwin: "btwin"}
		cur := page
		curLay := layoutOf(page)
		if (c.PageSrc == "fill" || c.PageSrc == "config") && lay != "none" {
			curLay = layName
		}
		var chain []string
		first := true
		for steps := 0; ; steps++ {
			if steps >= 100 {
				wantErr = true
				break
			}
			if !exists(cur) {
				wantErr = true
				break
			}
			chain = append(chain, idOf[cur])
			l := curLay
			if l == "" {
				if first && exists("layouts/base.vuego") {
					first = false
					cur = "layouts/base.vuego"
					curLay = layoutOf(cur)
					continue
				}
				break
			}
			first = false
			dir := path.Dir(cur)
			base := strings.TrimSuffix(l, ".vuego")
			next := "layouts/" + base + ".vuego"
			if exists(path.Join(dir, base+".vuego")) {
				next = path.Join(dir, base+".vuego")
			}
			cur = next
			curLay = ""
			if exists(cur) {
				curLay = layoutOf(cur)
			}
		}
		if !wantErr {
			for i := len(chain) - 1; i >= 0; i-- {
				want = append(want, chain[i])
			}
		}
		trig = fmt.Sprintf("dir=%s/p=%s:%s/a=%s/b=%s/base=%s/twin=%s", c.PageDir, c.PageLay, c.PageSrc, c.ALay, c.BLay, c.Base, c.Twin)
		if c.BaseTwin {
			trig += "/base-twin"
		}
	case "chain":
		// straight chain page -> l1 -> l2 ... -> l(Len-1); Cycle: last points back to l1
		lname := func(i int) string {
			switch {
			case c.Names == "num":
				return fmt.Sprint(i)
			case c.Names == "bool" && i == 1:
				return "true"
			case c.Names == "implicit" && i == 1:
				return "base" // the page names no layout: the first link is the default one
			case c.Names == "dotted": // a dot inside the name is part of the name (post.v2 is layouts/post.v2.vuego)
				return fmt.Sprintf("l%d.v2", i)
			case c.Names == "dotted-html":
				return fmt.Sprintf("l%d.min.html", i)
			case c.Names == "subdir":
				return fmt.Sprintf("v1.0/l%d", i)
			case c.Names == "casetwin": // names that differ in the case of their letters only are different files
				return []string{"", "Wrap", "wrap", "WRAP", "wRap", "wraP"}[i]
			case c.Names == "updir": // a name may climb out of the directory of the file that names it
				return fmt.Sprintf("../l%d", i)
			}
			return fmt.Sprintf("l%d", i)
		}
		// updir: the page is a/b/c/page.vuego, layout i is one directory further up than what names it
		upDirs := []string{"a/b/c", "a/b", "a", "."}
		if c.Names == "updir" {
			page = "a/b/c/page.vuego"
		}
		files[page] = "---\nlayout: " + lname(1) + "\n---\n" + `<i id="page">P</i>`
		if c.Names == "implicit" && c.Len > 1 {
			files[page] = `<i id="page">P</i>`
		}
		for i := 1; i < c.Len; i++ {
			next := lname(i + 1)
			if i == c.Len-1 {
				next = "none"
				if c.Cycle {
					next = lname(1)
				}
			}
			files["layouts/"+lname(i)+".vuego"] = c07Layout(fmt.Sprintf("l%d", i), next, "")
			if c.Names == "updir" {
				delete(files, "layouts/"+lname(i)+".vuego")
				files[path.Join(upDirs[i], fmt.Sprintf("l%d.vuego", i))] = c07Layout(fmt.Sprintf("l%d", i), next, "")
				// decoys where the name would lead without its "..": next to the file that names it, and in layouts/
				files[path.Join(upDirs[i-1], fmt.Sprintf("l%d.vuego", i))] = c07Layout(fmt.Sprintf("decoy%d", i), "none", "")
				files[fmt.Sprintf("layouts/l%d.vuego", i)] = c07Layout(fmt.Sprintf("decoylayouts%d", i), "none", "")
			}
			if strings.HasPrefix(c.Names, "dotted") {
				// a decoy spelled like the name without what follows its dot
				files[fmt.Sprintf("layouts/l%d.vuego", i)] = c07Layout(fmt.Sprintf("decoy%d", i), "none", "")
				files[fmt.Sprintf("layouts/l%d.min.vuego", i)] = c07Layout(fmt.Sprintf("decoymin%d", i), "none", "")
			}
			if c.Twice {
				files["layouts/"+lname(i)+".vuego"] = strings.Replace(files["layouts/"+lname(i)+".vuego"], `<section v-html="content"></section>`, `<section v-html="content"></section><aside v-html="content"></aside><p>some more text that is repeated on every lap of the chain</p>`, 1)
			}
		}
		if c.Len == 1 {
			files[page] = `<i id="page">P</i>`
			if c.Cycle {
				files[page] = "---\nlayout: ../page\n---\n" + `<i id="page">P</i>`
			}
		}
		if c.Names == "selfbase" {
			// the default layout itself rendered as a page: it names no layout, so it is wrapped in itself, once
			page = "layouts/base.vuego"
			files = Files{page: c07Layout("lb", "none", "")}
		}
		switch {
		case c.Cycle:
			wantErr = true
		case c.Len > 100:
			wantErr = true
		case c.Len == 100:
			either = true
		}
		if c.Names == "selfbase" {
			want = []string{"lb", "lb"}
		} else if !wantErr {
			for i := c.Len - 1; i >= 1; i-- {
				want = append(want, fmt.Sprintf("l%d", i))
			}
			want = append(want, "page")
		}
		trig = fmt.Sprintf("len=%d/cycle=%v", c.Len, c.Cycle)
		if c.Names == "implicit" {
			trig += "/default-base-first"
		}
		if c.Twice {
			trig += "/content-twice"
		}
		if c.Names == "selfbase" {
			trig = "base-layout-as-page"
		}
	case "content":
		fill = map[string]any{"f": false, "t": true}
		var inner []string
		switch c.PageForm {
		case "normal":
			files[page] = "---\nlayout: l1\n---\n" + `<i id="page">P</i>`
			inner = []string{"page"}
		case "empty":
			files[page] = "---\nlayout: l1\n---\n" + `<i id="page" v-if="f">P</i>`
		case "two":
			files[page] = "---\nlayout: l1\n---\n" + `<i id="page">P</i><i id="page2">Q</i>`
			inner = []string{"page", "page2"}
		}
		for i, form := range c.Forms {
			id := fmt.Sprintf("l%d", i+1)
			fm := ""
			if i+1 < len(c.Forms) {
				fm = fmt.Sprintf("---\nlayout: l%d\n---\n", i+2)
			}
			var body string
			switch form {
			case "wrap":
				body = `<div id="` + id + `"><section v-html="content"></section></div>`
				inner = append([]string{id}, inner...)
			case "bare":
				body = `<template v-html="content"></template>`
			case "gate":
				body = `<div id="` + id + `" v-if="f"><section v-html="content"></section></div>`
				inner = nil
			case "open":
				body = `<div id="` + id + `" v-if="t"><section v-html="content"></section></div>`
				inner = append([]string{id}, inner...)
			case "drop":
				body = `<div id="` + id + `">static</div>`
				inner = []string{id}
			case "twice":
				body = `<div id="` + id + `"><section v-html="content"></section><aside v-html="content"></aside></div>`
				inner = append(append([]string{id}, inner...), inner...)
			case "text":
				body = `<div id="` + id + `">{{ content }}</div>`
				inner = []string{id}
			}
			files["layouts/"+id+".vuego"] = fm + body
		}
		want = inner
		trig = c.PageForm + ":" + strings.Join(c.Forms, ">")
	case "keys":
		has := func(s string) bool { return strings.Contains(c.KeyIn, s) }
		fm := func(v string, on bool) string {
			if on {
				return "k: " + v + "\n"
			}
			return ""
		}
		files[page] = "---\nlayout: a\n" + fm("KP", has("p")) + "---\n" + `<i id="page">P</i><b class="k">{{ k }}</b>`
		files["layouts/a.vuego"] = c07Layout("la", "b", fm("KA", has("a")))
		files["layouts/b.vuego"] = c07Layout("lb", "none", fm("KB", has("b")))
		fill = map[string]any{}
		if has("f") {
			fill["k"] = "KF"
		}
		want = []string{"lb", "la", "page"}
		base := ""
		if has("f") {
			base = "KF"
		}
		if has("p") {
			base = "KP"
		}
		wantK["page"], wantK["la"], wantK["lb"] = base, base, base
		if has("a") {
			wantK["la"] = "KA"
		}
		if has("b") {
			wantK["lb"] = "KB"
		}
		trig = "k-in-" + c.KeyIn
	}
	ctx.NonTrivial()
	ctx.Eval(1)
	var buf bytes.Buffer
	t := vuego.NewFS(files.FS())
	switch c.Ctor {
	case "wrapfs": // a file system whose errors are wrapped once more (errors.Is still finds fs.ErrNotExist in them)
		t = vuego.NewFS(wrapErrFS{FS: files.FS()})
	case "owntype": // ... or of a type of its own with an Is method
		t = vuego.NewFS(wrapErrFS{FS: files.FS(), own: true})
	case "withfs":
		t = vuego.New(vuego.WithFS(files.FS()))
	case "replace":
		decoy := Files{"other.vuego": "x"}
		if _, has := files["layouts/base.vuego"]; !has {
			decoy["layouts/base.vuego"] = `<div id="decoy"><section v-html="content"></section></div>`
		}
		t = vuego.NewFS(decoy.FS(), vuego.WithFS(files.FS()))
	}
	if c.Ctor != "" {
		trig += "/ctor=" + c.Ctor
	}
	err := t.Load(page).Fill(fill).Render(bg, &buf)
	out := buf.String()
	where := c.Part
	if either {
		ctx.Zone("chain-of-exactly-the-limit")
		if err != nil && out != "" {
			ctx.Violation("error-with-output", where, trig, fmt.Sprintf("err %v but %d bytes written", err, len(out)))
		}
		return
	}
	if wantErr {
		ctx.Outcome("error")
		if err == nil {
			ctx.Violation("no-error", where, trig, fmt.Sprintf("chain does not end but render returned nil\n%s out %q", clip(files.String(), 600), clip(out, 300)))
		} else if out != "" {
			ctx.Violation("error-with-output", where, trig, fmt.Sprintf("err %v but %d bytes written", err, len(out)))
		}
		return
	}
	if err != nil {
		ctx.Violation("unexpected-error", where, trig, fmt.Sprintf("%v\n%s", err, clip(files.String(), 800)))
		return
	}
	got := c07IDs(out)
	ctx.Outcome(strings.Join(got, ">"))
	if strings.Join(got, ">") != strings.Join(want, ">") {
		ctx.Violation("nesting", where, trig, fmt.Sprintf("nesting %v want %v\n%s out %q", got, want, clip(files.String(), 800), clip(out, 400)))
		return
	}
	if c.Part == "keys" {
		nodes := htmlcmp.Parse(out)
		for _, id := range []string{"lb", "la"} {
			n := htmlcmp.ByID(nodes, id)
			k := htmlcmp.Find([]*html.Node{n}, func(n *html.Node) bool { cl, _ := htmlcmp.Attr(n, "class"); return cl == "k" })
			if len(k) == 0 || htmlcmp.Text(k[0]) != wantK[id] {
				g := ""
				if len(k) > 0 {
					g = htmlcmp.Text(k[0])
				}
				ctx.Violation("layout-data", "keys/"+id, trig, fmt.Sprintf("%s sees k=%q want %q\n%s", id, g, wantK[id], files))
			}
		}
		// the page's own k is the last .k in document order
		ks := htmlcmp.Find(nodes, func(n *html.Node) bool { cl, _ := htmlcmp.Attr(n, "class"); return cl == "k" })
		if g := htmlcmp.Text(ks[len(ks)-1]); g != wantK["page"] {
			ctx.Violation("layout-data", "keys/page", trig, fmt.Sprintf("page sees k=%q want %q\n%s", g, wantK["page"], files))
		}
	}
}

func init() {
	core.Register(&core.Check{
		ID:        "C07",
		Level:     "exploration",
		CPUBudget: 20,
		Rule: "all layout graphs over {page (root or pages/), layouts/a, layouts/b, layouts/base (absent or present), pages/a (relative twin), a base.vuego next to the page} where every file's layout key ranges over {none, a, b, base, self, missing} and the page's is given by front-matter or Fill, on engines built with NewFS(fs), New(WithFS(fs)) and NewFS(decoy, WithFS(fs)) (decoy differing in the presence of layouts/base.vuego); straight chains and cycles of chosen lengths incl. 98..101 (entered through a named layout and through the default layouts/base.vuego), cycles whose layouts use the content twice (the content doubles on every lap), the default layout itself rendered as a page, also with layouts named by numbers and booleans (YAML types the front-matter value), with dots and directories in the names, with names that differ in the case of their letters only, and with names that climb out of the naming file's directory (../l1 from a/b/c/page.vuego, ../l2 from there ..., with decoys where the name would lead without its dot-dot); every subset of {page fm, a fm, b fm, Fill} defining key k; every chain of 1..3 layouts where each link uses `content` in one of 7 ways (wraps it, passes it bare, hides it behind a false / true v-if, ignores it, uses it twice, prints it escaped) x page body {one element, nothing, two elements}. " +
			"oracle: reference resolver (relative-then-layouts/, default rule, limit 100) gives the nesting order with each marker once, or error with nothing written. non-trivial = all",
		Bounds:      map[string]string{"quick": "all graphs over <=5 files; chains 1,2,3,5,98,99,100,101,150; cycles 1,2,3,7", "thorough": "same plus chains up to 300"},
		Assumptions: []string{"a chain of exactly 100 links is accepted either way"},
		Decode:      core.DecodeAs[c07Case](),
		Enumerate: func(tier string, emit func(core.Case)) {
			lays := []string{"none", "a", "b", "base", "self", "missing"}
			for _, dir := range []string{"", "pages"} {
				for _, pl := range []string{"none", "a", "b", "base", "missing", "twin", "a-ext"} {
					if pl == "twin" && dir == "" {
						continue
					}
					for _, src := range []string{"fm", "fill", "config"} {
						if pl == "none" && src != "fm" {
							continue
						}
						for _, al := range lays {
							for _, bl := range lays {
								for _, base := range []string{"absent", "none", "a", "b", "self"} {
									for _, twin := range []string{"absent", "none", "a", "b"} {
										if twin != "absent" && dir == "" {
											continue
										}
										emit(&c07Case{Part: "graph", PageDir: dir, PageLay: pl, PageSrc: src, ALay: al, BLay: bl, Base: base, Twin: twin})
										if al == "none" || al == "base" {
											emit(&c07Case{Part: "graph", PageDir: dir, PageLay: pl, PageSrc: src, ALay: al, BLay: bl, Base: base, Twin: twin, BaseTwin: true})
										}
										if al == "none" || bl == "none" {
											emit(&c07Case{Part: "graph", PageDir: dir, PageLay: pl, PageSrc: src, ALay: al, BLay: bl, Base: base, Twin: twin, Ctor: "withfs"})
											emit(&c07Case{Part: "graph", PageDir: dir, PageLay: pl, PageSrc: src, ALay: al, BLay: bl, Base: base, Twin: twin, Ctor: "replace"})
											emit(&c07Case{Part: "graph", PageDir: dir, PageLay: pl, PageSrc: src, ALay: al, BLay: bl, Base: base, Twin: twin, Ctor: "wrapfs"})
											emit(&c07Case{Part: "graph", PageDir: dir, PageLay: pl, PageSrc: src, ALay: al, BLay: bl, Base: base, Twin: twin, Ctor: "owntype"})
										}
									}
								}
							}
						}
					}
				}
			}
			lens := []int{1, 2, 3, 5, 98, 99, 100, 101, 150}
			if tier == "thorough" {
				lens = append(lens, 50, 97, 102, 200, 300)
			}
			for _, n := range lens {
				emit(&c07Case{Part: "chain", Len: n})
				if n > 1 {
					emit(&c07Case{Part: "chain", Len: n, Names: "implicit"})
				}
			}
			for _, n := range []int{1, 2, 3, 7} {
				emit(&c07Case{Part: "chain", Len: n, Cycle: true})
			}
			for _, n := range []int{2, 3, 4} {
				emit(&c07Case{Part: "chain", Len: n, Cycle: true, Twice: true})
			}
			emit(&c07Case{Part: "chain", Len: 1, Names: "selfbase"})
			for _, n := range []int{2, 3, 4} {
				emit(&c07Case{Part: "chain", Len: n, Names: "updir"})
			}
			for _, n := range []int{3, 4, 5} {
				emit(&c07Case{Part: "chain", Len: n, Names: "casetwin"})
			}
			for _, names := range []string{"num", "bool", "dotted", "dotted-html", "subdir"} {
				for _, n := range []int{2, 3, 5} {
					emit(&c07Case{Part: "chain", Len: n, Names: names})
				}
				emit(&c07Case{Part: "chain", Len: 3, Cycle: true, Names: names})
			}
			forms := []string{"wrap", "bare", "gate", "open", "drop", "twice", "text"}
			tokenStrings(forms, 3, func(tok []int) {
				var fs []string
				for _, i := range tok {
					fs = append(fs, forms[i])
				}
				for _, pf := range []string{"normal", "empty", "two"} {
					emit(&c07Case{Part: "content", Forms: fs, PageForm: pf})
				}
			})
			for mask := 0; mask < 16; mask++ {
				s := ""
				for i, l := range []string{"p", "a", "b", "f"} {
					if mask&(1<<i) != 0 {
						s += l
					}
				}
				emit(&c07Case{Part: "keys", KeyIn: "-" + s})
			}
		},
	})
}
