package checks

import (
	"bytes"
	"fmt"
	"sort"
	"strings"

	"github.com/titpetric/vuego"

	"verif/engine/core"
	"verif/engine/htmlcmp"
)

// C08: one fixed precedence of data sources: front-matter > Fill/Assign (later wins per key)
// > data/*.yml > theme.yml; same in every read position; New/Load never affect parent/siblings.

type c08Fill struct {
	K     any    `json:"k"`
	Other string `json:"other"`
}

// c08FillOpt: the same datum with encoding options in the tags (they name the key, nothing else)
type c08FillOpt struct {
	K     any    `json:"k,omitempty"`
	Other string `json:"other,omitempty"`
}

// c08FillEmb: the key is a promoted field of an embedded struct
type c08FillBase struct {
	K any `json:"k"`
}
type c08FillEmb struct {
	c08FillBase
	Other string `json:"other"`
}

type c08FillOptInt struct {
	K     int    `json:"k,omitempty"`
	Other string `json:"other,omitempty"`
}

type c08Case struct {
	Part string `json:"part"` // presence | history
	// presence
	Mask   int    `json:"mask,omitempty"`    // bit0 FM, bit1 Fill, bit2 Assign, bit3 data/a.yml, bit4 theme.yml
	Order  string `json:"order,omitempty"`   // FA | AF
	LoadAt string `json:"load_at,omitempty"` // first | last
	Fill   string `json:"fill,omitempty"`    // map | struct | ptr
	Var    string `json:"var,omitempty"`     // k | K
	Type   string `json:"type,omitempty"`    // string | int | list
	Read   string `json:"read,omitempty"`    // must | vif | bind | expr | get
	Entry  string `json:"entry,omitempty"`   // render | renderfile | renderstring
	// history
	Prefix []string `json:"prefix,omitempty"`
	Depth  int      `json:"depth,omitempty"`
	NoFS   bool     `json:"nofs,omitempty"` // history on an engine made with New() (no file system)
	// Ctor (presence): how the engine gets its file system: "" = NewFS(fs); withfs = New(WithFS(fs));
	// replace = NewFS(other, WithFS(fs)) - the config files (theme.yml, data/*.yml) are read from
	// the file system the engine ends up with
	Ctor string `json:"ctor,omitempty"`
}

func (c *c08Case) Key() string { return core.KeyOf(c) }

var c08Src = []string{"FM", "F", "A", "D", "T"}

func c08Val(typ string, src int) (goVal any, yaml string, printed string) {
	switch typ {
	case "string":
		s := "v" + c08Src[src]
		return s, s, s
	case "int":
		return src + 1, fmt.Sprint(src + 1), fmt.Sprint(src + 1)
	case "list":
		s := "l" + c08Src[src]
		return []any{s}, "[" + s + "]", s
	case "zerofill":
		// Fill gives the zero value of its type (0): a value like any other, not an absent key
		if src == 1 {
			return 0, "0", "0"
		}
		s := "v" + c08Src[src]
		return s, s, s
	case "nilfill":
		// Fill mentions the key with a nil value: the key is defined (as nothing), not absent
		if src == 1 {
			return nil, "", ""
		}
		s := "v" + c08Src[src]
		return s, s, s
	}
	panic(typ)
}

func (c *c08Case) runPresence(ctx *core.Ctx) {
	has := func(i int) bool { return c.Mask&(1<<i) != 0 }
	if c.Entry == "renderstring" && has(0) {
		return // a string template has no front-matter
	}
	if c.Var == "K" && (c.Fill == "map" || c.Fill == "typedmap") {
		return
	}
	if c.Type == "nilfill" && c.Fill == "typedmap" {
		return
	}
	if c.Type == "zerofill" && (!has(1) || (c.Read != "must" && c.Read != "get")) {
		return // the zero value is falsy: only the printing positions tell it from an absent key
	}
	if c.Type == "nilfill" && (c.Fill != "map" || !has(1)) {
		return // a nil struct field is the unconstrained zone below; without Fill the type adds nothing
	}
	files := Files{"other.vuego": "x"}
	c08Placeholders(files)
	yml := func(i int) string { _, y, _ := c08Val(c.Type, i); return c.Var + ": " + y + "\n" }
	if has(4) {
		files["theme.yml"] = yml(4) + "d2: theme\n"
	}
	if has(3) {
		files["data/a.yml"] = yml(3) + "d2: fromA\n"
		files["data/b.yml"] = "d2: fromB\nd3: fromB\n"
		// (both spellings of the extension, in one directory order: 0.yaml < b.yml < c.yaml)
		files["data/0.yaml"] = "d3: from0yaml\nd4: from0yaml\n"
		files["data/c.yaml"] = "d4: fromCyaml\n"
	}
	ref := c.Var
	if c.Type == "list" {
		ref = c.Var + "[0]"
	}
	var body string
	_, _, fprinted := c08Val(c.Type, 1)
	switch c.Read {
	case "must":
		body = `<i id="r">{{ ` + ref + ` }}</i>`
	case "vif":
		// one branch per source value
		for i := range c08Src {
			_, _, p := c08Val(c.Type, i)
			lit := "'" + p + "'"
			if c.Type == "int" {
				lit = p
			}
			if c.Type == "nilfill" && i == 1 {
				continue
			}
			body += `<i class="r" v-if="` + ref + ` == ` + lit + `">` + p + `</i>`
		}
	case "bind":
		body = `<i id="r" :title="` + ref + `">x</i>`
	case "expr":
		body = `<i id="r" :title="true ? ` + ref + ` : 0">x</i>`
	case "get":
		body = `<i id="r">unused</i>`
	}
	_ = fprinted
	fm := ""
	if has(0) {
		fm = "---\n" + yml(0) + "---\n"
	}
	files["page.vuego"] = fm + body
	if c.Ctor == "crlf" {
		// the page was saved with Windows line endings: its front-matter is front-matter all the same
		files["page.vuego"] = strings.ReplaceAll(fm+body, "\n", "\r\n")
	}
	fv, _, _ := c08Val(c.Type, 1)
	av, _, _ := c08Val(c.Type, 2)
	var fill any
	switch c.Fill {
	case "map":
		m := map[string]any{"other": "o"}
		if has(1) {
			m[c.Var] = fv
		}
		fill = m
	case "struct":
		s := c08Fill{Other: "o"}
		if has(1) {
			s.K = fv
		}
		fill = s
	case "ptr":
		s := &c08Fill{Other: "o"}
		if has(1) {
			s.K = fv
		}
		fill = s
	case "typedmap":
		// a map with string keys that is not a map[string]any
		switch c.Type {
		case "string":
			m := map[string]string{"other": "o"}
			if has(1) {
				m[c.Var] = fv.(string)
			}
			fill = m
		case "int", "zerofill":
			m := map[string]int{"other": 9}
			if has(1) {
				m[c.Var] = fv.(int)
			}
			fill = m
		default:
			m := map[string][]any{"other": nil}
			if has(1) {
				m[c.Var], _ = fv.([]any)
			}
			fill = &m
		}
	case "embedded":
		s := c08FillEmb{Other: "o"}
		if has(1) {
			s.K = fv
		}
		fill = s
	case "tagopt":
		s := c08FillOpt{Other: "o"}
		if has(1) {
			s.K = fv
		}
		fill = s
		if n, isInt := fv.(int); isInt && has(1) {
			// a typed field: its zero value is a value like any other
			fill = c08FillOptInt{K: n, Other: "o"}
		}
	}
	if !has(1) && c.Fill != "map" && c.Fill != "typedmap" {
		// a struct always "mentions" its fields: K is present with a nil value. Whether a nil
		// field counts as defining the key is not stated.
		ctx.Zone("struct-fill-with-nil-field")
		return
	}
	// expected: FM > last of (F, A) > D > T
	win := -1
	switch {
	case has(0):
		win = 0
	case has(1) && has(2):
		win = 2
		if c.Order == "AF" {
			win = 1
		}
	case has(1):
		win = 1
	case has(2):
		win = 2
	case has(3):
		win = 3
	case has(4):
		win = 4
	}
	want := ""
	if win >= 0 {
		_, _, want = c08Val(c.Type, win)
	}
	// unconstrained: Get after an explicit Assign made on an already loaded template (front-matter wins when rendering)
	if c.Read == "get" && has(0) && has(2) && c.LoadAt == "first" && !(c.Order == "AF") {
		ctx.Zone("get-after-assign-over-front-matter")
		return
	}
	// unconstrained: Assign then a Fill that does not mention the key
	if has(2) && !has(1) && c.Order == "AF" && !has(0) {
		ctx.Zone("assign-then-fill-without-key")
		return
	}

	base := vuego.NewFS(files.FS())
	switch c.Ctor {
	case "withfs":
		base = vuego.New(vuego.WithFS(files.FS()))
	case "replace":
		base = vuego.NewFS(Files{"theme.yml": "k: OTHER\nK: OTHER\n", "data/a.yml": "k: OTHERD\n", "page.vuego": "<p>other</p>"}.FS(), vuego.WithFS(files.FS()))
	case "funcsfirst":
		base = vuego.New(vuego.WithFuncs(vuego.FuncMap{"noop": func() string { return "" }}), vuego.WithFS(files.FS()), vuego.WithComponents())
	}
	var t vuego.Template = base
	apply := func(t vuego.Template) vuego.Template {
		steps := []string{"F", "A"}
		if c.Order == "AF" {
			steps = []string{"A", "F"}
		}
		for _, s := range steps {
			if s == "F" {
				t = t.Fill(fill)
			} else if has(2) {
				t = t.Assign(c.Var, av)
			}
		}
		return t
	}
	ctx.NonTrivial()
	ctx.Eval(1)
	var buf bytes.Buffer
	var err error
	got := ""
	switch c.Entry {
	case "render":
		if c.LoadAt == "first" {
			t = apply(base.Load("page.vuego"))
		} else {
			t = apply(base.New()).Load("page.vuego")
		}
		if c.Read == "get" {
			got = t.Get(c.Var)
			if c.Type == "list" {
				got = strings.Trim(got, "[]")
			}
		} else {
			err = t.Render(bg, &buf)
		}
	case "renderfile":
		if c.LoadAt == "first" || c.Read == "get" {
			return
		}
		t = apply(base.New())
		err = t.RenderFile(bg, &buf, "page.vuego")
	case "renderstring":
		if c.LoadAt == "first" || c.Read == "get" {
			return
		}
		t = apply(base.New())
		err = t.RenderString(bg, &buf, body)
	}
	where := c.Read + "/" + c.Entry + "/" + c.Fill + "/" + c.Var
	if c.Var == "K" {
		where = "go-field-name/" + c.Entry
	}
	var srcs []string
	for i := range c08Src {
		if has(i) {
			srcs = append(srcs, c08Src[i])
		}
	}
	trig := strings.Join(srcs, "+") + "/" + c.Order + "/load-" + c.LoadAt
	indexNil := err != nil && c.Type == "list" && c.Read == "expr" && strings.Contains(err.Error(), "from <nil>")
	if indexNil && want == "" {
		return // indexing an undefined variable inside an expression fails; nothing defines the key here
	}
	if err != nil && !indexNil {
		ctx.Violation("render-error", where, trig, fmt.Sprintf("%v\n%s", err, files))
		return
	}
	if c.Read != "get" && !indexNil {
		nodes := htmlcmp.Parse(buf.String())
		switch c.Read {
		case "must":
			if n := htmlcmp.ByID(nodes, "r"); n != nil {
				got = htmlcmp.Text(n)
			}
		case "vif":
			got = strings.Join(texts(nodes, "i"), ",")
		case "bind", "expr":
			if n := htmlcmp.ByID(nodes, "r"); n != nil {
				got, _ = htmlcmp.Attr(n, "title")
			}
		}
	}
	ctx.Outcome(got)
	if got != want {
		// classify by (expected source, source whose value was actually read)
		gotSrc := "none"
		for i := range c08Src {
			if _, _, p := c08Val(c.Type, i); p == got && has(i) {
				gotSrc = c08Src[i]
			}
		}
		wantSrc := "none"
		if win >= 0 {
			wantSrc = c08Src[win]
		}
		trig = "want-" + wantSrc + "/got-" + gotSrc
		ctx.Violation("precedence", where, trig, fmt.Sprintf("[%s/%s/load-%s] read %q want %q (type %s)\n%s fill=%#v out %q", strings.Join(srcs, "+"), c.Order, c.LoadAt, got, want, c.Type, files, fill, clip(buf.String(), 200)))
	}
	// directory order of data/*.yml
	if has(3) && c.Read == "must" && c.Entry == "render" && c.Var == "k" && c.Type == "string" {
		if g := base.New().Get("d2"); g != "fromB" {
			ctx.Violation("data-dir-order", "config", "a-then-b", fmt.Sprintf("d2=%q want fromB", g))
		}
		if g3, g4 := base.New().Get("d3"), base.New().Get("d4"); g3 != "fromB" || g4 != "fromCyaml" {
			ctx.Violation("data-dir-order", "config", "yaml-and-yml", fmt.Sprintf("d3=%q want fromB (data/b.yml is after data/0.yaml), d4=%q want fromCyaml", g3, g4))
		}
	}
}

// ---- history part

type c08Tpl struct {
	t      vuego.Template
	fm     map[string]string
	vals   map[string]map[string]bool // key -> acceptable values in the Fill/Assign layer ("" = absent)
	parent int
	file   bool
}

// refm: Fill keeps the loaded front-matter on top of the passed data.
func refm(tp *c08Tpl) {
	for k, v := range tp.fm {
		tp.vals[k] = map[string]bool{v: true}
	}
}

var c08Keys = []string{"k", "j"}
var c08Config = map[string]string{"k": "cfgK"} // j has no config value

var c08Ops = []string{"fill1", "fill2", "fillS", "assignK", "assignJ", "new", "loadFM", "loadPlain", "fillNil", "viewPlain", "viewFM"}

// c08CurConfig is the config layer of the engine under replay (empty for an engine without file system)
var c08CurConfig = c08Config

func c08Files() Files {
	return c08Placeholders(Files{"theme.yml": "k: cfgT\n", "data/a.yml": "k: cfgK\n", "fm.vuego": "---\nk: fmK\n---\n{{ k }}|{{ j }}", "plain.vuego": "{{ k }}|{{ j }}"})
}

// c08Placeholders adds config files that define nothing - a null document, a comment, a list, a
// scalar, broken YAML, an empty file - between and after the ones that do: they change nothing.
func c08Placeholders(f Files) Files {
	f["data/a0_null.yml"] = "---\n"
	f["data/a5_todo.yml"] = "---\n# nothing here yet\n"
	f["data/c_tilde.yml"] = "~\n"
	f["data/d_list.yml"] = "- x\n- y\n"
	f["data/e_bad.yml"] = ": [bad\n  yaml: {\n"
	f["data/f_empty.yml"] = ""
	f["data/g_scalar.yml"] = "just text\n"
	f["data/h_end.yml"] = "---\n...\n"
	return f
}

// visibleFile is what Render() of the loaded file must print: its own front-matter wins.
func (tp *c08Tpl) visibleFile(key string) map[string]bool {
	if v, ok := tp.fm[key]; ok {
		return map[string]bool{v: true}
	}
	return tp.visible(key)
}

// visible is what Get and string templates rendered on this template see: front-matter was
// assigned at Load time (and is re-applied by Fill), a later Assign overrides it.
func (tp *c08Tpl) visible(key string) map[string]bool {
	out := map[string]bool{}
	for v := range tp.vals[key] {
		if v == "" {
			out[c08CurConfig[key]] = true
		} else {
			out[v] = true
		}
	}
	return out
}

func c08Observe(tp *c08Tpl) string {
	var buf bytes.Buffer
	if err := tp.t.RenderString(bg, &buf, `{{ k }}|{{ j }}`); err != nil {
		return "ERR:" + err.Error()
	}
	obs := strings.TrimSpace(buf.String()) + "#" + tp.t.Get("k") + "|" + tp.t.Get("j")
	if tp.file {
		var fb bytes.Buffer
		if err := tp.t.Render(bg, &fb); err != nil {
			return "ERR:" + err.Error()
		}
		obs += "#" + strings.TrimSpace(fb.String())
	}
	return obs
}

// c08Replay applies ops ("<target>:<op>") to a fresh engine, checking the model after every step.
func c08Replay(ctx *core.Ctx, ops []string, noFS bool) (stateKey string, nTpl int, ok bool) {
	base := vuego.NewFS(c08Files().FS())
	c08CurConfig = c08Config
	if noFS {
		// an engine without a file system: no config layer, no files to load
		base = vuego.New()
		c08CurConfig = map[string]string{}
	}
	tps := []*c08Tpl{{t: base, fm: map[string]string{}, vals: map[string]map[string]bool{"k": {"": true}, "j": {"": true}}, parent: -1}}
	prev := []string{c08Observe(tps[0])}
	for step, opS := range ops {
		var ti int
		var op string
		fmt.Sscanf(opS, "%d:%s", &ti, &op)
		if ti >= len(tps) {
			return "", 0, false
		}
		tp := tps[ti]
		set := func(key, v string) { tp.vals[key] = map[string]bool{v: true} }
		soften := func(key string) {
			if !tp.vals[key][""] || len(tp.vals[key]) > 1 {
				tp.vals[key][""] = true
			}
		}
		switch op {
		case "fill1":
			tp.t.Fill(map[string]any{"k": "f1"})
			set("k", "f1")
			soften("j")
			refm(tp)
		case "fill2":
			tp.t.Fill(map[string]any{"j": "g2"})
			set("j", "g2")
			soften("k")
			refm(tp)
		case "fillS":
			tp.t.Fill(c08Fill{K: "fs"})
			set("k", "fs")
			soften("j")
			refm(tp)
		case "fillNil":
			// "no request data": mentions no key
			tp.t.Fill(nil)
			soften("k")
			soften("j")
			refm(tp)
		case "assignK":
			tp.t.Assign("k", "a1")
			set("k", "a1")
		case "assignJ":
			tp.t.Assign("j", "b1")
			set("j", "b1")
		case "new", "loadFM", "loadPlain", "viewPlain", "viewFM":
			if len(tps) >= 3 || (noFS && op != "new") {
				return "", 0, false
			}
			child := &c08Tpl{fm: map[string]string{}, vals: map[string]map[string]bool{}, parent: ti}
			for _, key := range c08Keys {
				child.vals[key] = map[string]bool{}
				for v := range tp.visible(key) {
					// the child starts from a copy of what the parent sees
					if v == c08CurConfig[key] {
						v = "" // same as config
					}
					child.vals[key][v] = true
				}
			}
			switch op {
			case "new":
				child.t = tp.t.New()
			case "loadFM":
				child.t = tp.t.Load("fm.vuego")
				child.fm["k"] = "fmK"
				child.vals["k"] = map[string]bool{"fmK": true}
				child.file = true
			case "loadPlain":
				child.t = tp.t.Load("plain.vuego")
				child.file = true
			case "viewPlain", "viewFM":
				// View(renderer, file, model) = Load(file).Fill(model) on the new template: the renderer is left alone
				file := "plain.vuego"
				if op == "viewFM" {
					file = "fm.vuego"
					child.fm["k"] = "fmK"
				}
				child.t = vuego.View(tp.t, file, map[string]any{"k": "vw"})
				child.file = true
				child.vals["k"] = map[string]bool{"vw": true}
				if !child.vals["j"][""] || len(child.vals["j"]) > 1 {
					child.vals["j"][""] = true
				}
				refm(child)
			}
			tps = append(tps, child)
			prev = append(prev, "")
		default:
			return "", 0, false
		}
		ctx.Eval(1)
		ctx.Transition(1)
		// observe every live template
		for i, p := range tps {
			obs := c08Observe(p)
			if i != ti && i < len(prev) && prev[i] != "" && obs != prev[i] {
				ctx.Violation("isolation", "op-on-"+rel(tps, ti, i), op, fmt.Sprintf("history %v step %d: template %d changed from %q to %q by an operation on template %d", ops, step, i, prev[i], obs, ti))
			}
			prev[i] = obs
			if strings.HasPrefix(obs, "ERR") {
				ctx.Violation("history-error", "observe", op, fmt.Sprintf("history %v: %s", ops, obs))
				continue
			}
			parts := strings.Split(obs, "#")
			rv := strings.Split(parts[0], "|")
			gv := strings.Split(parts[1], "|")
			if len(parts) > 2 {
				fv := strings.Split(parts[2], "|")
				for ki, key := range c08Keys {
					if vis := p.visibleFile(key); !vis[fv[ki]] {
						ctx.Violation("history-precedence", "file-render/"+key, lastOpsClass(ops[:step+1]), fmt.Sprintf("history %v: template %d Render() prints %s=%q, acceptable %v", ops[:step+1], i, key, fv[ki], keysOf(vis)))
					}
				}
			}
			for ki, key := range c08Keys {
				vis := p.visible(key)
				if len(vis) > 1 {
					ctx.Zone("key-not-mentioned-by-later-fill")
				}
				if !vis[rv[ki]] {
					ctx.Violation("history-precedence", "render/"+key, lastOpsClass(ops[:step+1]), fmt.Sprintf("history %v: template %d renders %s=%q, acceptable %v", ops[:step+1], i, key, rv[ki], keysOf(vis)))
				}
				if !vis[gv[ki]] {
					ctx.Violation("history-precedence", "get/"+key, lastOpsClass(ops[:step+1]), fmt.Sprintf("history %v: template %d Get(%s)=%q, acceptable %v", ops[:step+1], i, key, gv[ki], keysOf(vis)))
				}
			}
		}
	}
	var sb strings.Builder
	for i, p := range tps {
		fmt.Fprintf(&sb, "%d<%d fm=%v k=%v j=%v obs=%s;", i, p.parent, p.fm, keysOf(p.vals["k"]), keysOf(p.vals["j"]), prev[i])
	}
	return sb.String(), len(tps), true
}

func rel(tps []*c08Tpl, target, observed int) string {
	switch {
	case tps[target].parent == observed:
		return "child-seen-by-parent"
	case tps[observed].parent == target:
		return "parent-seen-by-child"
	}
	return "other"
}

func lastOpsClass(ops []string) string {
	// classify by the op names of the last two steps (targets dropped)
	n := len(ops)
	var s []string
	for _, o := range ops[max(0, n-2):] {
		_, op, _ := strings.Cut(o, ":")
		s = append(s, op)
	}
	return strings.Join(s, ">")
}

func keysOf(m map[string]bool) []string {
	var k []string
	for s := range m {
		k = append(k, s)
	}
	sort.Strings(k)
	return k
}

func (c *c08Case) runHistory(ctx *core.Ctx) {
	seen := map[string]bool{}
	var rec func(ops []string)
	rec = func(ops []string) {
		key, n, ok := c08Replay(ctx, ops, c.NoFS)
		if !ok {
			return
		}
		if seen[key] {
			return
		}
		seen[key] = true
		ctx.State(1)
		if len(ops) >= c.Depth {
			return
		}
		for ti := 0; ti < n; ti++ {
			for _, op := range c08Ops {
				rec(append(append([]string{}, ops...), fmt.Sprintf("%d:%s", ti, op)))
			}
		}
	}
	ctx.NonTrivial()
	rec(c.Prefix)
	ctx.Outcome(fmt.Sprint(len(seen)))
}

// runVue: sequences of Vue.Render calls of one page with front-matter and a defaulting
// <template>; what a call prints is decided by its own data and the page's front-matter alone.
func (c *c08Case) runVue(ctx *core.Ctx) {
	ctx.NonTrivial()
	files := Files{"page.vuego": "---\nk: fmK\n---\n" + `<template v-if="!j" :j="'dflt'"></template><p>{{ k }}|{{ j }}</p><i v-if="j == 'J1'">one</i>`}
	datas := map[string]any{"nil": nil, "empty": map[string]any{}, "j1": map[string]any{"j": "J1"}, "j2k": map[string]any{"j": "J2", "k": "dataK"}, "typed": map[string]string{"j": "J1"}}
	want := map[string]string{"nil": "fmK|dflt", "empty": "fmK|dflt", "j1": "fmK|J1+one", "j2k": "fmK|J2", "typed": "fmK|J1+one"}
	v := vuego.NewVue(files.FS())
	for i, d := range c.Prefix {
		var buf bytes.Buffer
		ctx.Eval(1)
		ctx.Transition(1)
		err := v.Render(&buf, "page.vuego", datas[d])
		nodes := htmlcmp.Parse(buf.String())
		got := strings.Join(texts(nodes, "p"), "")
		if len(texts(nodes, "i")) > 0 {
			got += "+one"
		}
		if err != nil || got != want[d] {
			ctx.Violation("precedence", "vue-render-sequence/"+d, "after-"+strings.Join(c.Prefix[:i], ","), fmt.Sprintf("Vue.Render calls %v on one engine: call %d (data %s) printed %q (err %v), want %q", c.Prefix[:i+1], i, d, got, err, want[d]))
			return
		}
	}
	ctx.Outcome(strings.Join(c.Prefix, ","))
}

func (c *c08Case) Run(ctx *core.Ctx) {
	if c.Part == "vue" {
		c.runVue(ctx)
		return
	}
	if c.Part == "history" {
		c.runHistory(ctx)
		return
	}
	c.runPresence(ctx)
}

func init() {
	core.Register(&core.Check{
		ID:    "C08",
		Level: "model_checking",
		Rule: "presence part: all 2^5 subsets of {front-matter, Fill, Assign, data/a.yml, theme.yml} defining the key x Fill/Assign order x Load before/after x Fill datum {map, struct, *struct, struct with omitempty tags, typed map / pointer to map, struct with the key as a promoted field} x name {JSON tag, Go field} x value type {string,int,list,nil,zero} x read position {{{ }}, v-if ==, :attr, expression, Get} x entry point {Load+Render, RenderFile, RenderString}; " +
			"vue part: every sequence of <=3 Vue.Render calls of one front-matter page (which defaults a variable with a <template v-if>) with data nil / empty / map / map overriding a front-matter key / typed map on one engine, each call judged by its own data; " +
			"history part: explicit-state search over all sequences of {Fill(k), Fill(j only), Fill(struct), Assign(k), Assign(j), New, Load(with fm), Load(plain), Fill(nil), View(plain file, model), View(file with fm, model)} on a tree of <=3 templates, each replayed on a fresh engine made with NewFS(fs) and - without the Load operations - with New() (no file system, no config layer); after every step every live template is observed (render + Get) against a layered reference model, and templates other than the target must be unchanged. states = distinct (model, observation) states; non-trivial = all",
		Bounds:      map[string]string{"quick": "history depth <= 4", "thorough": "history depth <= 6"},
		Assumptions: []string{"a key set by an earlier Assign/Fill and not mentioned by a later Fill may survive or be dropped", "a struct passed to Fill whose field is nil is unconstrained"},
		Decode:      core.DecodeAs[c08Case](),
		Enumerate: func(tier string, emit func(core.Case)) {
			depth := 4
			if tier == "thorough" {
				depth = 6
			}
			for _, o1 := range c08Ops {
				emit(&c08Case{Part: "history", Prefix: []string{"0:" + o1}, Depth: depth})
				if o1 != "loadFM" && o1 != "loadPlain" && o1 != "viewPlain" && o1 != "viewFM" {
					emit(&c08Case{Part: "history", Prefix: []string{"0:" + o1}, Depth: depth + 1, NoFS: true})
				}
			}
			vd := []string{"nil", "empty", "j1", "j2k", "typed"}
			tokenStrings(vd, 3, func(tok []int) {
				var seq []string
				for _, i := range tok {
					seq = append(seq, vd[i])
				}
				emit(&c08Case{Part: "vue", Prefix: seq})
			})
			for mask := 0; mask < 32; mask++ {
				for _, order := range []string{"FA", "AF"} {
					for _, la := range []string{"first", "last"} {
						for _, fill := range []string{"map", "struct", "ptr", "tagopt", "typedmap", "embedded"} {
							for _, v := range []string{"k", "K"} {
								for _, typ := range []string{"string", "int", "list", "nilfill", "zerofill"} {
									for _, rd := range []string{"must", "vif", "bind", "expr", "get"} {
										for _, en := range []string{"render", "renderfile", "renderstring"} {
											emit(&c08Case{Part: "presence", Mask: mask, Order: order, LoadAt: la, Fill: fill, Var: v, Type: typ, Read: rd, Entry: en})
											if fill == "map" && typ == "string" {
												for _, ctor := range []string{"withfs", "replace", "funcsfirst", "crlf"} {
													emit(&c08Case{Part: "presence", Mask: mask, Order: order, LoadAt: la, Fill: fill, Var: v, Type: typ, Read: rd, Entry: en, Ctor: ctor})
												}
											}
										}
									}
								}
							}
						}
					}
				}
			}
		},
	})
}
