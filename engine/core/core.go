// Package core is the shared driver of all checks: bounded-exhaustive enumeration sharded
// over worker subprocesses, crash/hang attribution, violation classification against
// known_findings.jsonl, replay files and evidence.
package core

import (
	"encoding/json"
	"fmt"
	"hash/fnv"
	"sort"
	"sync"
)

// Case is one element of the enumerated space of a check.
type Case interface {
	// Key is the canonical description of the case; two cases with the same key are the same case.
	Key() string
	// Run executes the case against the implementation and reports through ctx.
	Run(ctx *Ctx)
}

// Check describes one property's machinery.
type Check struct {
	ID    string
	Level string // exploration | fault_enumeration | model_checking
	Rule  string // how cases are enumerated and what makes one non-trivial
	// Enumerate calls emit for every case of the tier, simplest first. It must be
	// deterministic: the i-th emitted case is the same in every process.
	Enumerate func(tier string, emit func(Case))
	// Decode rebuilds a case from its replay JSON (the value of Violation.Case).
	Decode func(raw json.RawMessage) (Case, error)
	// CPUBudget is the CPU-seconds one case may use before it is declared a hang (0 = default).
	CPUBudget float64
	// Assumptions recorded in the evidence.
	Assumptions []string
	// Setup runs once in every worker before enumeration (optional).
	Setup func(tier string)
	// Finish runs in the parent after all shards are merged (optional); may add coverage keys.
	Finish func(tier string, cov map[string]any)
	// Workers overrides the number of worker processes (0 = default 16).
	Workers int
	// Bounds describes the bound per tier (goes into evidence).
	Bounds map[string]string
	// WorkerEnv returns extra environment for worker processes (runDir is private to the run).
	WorkerEnv func(runDir string) []string
	// WorkerProcs is GOMAXPROCS for workers (0 = 1).
	WorkerProcs int
}

// Violation is one oracle failure.
type Violation struct {
	Property  string          `json:"property"`
	Kind      string          `json:"kind"`    // what failed (oracle name)
	Where     string          `json:"where"`   // classified location (sink, construct, entry point ...)
	Trigger   string          `json:"trigger"` // classified trigger (token class, value kind ...)
	Detail    string          `json:"detail"`  // free text: expected vs got
	Case      json.RawMessage `json:"case"`    // replayable case
	CaseKey   string          `json:"case_key"`
	Signature string          `json:"signature"` // property/kind/where/trigger
}

func (v *Violation) sig() string {
	if v.Signature == "" {
		v.Signature = fmt.Sprintf("%s/%s/%s/%s", v.Property, v.Kind, v.Where, v.Trigger)
	}
	return v.Signature
}

// Ctx is handed to Case.Run.
type Ctx struct {
	Check   *Check
	Tier    string
	cur     Case
	curJSON func() json.RawMessage

	mu         sync.Mutex
	Evals      uint64
	Nontrivial uint64
	Zones      map[string]uint64
	Outcomes   map[uint64]struct{}
	Counters   map[string]uint64
	Samples    []json.RawMessage
	viol       []Violation
	violBySig  map[string]int
	States     uint64
	Trans      uint64
	emitViol   func(Violation)
	tick       func() // tells the watchdog that a long multi-execution case is making progress
	lastTick   uint64
}

func newCtx(c *Check, tier string) *Ctx {
	return &Ctx{Check: c, Tier: tier, Zones: map[string]uint64{}, Outcomes: map[uint64]struct{}{}, Counters: map[string]uint64{}, violBySig: map[string]int{}}
}

// Eval counts n executions of the implementation for the current case.
func (c *Ctx) Eval(n int) {
	c.Evals += uint64(n)
	if c.tick != nil && c.Evals-c.lastTick >= 512 {
		c.lastTick = c.Evals
		c.tick()
	}
}

// NonTrivial marks the current case as non-trivial by the check's rule.
func (c *Ctx) NonTrivial() { c.Nontrivial++ }

// Zone counts one execution that fell into an unconstrained zone.
func (c *Ctx) Zone(name string) { c.Zones[name]++ }

// Count bumps a named diagnostic counter.
func (c *Ctx) Count(name string, n int) { c.Counters[name] += uint64(n) }

// Outcome records a distinct observed outcome (vacuity guard).
func (c *Ctx) Outcome(s string) {
	if len(c.Outcomes) < 1<<20 {
		c.Outcomes[Hash(s)] = struct{}{}
	}
}

// State / Transition counters for the state-space engines.
func (c *Ctx) State(n int)      { c.States += uint64(n) }
func (c *Ctx) Transition(n int) { c.Trans += uint64(n) }

// Violation reports an oracle failure for the current case.
func (c *Ctx) Violation(kind, where, trigger, detail string) {
	v := Violation{Property: c.Check.ID, Kind: kind, Where: where, Trigger: trigger, Detail: detail}
	if c.cur != nil {
		v.CaseKey = c.cur.Key()
		v.Case = c.curJSON()
	}
	v.sig()
	// keep at most 3 examples per signature per worker
	if c.violBySig[v.Signature] >= 3 {
		c.violBySig[v.Signature]++
		return
	}
	c.violBySig[v.Signature]++
	c.viol = append(c.viol, v)
	if c.emitViol != nil {
		c.emitViol(v)
	}
}

// ViolationFor reports an oracle failure attributed to another (more specific, replayable) case,
// e.g. one schedule of an exploration case.
func (c *Ctx) ViolationFor(cs Case, kind, where, trigger, detail string) {
	prev, prevJSON := c.cur, c.curJSON
	c.cur = cs
	c.curJSON = func() json.RawMessage { return JSON(cs) }
	c.Violation(kind, where, trigger, detail)
	c.cur, c.curJSON = prev, prevJSON
}

// Hash is the 64-bit FNV-1a hash used for sharding and distinct counting.
func Hash(s string) uint64 {
	h := fnv.New64a()
	h.Write([]byte(s))
	return h.Sum64()
}

var registry = map[string]*Check{}

// Register adds a check.
func Register(c *Check) {
	if _, dup := registry[c.ID]; dup {
		panic("duplicate check " + c.ID)
	}
	registry[c.ID] = c
}

// Lookup finds a check by property id.
func Lookup(id string) *Check { return registry[id] }

// IDs lists registered property ids.
func IDs() []string {
	var ids []string
	for id := range registry {
		ids = append(ids, id)
	}
	sort.Strings(ids)
	return ids
}

// JSON marshals v or panics (cases must be serialisable).
func JSON(v any) json.RawMessage {
	b, err := json.Marshal(v)
	if err != nil {
		panic(fmt.Sprintf("case not serialisable: %v", err))
	}
	return b
}
