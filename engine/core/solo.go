package core

import (
	"bytes"
	"fmt"
	"os"
	"os/exec"
)

// Solo functions: pieces of a check that are run in a process of their own, in which nothing else
// has happened - the reference for what process-wide state (caches with a limit, memo tables,
// pools, counters) must not change. A check registers a function under a name and calls
// Solo(name, args...), which starts this binary again (vcheck solo <name> <args...>) and returns
// what the function returned there.
var soloFuncs = map[string]func(args []string) string{}

func RegisterSolo(name string, f func(args []string) string) { soloFuncs[name] = f }

// RunSolo is the body of `vcheck solo`.
func RunSolo(name string, args []string) int {
	f := soloFuncs[name]
	if f == nil {
		fmt.Fprintln(os.Stderr, "unknown solo function", name)
		return 2
	}
	os.Stdout.WriteString(f(args))
	return 0
}

// Solo runs the registered function in a new process and returns its result.
func Solo(name string, args ...string) (string, error) {
	cmd := exec.Command(os.Args[0], append([]string{"solo", name}, args...)...)
	var out, errb bytes.Buffer
	cmd.Stdout, cmd.Stderr = &out, &errb
	if err := cmd.Run(); err != nil {
		return out.String(), fmt.Errorf("solo %s %v: %v: %s", name, args, err, errb.String())
	}
	return out.String(), nil
}
