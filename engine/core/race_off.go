//go:build !race

package core

const raceBuild = false
