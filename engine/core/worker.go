package core

import (
	"bufio"
	"encoding/binary"
	"encoding/json"
	"fmt"
	"os"
	"runtime"
	"runtime/debug"
	"strings"
	"syscall"
)

// DecodeAs builds a Decode function for a concrete case type.
func DecodeAs[T any, PT interface {
	*T
	Case
}]() func(json.RawMessage) (Case, error) {
	return func(raw json.RawMessage) (Case, error) {
		var t T
		if err := json.Unmarshal(raw, &t); err != nil {
			return nil, err
		}
		return PT(&t), nil
	}
}

// KeyOf is the default canonical key: the JSON form of the case.
func KeyOf(v any) string { return string(JSON(v)) }

type workerMsg struct {
	Type  string     `json:"t"` // stats | viol | done
	Stats *stats     `json:"stats,omitempty"`
	Viol  *Violation `json:"viol,omitempty"`
}

type stats struct {
	Cases      uint64            `json:"cases"` // distinct cases owned and run
	Evals      uint64            `json:"evals"`
	Nontrivial uint64            `json:"nontrivial"`
	Zones      map[string]uint64 `json:"zones,omitempty"`
	Counters   map[string]uint64 `json:"counters,omitempty"`
	Outcomes   []uint64          `json:"outcomes,omitempty"`
	Samples    []json.RawMessage `json:"samples,omitempty"`
	States     uint64            `json:"states"`
	Trans      uint64            `json:"trans"`
	LastIdx    uint64            `json:"last_idx"`
	Total      uint64            `json:"total"` // cases enumerated (all shards), only in done
}

// progress is a small mmap'ed file the parent polls: [0:8] index of the case in flight + 1
// (0 = none), [8:16] number of cases finished by this attempt.
type progress struct{ mem []byte }

func openProgress(path string) *progress {
	f, err := os.OpenFile(path, os.O_RDWR|os.O_CREATE, 0o644)
	if err != nil {
		return &progress{mem: make([]byte, 16)}
	}
	defer f.Close()
	f.Truncate(16)
	mem, err := syscall.Mmap(int(f.Fd()), 0, 16, syscall.PROT_READ|syscall.PROT_WRITE, syscall.MAP_SHARED)
	if err != nil {
		return &progress{mem: make([]byte, 16)}
	}
	return &progress{mem: mem}
}

func (p *progress) set(idx, done uint64) {
	binary.LittleEndian.PutUint64(p.mem[0:8], idx)
	binary.LittleEndian.PutUint64(p.mem[8:16], done)
}

func readProgress(path string) (idx, done uint64) {
	b, err := os.ReadFile(path)
	if err != nil || len(b) < 16 {
		return 0, 0
	}
	return binary.LittleEndian.Uint64(b[0:8]), binary.LittleEndian.Uint64(b[8:16])
}

// RunWorker enumerates the cases of one shard. resume = first enumeration index to consider.
// only >= 0 restricts the run to that single enumeration index.
func RunWorker(c *Check, tier string, shard, nshards int, resume uint64, progPath string) {
	debug.SetMaxStack(64 << 20)
	debug.SetGCPercent(200)
	if !raceBuild {
		// A case that allocates without bound (a layout chain that doubles its content on every
		// lap) must end as a crash of this worker - which the driver attributes to the case - and
		// not exhaust the machine. The race detector needs its address space: no cap there.
		lim := syscall.Rlimit{Cur: 6 << 30, Max: 6 << 30}
		_ = syscall.Setrlimit(syscall.RLIMIT_AS, &lim)
	}
	out := bufio.NewWriterSize(os.Stdout, 1<<16)
	enc := json.NewEncoder(out)
	send := func(m workerMsg) { enc.Encode(m); out.Flush() }
	prog := openProgress(progPath)

	ctx := newCtx(c, tier)
	ctx.emitViol = func(v Violation) { send(workerMsg{Type: "viol", Viol: &v}) }
	if c.Setup != nil {
		c.Setup(tier)
	}
	seen := map[uint64]struct{}{}
	var idx, cases, beats uint64
	var curIdx uint64
	ctx.tick = func() { beats++; prog.set(curIdx+1, cases+beats<<32) }
	mkStats := func(final bool) *stats {
		s := &stats{Cases: cases, Evals: ctx.Evals, Nontrivial: ctx.Nontrivial, Zones: ctx.Zones, Counters: ctx.Counters,
			States: ctx.States, Trans: ctx.Trans, LastIdx: idx}
		if final {
			for h := range ctx.Outcomes {
				s.Outcomes = append(s.Outcomes, h)
			}
			s.Samples = ctx.Samples
			s.Total = idx
		}
		return s
	}
	c.Enumerate(tier, func(cs Case) {
		i := idx
		idx++
		if i < resume {
			return
		}
		key := cs.Key()
		h := Hash(key)
		if int(h%uint64(nshards)) != shard {
			return
		}
		if _, dup := seen[h]; dup {
			return
		}
		seen[h] = struct{}{}
		curIdx = i
		prog.set(i+1, cases+beats<<32)
		runCase(ctx, cs)
		cases++
		if len(ctx.Samples) < 3 && (cases == 1 || cases == 50 || cases == 2000) {
			ctx.Samples = append(ctx.Samples, JSON(cs))
		}
		if cases%8192 == 0 {
			send(workerMsg{Type: "stats", Stats: mkStats(false)})
		}
	})
	prog.set(0, cases)
	send(workerMsg{Type: "done", Stats: mkStats(true)})
}

// runCase executes one case with panic recovery: a panic that reaches the harness is an
// engine-originated panic (harness code does not panic on purpose) and is reported as a
// violation of kind "panic" located at the innermost vuego frame.
func runCase(ctx *Ctx, cs Case) {
	ctx.cur = cs
	ctx.curJSON = func() json.RawMessage { return JSON(cs) }
	defer func() {
		if r := recover(); r != nil {
			where := TopFrame(string(debug.Stack()))
			ctx.Violation("panic", where, PanicClass(fmt.Sprint(r)), fmt.Sprintf("panic: %v", r))
		}
		ctx.cur = nil
	}()
	cs.Run(ctx)
}

// TopFrame extracts the innermost function of the vuego module from a stack dump.
func TopFrame(stack string) string {
	for _, line := range strings.Split(stack, "\n") {
		line = strings.TrimSpace(line)
		if !strings.HasPrefix(line, "github.com/titpetric/vuego") || strings.Contains(line, "/zverif/") {
			continue
		}
		fn := strings.TrimPrefix(line, "github.com/titpetric/vuego")
		fn = strings.TrimPrefix(fn, "/")
		if i := strings.LastIndex(fn, "("); i > 0 {
			// keep method receivers like (*Vue).evalAttributes, drop the argument list
			if j := strings.LastIndex(fn, ")"); j == len(fn)-1 {
				fn = fn[:i]
			}
		}
		fn = strings.TrimPrefix(fn, ".")
		return fn
	}
	return "harness"
}

// PanicClass reduces a panic message to a stable class.
func PanicClass(msg string) string {
	switch {
	case strings.Contains(msg, "interface conversion"):
		return "interface-conversion"
	case strings.Contains(msg, "unexported field"):
		return "unexported-field"
	case strings.Contains(msg, "nil pointer"):
		return "nil-deref"
	case strings.Contains(msg, "index out of range"), strings.Contains(msg, "slice bounds"):
		return "index-range"
	case strings.Contains(msg, "reflect"):
		return "reflect"
	case strings.Contains(msg, "nil map"):
		return "nil-map"
	}
	return "other"
}

// Describe prints the JSON of the case with enumeration index idx (parent uses it to
// attribute a crash or hang to a concrete input).
func Describe(c *Check, tier string, want uint64) (Case, bool) {
	var idx uint64
	var found Case
	func() {
		defer func() {
			if r := recover(); r != nil && r != errStop {
				panic(r)
			}
		}()
		c.Enumerate(tier, func(cs Case) {
			if idx == want {
				found = cs
				panic(errStop)
			}
			idx++
		})
	}()
	return found, found != nil
}

var errStop = fmt.Errorf("stop enumeration")

func init() { runtime.GOMAXPROCS(runtime.GOMAXPROCS(0)) }
