package core

import (
	"bufio"
	"bytes"
	"encoding/json"
	"fmt"
	"os"
	"os/exec"
	"path/filepath"
	"regexp"
	"sort"
	"strconv"
	"strings"
	"sync"
	"time"
)

// Root is the /verif directory (where known_findings.jsonl, evidence/ and replays/ live).
var Root = func() string {
	if r := os.Getenv("VERIF_ROOT"); r != "" {
		return r
	}
	return "/verif"
}()

// OutDir is where evidence/ and replays/ are written: Root, unless VERIF_OUT names another
// directory (runs against a tree other than /repo, see ./check).
var OutDir = func() string {
	if r := os.Getenv("VERIF_OUT"); r != "" {
		return r
	}
	return Root
}()

type knownFinding struct {
	Property  string `json:"property"`
	Signature string `json:"signature"`
	Status    string `json:"status"` // known | fixed
	What      string `json:"what"`
	Example   any    `json:"example,omitempty"`
	Commit    string `json:"commit,omitempty"`
}

func loadKnown() map[string]knownFinding {
	out := map[string]knownFinding{}
	f, err := os.Open(filepath.Join(Root, "known_findings.jsonl"))
	if err != nil {
		return out
	}
	defer f.Close()
	sc := bufio.NewScanner(f)
	sc.Buffer(make([]byte, 1<<20), 1<<24)
	for sc.Scan() {
		line := strings.TrimSpace(sc.Text())
		if line == "" || strings.HasPrefix(line, "#") {
			continue
		}
		var k knownFinding
		if json.Unmarshal([]byte(line), &k) == nil && k.Status == "known" {
			out[k.Signature] = k
		}
	}
	return out
}

type shardState struct {
	shard    int
	attempt  int
	resume   uint64
	last     *stats // last cumulative stats of the current attempt
	sum      stats  // stats of finished/crashed attempts
	done     bool
	total    uint64
	outcomes map[uint64]struct{}
	samples  []json.RawMessage
	crashes  int
	capped   bool
}

// RunCheck is the parent side of `vcheck run`.
func RunCheck(c *Check, tier string, seed int64) int {
	start := time.Now()
	n := c.Workers
	if n == 0 {
		n = 16
	}
	if v, _ := strconv.Atoi(os.Getenv("VERIF_WORKERS")); v > 0 {
		n = v
	}
	budget := c.CPUBudget
	if budget == 0 {
		budget = 20
	}
	runDir, err := os.MkdirTemp(filepath.Join(Root, ".build"), "run-"+c.ID+"-")
	if err != nil {
		os.MkdirAll(filepath.Join(Root, ".build"), 0o755)
		runDir, err = os.MkdirTemp(filepath.Join(Root, ".build"), "run-"+c.ID+"-")
		if err != nil {
			fmt.Fprintln(os.Stderr, "cannot create run dir:", err)
			return 2
		}
	}
	defer os.RemoveAll(runDir)

	var mu sync.Mutex
	var viols []Violation
	shards := make([]*shardState, n)
	harnessErr := ""
	var wg sync.WaitGroup
	for i := 0; i < n; i++ {
		st := &shardState{shard: i, outcomes: map[uint64]struct{}{}}
		shards[i] = st
		wg.Add(1)
		go func() {
			defer wg.Done()
			for !st.done {
				res := runAttempt(c, tier, st, n, runDir, budget)
				mu.Lock()
				viols = append(viols, res.viols...)
				if res.crash != nil {
					viols = append(viols, *res.crash)
				}
				if res.err != "" {
					harnessErr = res.err
					st.done = true
				}
				mu.Unlock()
			}
		}()
	}
	wg.Wait()
	if harnessErr != "" {
		fmt.Fprintln(os.Stderr, "HARNESS ERROR:", harnessErr)
		return 2
	}

	// merge
	var tot stats
	tot.Zones, tot.Counters = map[string]uint64{}, map[string]uint64{}
	outcomes := map[uint64]struct{}{}
	var samples []json.RawMessage
	var enumerated uint64
	cappedShards := 0
	for _, st := range shards {
		add := func(s *stats) {
			if s == nil {
				return
			}
			tot.Cases += s.Cases
			tot.Evals += s.Evals
			tot.Nontrivial += s.Nontrivial
			tot.States += s.States
			tot.Trans += s.Trans
			for k, v := range s.Zones {
				tot.Zones[k] += v
			}
			for k, v := range s.Counters {
				tot.Counters[k] += v
			}
		}
		add(&st.sum)
		for h := range st.outcomes {
			outcomes[h] = struct{}{}
		}
		if len(samples) < 4 {
			samples = append(samples, st.samples...)
		}
		if st.total > enumerated {
			enumerated = st.total
		}
		if st.capped {
			cappedShards++
		}
	}

	// classify
	known := loadKnown()
	sort.SliceStable(viols, func(i, j int) bool {
		if viols[i].Signature != viols[j].Signature {
			return viols[i].Signature < viols[j].Signature
		}
		return len(viols[i].CaseKey) < len(viols[j].CaseKey)
	})
	firedKnown := map[string]int{}
	newSigs := map[string][]Violation{}
	var order []string
	for _, v := range viols {
		if _, ok := known[v.Signature]; ok {
			firedKnown[v.Signature]++
			continue
		}
		if _, ok := newSigs[v.Signature]; !ok {
			order = append(order, v.Signature)
		}
		newSigs[v.Signature] = append(newSigs[v.Signature], v)
	}
	var ksigs []string
	for s := range firedKnown {
		ksigs = append(ksigs, s)
	}
	sort.Strings(ksigs)
	for _, s := range ksigs {
		fmt.Printf("KNOWN-FINDING: property=%s %s %s\n", c.ID, s, known[s].What)
	}
	repDir := filepath.Join(OutDir, "replays", c.ID)
	exit := 0
	var newList []string
	for _, s := range order {
		v := newSigs[s][0]
		os.MkdirAll(repDir, 0o755)
		name := fmt.Sprintf("%016x.json", Hash(v.Signature+"|"+v.CaseKey))
		path := filepath.Join(repDir, name)
		rep := map[string]any{"property": c.ID, "tier": tier, "signature": v.Signature, "kind": v.Kind, "where": v.Where,
			"trigger": v.Trigger, "detail": v.Detail, "case": v.Case, "occurrences_seen": len(newSigs[s])}
		b, _ := json.MarshalIndent(rep, "", " ")
		os.WriteFile(path, b, 0o644)
		if len(newList) < 12 {
			fmt.Printf("VIOLATION property=%s replay=%s\n", c.ID, path)
			fmt.Printf("  signature: %s\n  detail: %s\n", v.Signature, trunc(v.Detail, 600))
		} else if len(newList) == 12 {
			fmt.Printf("  ... %d more new signatures (replay files under %s)\n", len(order)-12, repDir)
		}
		newList = append(newList, s)
		exit = 1
	}

	// evidence
	cov := map[string]any{
		"evaluations":                           tot.Evals,
		"distinct_nontrivial":                   tot.Nontrivial,
		"distinct_cases":                        tot.Cases,
		"enumerated":                            enumerated,
		"rule":                                  c.Rule,
		"samples":                               samples,
		"exhaustive":                            cappedShards == 0,
		"shards_stopped_after_repeated_crashes": cappedShards,
		"bound":                                 c.Bounds[tier],
		"distinct_outcomes":                     len(outcomes),
		"unconstrained_zones":                   tot.Zones,
		"counters":                              tot.Counters,
		"known_findings_fired":                  ksigs,
		"new_signatures":                        newList,
		"workers":                               n,
	}
	if c.Level == "model_checking" {
		cov["states"] = tot.States
		cov["transitions"] = tot.Trans
		cov["traces_validated_against_impl"] = tot.Evals
	}
	if len(samples) == 0 {
		cov["samples"] = []any{"(no case ran)"}
	}
	if c.Finish != nil {
		c.Finish(tier, cov)
	}
	ev := map[string]any{
		"property_id": c.ID, "tier": tier, "seed": seed, "level": c.Level, "coverage": cov,
		"assumptions": c.Assumptions, "wall_s": time.Since(start).Seconds(), "violations": len(order),
	}
	b, _ := json.MarshalIndent(ev, "", " ")
	os.MkdirAll(filepath.Join(OutDir, "evidence"), 0o755)
	if err := os.WriteFile(filepath.Join(OutDir, "evidence", c.ID+".json"), b, 0o644); err != nil {
		fmt.Fprintln(os.Stderr, "cannot write evidence:", err)
		return 2
	}
	fmt.Printf("%s %s: cases=%d evaluations=%d nontrivial=%d outcomes=%d known=%d new=%d wall=%.1fs\n",
		c.ID, tier, tot.Cases, tot.Evals, tot.Nontrivial, len(outcomes), len(ksigs), len(order), time.Since(start).Seconds())
	return exit
}

func trunc(s string, n int) string {
	if len(s) > n {
		return s[:n] + "…"
	}
	return s
}

type attemptResult struct {
	viols []Violation
	crash *Violation
	err   string
}

func runAttempt(c *Check, tier string, st *shardState, n int, runDir string, budget float64) attemptResult {
	st.attempt++
	prog := filepath.Join(runDir, fmt.Sprintf("prog-%d", st.shard))
	os.Remove(prog)
	errPath := filepath.Join(runDir, fmt.Sprintf("stderr-%d-%d", st.shard, st.attempt))
	errF, _ := os.Create(errPath)
	cmd := exec.Command(os.Args[0], "worker", c.ID, "--tier", tier, "--shard", strconv.Itoa(st.shard), "--nshards", strconv.Itoa(n),
		"--resume", strconv.FormatUint(st.resume, 10), "--progress", prog)
	procs := "1"
	if c.WorkerProcs > 0 {
		procs = strconv.Itoa(c.WorkerProcs)
	}
	cmd.Env = append(os.Environ(), "GOMAXPROCS="+envOr("VERIF_WORKER_GOMAXPROCS", procs), "GOTRACEBACK=all")
	if c.WorkerEnv != nil {
		cmd.Env = append(cmd.Env, c.WorkerEnv(runDir)...)
	}
	cmd.Stderr = errF
	stdout, _ := cmd.StdoutPipe()
	var res attemptResult
	if err := cmd.Start(); err != nil {
		res.err = "cannot start worker: " + err.Error()
		return res
	}
	doneCh := make(chan struct{})
	gotDone := false
	go func() {
		defer close(doneCh)
		sc := bufio.NewScanner(stdout)
		sc.Buffer(make([]byte, 1<<20), 1<<28)
		for sc.Scan() {
			var m workerMsg
			if json.Unmarshal(sc.Bytes(), &m) != nil {
				continue
			}
			switch m.Type {
			case "viol":
				res.viols = append(res.viols, *m.Viol)
			case "stats":
				st.last = m.Stats
			case "done":
				st.last = m.Stats
				gotDone = true
			}
		}
	}()
	// watchdog on CPU time per case and RSS
	killed := ""
	stop := make(chan struct{})
	go func() {
		var lastIdx, lastDone uint64
		var cpuAt float64
		t := time.NewTicker(100 * time.Millisecond)
		defer t.Stop()
		for {
			select {
			case <-stop:
				return
			case <-t.C:
			}
			idx, dn := readProgress(prog)
			cpu, rss := procUsage(cmd.Process.Pid)
			if idx != lastIdx || dn != lastDone {
				lastIdx, lastDone, cpuAt = idx, dn, cpu
			} else if idx != 0 && cpu-cpuAt > budget {
				killed = "hang"
				cmd.Process.Kill()
				return
			}
			if rss > 2<<30 {
				killed = "oom"
				cmd.Process.Kill()
				return
			}
		}
	}()
	<-doneCh
	werr := cmd.Wait()
	close(stop)
	errF.Close()
	if gotDone && werr == nil {
		st.done = true
		st.total = st.last.Total
		for _, h := range st.last.Outcomes {
			st.outcomes[h] = struct{}{}
		}
		st.samples = append(st.samples, st.last.Samples...)
		addStats(&st.sum, st.last)
		st.last = nil
		return res
	}
	// crashed or killed: attribute to the case in flight
	idx, _ := readProgress(prog)
	stderrB, _ := os.ReadFile(errPath)
	stderrS := string(stderrB)
	addStats(&st.sum, st.last)
	st.last = nil
	if idx == 0 {
		res.err = fmt.Sprintf("worker %d died outside any case (%v): %s", st.shard, werr, trunc(stderrS, 2000))
		return res
	}
	caseIdx := idx - 1
	kind := killed
	if kind == "" {
		kind = "fatal"
	}
	trigger := "cpu-budget"
	where := "unknown"
	switch {
	case kind == "oom":
		trigger = "memory"
	case strings.Contains(stderrS, "stack overflow") || strings.Contains(stderrS, "stack exceeds"):
		trigger = "stack-overflow"
	case strings.Contains(stderrS, "concurrent map"):
		trigger = "concurrent-map"
	case strings.Contains(stderrS, "out of memory"):
		trigger = "memory"
	case kind == "fatal":
		trigger = fatalClass(stderrS)
	}
	if kind == "fatal" {
		where = TopFrame(crashingStack(stderrS))
	}
	v := Violation{Property: c.ID, Kind: kind, Where: where, Trigger: trigger,
		Detail: fmt.Sprintf("worker died (%v) while running case #%d: %s", werr, caseIdx, trunc(lastLines(stderrS, 12), 1500))}
	if cs, ok := Describe(c, tier, caseIdx); ok {
		v.Case = JSON(cs)
		v.CaseKey = cs.Key()
		if cl, ok := cs.(interface{ CrashWhere() string }); ok && where == "unknown" {
			v.Where = cl.CrashWhere()
		}
	}
	v.sig()
	res.crash = &v
	st.resume = caseIdx + 1
	st.crashes++
	if st.crashes >= 8 {
		// the property is violated many times over; attributing every further crashing case
		// one worker restart at a time would take unboundedly long. Stop this shard.
		st.done = true
		st.capped = true
	}
	return res
}

func envOr(k, d string) string {
	if v := os.Getenv(k); v != "" {
		return v
	}
	return d
}

func addStats(dst *stats, s *stats) {
	if s == nil {
		return
	}
	dst.Cases += s.Cases
	dst.Evals += s.Evals
	dst.Nontrivial += s.Nontrivial
	dst.States += s.States
	dst.Trans += s.Trans
	if dst.Zones == nil {
		dst.Zones, dst.Counters = map[string]uint64{}, map[string]uint64{}
	}
	for k, v := range s.Zones {
		dst.Zones[k] += v
	}
	for k, v := range s.Counters {
		dst.Counters[k] += v
	}
}

var fatalRe = regexp.MustCompile(`(?m)^(fatal error|panic): (.*)$`)

func fatalClass(stderr string) string {
	m := fatalRe.FindStringSubmatch(stderr)
	if m == nil {
		return "exit"
	}
	return PanicClass(m[2])
}

// crashingStack returns the part of a Go crash dump that belongs to the first goroutine.
var goroutineRe = regexp.MustCompile(`(?m)^goroutine \d+`)

func crashingStack(s string) string {
	loc := goroutineRe.FindStringIndex(s)
	if loc == nil {
		return s
	}
	s = s[loc[0]:]
	if j := strings.Index(s[1:], "\ngoroutine "); j > 0 {
		s = s[:j+1]
	}
	return s
}

func lastLines(s string, n int) string {
	lines := strings.Split(strings.TrimSpace(s), "\n")
	// crash dumps put the reason first
	if len(lines) > n {
		lines = lines[:n]
	}
	return strings.Join(lines, " | ")
}

// procUsage returns CPU seconds (user+sys) and RSS bytes of a process.
func procUsage(pid int) (float64, int64) {
	b, err := os.ReadFile(fmt.Sprintf("/proc/%d/stat", pid))
	if err != nil {
		return 0, 0
	}
	// fields after the closing paren of comm
	i := bytes.LastIndexByte(b, ')')
	if i < 0 {
		return 0, 0
	}
	f := strings.Fields(string(b[i+1:]))
	if len(f) < 22 {
		return 0, 0
	}
	ut, _ := strconv.ParseFloat(f[11], 64)
	stt, _ := strconv.ParseFloat(f[12], 64)
	rss, _ := strconv.ParseInt(f[21], 10, 64)
	return (ut + stt) / 100.0, rss * 4096
}

// Replay re-executes one recorded case without any enumeration.
func Replay(path string) int {
	b, err := os.ReadFile(path)
	if err != nil {
		fmt.Fprintln(os.Stderr, err)
		return 2
	}
	var rep struct {
		Property string          `json:"property"`
		Tier     string          `json:"tier"`
		Case     json.RawMessage `json:"case"`
	}
	if err := json.Unmarshal(b, &rep); err != nil {
		fmt.Fprintln(os.Stderr, err)
		return 2
	}
	c := Lookup(rep.Property)
	if c == nil || c.Decode == nil {
		fmt.Fprintln(os.Stderr, "no decoder for", rep.Property)
		return 2
	}
	cs, err := c.Decode(rep.Case)
	if err != nil {
		fmt.Fprintln(os.Stderr, "decode:", err)
		return 2
	}
	if c.Setup != nil {
		c.Setup(rep.Tier)
	}
	ctx := newCtx(c, rep.Tier)
	runCase(ctx, cs)
	known := loadKnown()
	exit := 0
	for _, v := range ctx.viol {
		if k, ok := known[v.Signature]; ok {
			fmt.Printf("KNOWN-FINDING: property=%s %s %s\n", c.ID, v.Signature, k.What)
			continue
		}
		fmt.Printf("VIOLATION property=%s replay=%s\n  signature: %s\n  detail: %s\n", c.ID, path, v.Signature, v.Detail)
		exit = 1
	}
	if len(ctx.viol) == 0 {
		fmt.Println("replay: no violation")
	}
	return exit
}
