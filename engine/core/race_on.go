//go:build race

package core

const raceBuild = true
