// Package htmlcmp re-parses rendered output with the HTML5 parser (golang.org/x/net/html)
// and projects it for comparison.
package htmlcmp

import (
	"sort"
	"strings"

	"golang.org/x/net/html"
	"golang.org/x/net/html/atom"
)

var body = &html.Node{Type: html.ElementNode, Data: "body", DataAtom: atom.Body}

// ParseFragment parses s as a fragment in <body> context.
func ParseFragment(s string) []*html.Node {
	nodes, err := html.ParseFragment(strings.NewReader(s), body)
	if err != nil {
		return nil
	}
	return nodes
}

// ParseFragmentNoScript parses s as a fragment in <body> context with scripting disabled
// (the body of <noscript> is then parsed as markup, as by clients without JavaScript).
func ParseFragmentNoScript(s string) []*html.Node {
	nodes, err := html.ParseFragmentWithOptions(strings.NewReader(s), body, html.ParseOptionEnableScripting(false))
	if err != nil {
		return nil
	}
	return nodes
}

// ParseDocument parses s as a full document.
func ParseDocument(s string) []*html.Node {
	doc, err := html.Parse(strings.NewReader(s))
	if err != nil {
		return nil
	}
	var out []*html.Node
	for c := doc.FirstChild; c != nil; c = c.NextSibling {
		out = append(out, c)
	}
	return out
}

// Parse chooses document or fragment mode the way vuego's own parser does.
func Parse(s string) []*html.Node {
	if strings.Contains(s, "</html>") {
		return ParseDocument(s)
	}
	return ParseFragment(s)
}

// El is a projected element.
type El struct {
	Depth int
	Tag   string
	Attrs [][2]string // sorted by name
	Text  string      // for text nodes (Tag == "#text")
	// Merged is set when the text run was joined from several text nodes (separated by
	// comments in the source); whitespace at the joints is not meaningful.
	Merged bool
}

// Options control the projection.
type Options struct {
	Values      bool // include attribute values and text
	RawText     bool // keep text of raw-text elements verbatim (otherwise normalised like other text)
	KeepDoctype bool
	// Flow adds, for every element whose children include text or inline-level elements, a
	// "#flow" entry holding the element's text as a reader sees it: white space collapsed, but
	// kept where it separates inline content ("a <em>b</em>c" is not "a<em>b</em> c").
	Flow bool
}

// inline-level elements (text-level semantics) and inline atoms (replaced content, controls)
var inlineEl = map[string]bool{"a": true, "abbr": true, "b": true, "bdi": true, "bdo": true, "cite": true, "code": true, "data": true, "dfn": true, "em": true, "i": true, "kbd": true,
	"mark": true, "q": true, "s": true, "samp": true, "small": true, "span": true, "strong": true, "sub": true, "sup": true, "time": true, "u": true, "var": true, "del": true, "ins": true, "label": true, "font": true, "tt": true, "big": true, "strike": true, "nobr": true}
var inlineAtom = map[string]bool{"img": true, "input": true, "button": true, "select": true, "svg": true, "math": true, "wbr": true, "textarea": true, "canvas": true, "video": true, "audio": true, "object": true, "embed": true, "iframe": true, "meter": true, "progress": true, "output": true}

// hasInlineContent: some child is text (other than white space) or an inline-level element
func hasInlineContent(n *html.Node) bool {
	for c := n.FirstChild; c != nil; c = c.NextSibling {
		if c.Type == html.TextNode && strings.TrimFunc(c.Data, IsHTMLSpace) != "" {
			return true
		}
		if c.Type == html.ElementNode && c.Namespace == "" && (inlineEl[c.Data] || inlineAtom[c.Data]) {
			return true
		}
	}
	return false
}

// FlowText is the text of n as a line of inline content: descendant text in order, inline atoms
// as a box sign, line breaks and block-level descendants as paragraph signs around which white
// space does not count; white space runs collapsed to one space, none at the two ends.
func FlowText(n *html.Node) string {
	var kids []*html.Node
	for c := n.FirstChild; c != nil; c = c.NextSibling {
		kids = append(kids, c)
	}
	return FlowNodes(kids)
}

// FlowNodes is FlowText for a list of sibling nodes (the top level of a fragment).
func FlowNodes(nodes []*html.Node) string {
	var b strings.Builder
	var walk func(n *html.Node)
	var visit func(c *html.Node)
	brk := func(sign string) {
		s := strings.TrimRight(b.String(), " ")
		b.Reset()
		b.WriteString(s)
		b.WriteString(sign)
	}
	walk = func(n *html.Node) {
		for c := n.FirstChild; c != nil; c = c.NextSibling {
			visit(c)
		}
	}
	visit = func(c *html.Node) {
		{
			switch c.Type {
			case html.TextNode:
				for _, r := range c.Data {
					if IsHTMLSpace(r) {
						cur := b.String()
						if cur == "" || strings.HasSuffix(cur, " ") || strings.HasSuffix(cur, "\u00b6") {
							continue
						}
						b.WriteByte(' ')
						continue
					}
					b.WriteRune(r)
				}
			case html.ElementNode:
				switch {
				case c.Namespace == "" && inlineEl[c.Data]:
					walk(c)
				case c.Namespace == "" && inlineAtom[c.Data] || c.Namespace != "":
					b.WriteString("\u25a3")
				case c.Data == "br":
					brk("\u00b6")
				case c.Data == "script" || c.Data == "style" || c.Data == "template":
					// not rendered
				default:
					brk("\u00b6")
					walk(c)
					brk("\u00b6")
				}
			}
		}
	}
	for _, c := range nodes {
		visit(c)
	}
	out := strings.TrimRight(b.String(), " ")
	// paragraph signs at the two ends, and runs of them, carry nothing
	for strings.Contains(out, "\u00b6\u00b6") {
		out = strings.ReplaceAll(out, "\u00b6\u00b6", "\u00b6")
	}
	return strings.Trim(out, "\u00b6")
}

var rawText = map[string]bool{"script": true, "style": true, "textarea": true, "title": true}

// Project flattens nodes in pre-order.
func Project(nodes []*html.Node, o Options) []El {
	var out []El
	pre := 0 // depth of <pre> nesting: every character of text is content there
	var walk func(n *html.Node, d int, parent string)
	walk = func(n *html.Node, d int, parent string) {
		switch n.Type {
		case html.ElementNode:
			if n.Data == "pre" {
				pre++
				defer func() { pre-- }()
			}
			e := El{Depth: d, Tag: n.Data}
			for _, a := range n.Attr {
				v := ""
				if o.Values {
					v = a.Val
				}
				key := a.Key
				if a.Namespace != "" {
					key = a.Namespace + ":" + key // xlink:href is not href
				}
				e.Attrs = append(e.Attrs, [2]string{key, v})
			}
			sort.Slice(e.Attrs, func(i, j int) bool { return e.Attrs[i][0] < e.Attrs[j][0] })
			out = append(out, e)
			if o.Flow && o.Values && pre == 0 && n.Namespace == "" && !inlineEl[n.Data] && !inlineAtom[n.Data] && !rawText[n.Data] && n.Data != "pre" && hasInlineContent(n) {
				out = append(out, El{Depth: d + 1, Tag: "#flow", Text: FlowText(n)})
			}
			for c := n.FirstChild; c != nil; c = c.NextSibling {
				walk(c, d+1, n.Data)
			}
		case html.TextNode:
			if !o.Values {
				return
			}
			t := n.Data
			verbatim := o.RawText && (rawText[parent] || pre > 0)
			if !verbatim {
				t = NormText(t)
			}
			if !(verbatim && pre > 0) && strings.TrimFunc(t, IsHTMLSpace) == "" {
				return
			}
			if verbatim && pre > 0 {
				// adjacent text inside <pre>: concatenated verbatim
				if len(out) > 0 && out[len(out)-1].Tag == "#text" && out[len(out)-1].Depth == d {
					out[len(out)-1].Text += t
					return
				}
				out = append(out, El{Depth: d, Tag: "#text", Text: t})
				return
			}
			// merge adjacent text runs
			if len(out) > 0 && out[len(out)-1].Tag == "#text" && out[len(out)-1].Depth == d {
				out[len(out)-1].Text = NormText(out[len(out)-1].Text + t)
				out[len(out)-1].Merged = true
				return
			}
			out = append(out, El{Depth: d, Tag: "#text", Text: t})
		case html.DoctypeNode:
			if o.KeepDoctype {
				out = append(out, El{Depth: d, Tag: "#doctype", Text: strings.ToLower(n.Data)})
			}
		case html.DocumentNode:
			for c := n.FirstChild; c != nil; c = c.NextSibling {
				walk(c, d, "")
			}
		}
	}
	if o.Flow && o.Values {
		// (a top level where text stands next to block elements is left out: how such text is laid
		// out around the blocks is not constrained)
		top, blocks := false, false
		for _, n := range nodes {
			if n.Type == html.TextNode && strings.TrimFunc(n.Data, IsHTMLSpace) != "" || n.Type == html.ElementNode && n.Namespace == "" && (inlineEl[n.Data] || inlineAtom[n.Data]) {
				top = true
			} else if n.Type == html.ElementNode {
				blocks = true
			}
		}
		if top && !blocks {
			out = append(out, El{Depth: 0, Tag: "#flow", Text: FlowNodes(nodes)})
		}
	}
	for _, n := range nodes {
		walk(n, 0, "")
	}
	return out
}

// NormText collapses whitespace runs and trims.
func NormText(s string) string { return strings.Join(strings.FieldsFunc(s, IsHTMLSpace), " ") }

// IsHTMLSpace: ASCII whitespace as defined by HTML. U+00A0 (&nbsp;) and other Unicode spaces
// are ordinary characters.
func IsHTMLSpace(r rune) bool {
	return r == ' ' || r == '\t' || r == '\n' || r == '\r' || r == '\f'
}

// Skeleton is the elements-and-attribute-names projection as one string.
func Skeleton(nodes []*html.Node) string {
	return String(Project(nodes, Options{}))
}

// String renders a projection canonically.
func String(els []El) string {
	var b strings.Builder
	for _, e := range els {
		for i := 0; i < e.Depth; i++ {
			b.WriteByte(' ')
		}
		if e.Tag == "#text" || e.Tag == "#doctype" {
			b.WriteString(e.Tag)
			b.WriteString(" ")
			b.WriteString(strconvQuote(e.Text))
			b.WriteByte('\n')
			continue
		}
		b.WriteString("<" + e.Tag)
		for _, a := range e.Attrs {
			b.WriteString(" " + a[0])
			if a[1] != "" {
				b.WriteString("=" + strconvQuote(a[1]))
			}
		}
		b.WriteString(">\n")
	}
	return b.String()
}

func strconvQuote(s string) string {
	return `"` + strings.NewReplacer("\\", `\\`, "\n", `\n`, `"`, `\"`).Replace(s) + `"`
}

// Find returns all elements with the given tag (pre-order).
func Find(nodes []*html.Node, pred func(*html.Node) bool) []*html.Node {
	var out []*html.Node
	var walk func(n *html.Node)
	walk = func(n *html.Node) {
		if n.Type == html.ElementNode && pred(n) {
			out = append(out, n)
		}
		for c := n.FirstChild; c != nil; c = c.NextSibling {
			walk(c)
		}
	}
	for _, n := range nodes {
		walk(n)
	}
	return out
}

// Attr returns the attribute value and whether it is present.
func Attr(n *html.Node, key string) (string, bool) {
	for _, a := range n.Attr {
		if a.Key == key {
			return a.Val, true
		}
	}
	return "", false
}

// ByID finds the first element whose id attribute equals id.
func ByID(nodes []*html.Node, id string) *html.Node {
	r := Find(nodes, func(n *html.Node) bool { v, _ := Attr(n, "id"); return v == id })
	if len(r) == 0 {
		return nil
	}
	return r[0]
}

// Text concatenates all text below n.
func Text(n *html.Node) string {
	var b strings.Builder
	var walk func(n *html.Node)
	walk = func(n *html.Node) {
		if n.Type == html.TextNode {
			b.WriteString(n.Data)
		}
		for c := n.FirstChild; c != nil; c = c.NextSibling {
			walk(c)
		}
	}
	walk(n)
	return b.String()
}
