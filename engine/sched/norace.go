//go:build !race

package sched

const RaceEnabled = false

func RaceErrors() int { return 0 }
