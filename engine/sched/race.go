//go:build race

package sched

import "runtime"

// RaceEnabled reports whether the binary was built with the race detector.
const RaceEnabled = true

// RaceErrors is the number of data races reported so far in this process.
func RaceErrors() int { return runtime.RaceErrors() }
