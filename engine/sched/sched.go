// Package sched is a controlled scheduler for real goroutines with preemption-bounded
// exhaustive exploration (iterative context bounding). Every synchronisation operation of
// the vuego module reaches Before/After through the vsync seam.
//
// The scheduling decision is taken *inline* by the goroutine that reaches a scheduling
// point: the whole scheduler state lives in fixed-size package-level arrays that are only
// touched from //go:norace functions (no append, no map, no copy - those call into the race
// runtime), and a goroutine is only parked/woken - through raw pipe syscalls - when control
// really moves to another goroutine. All of this is invisible to the Go race detector: its
// happens-before graph only contains the edges the program's own synchronisation creates,
// while the interleaving is completely determined by the explorer.
package sched

import (
	"fmt"
	"sync"
	"syscall"
	"unsafe"

	"github.com/titpetric/vuego/zverif/vsync"
)

const (
	maxThreads = 8
	maxPoints  = 1 << 14
	maxLocks   = 64
)

const (
	opStart = 100 + iota
	opExit
	opYield // explicit scheduling point from a harness (e.g. file-system access)
)

// scheduler state; accessed only from //go:norace functions while a run is active
var st struct {
	active    bool
	n         int
	running   int
	remaining int
	pending   [maxThreads]int
	pobj      [maxThreads]uintptr
	finished  [maxThreads]bool

	nlocks  int
	lockObj [maxLocks]uintptr
	lockW   [maxLocks]int // writer thread or -1
	lockR   [maxLocks]int // reader count

	nprefix int
	prefix  [maxPoints]int16

	npoints  int
	chosen   [maxPoints]int8
	nEnabled [maxPoints]int8
	enabled  [maxPoints][maxThreads]int8
	runEn    [maxPoints]bool
	op       [maxPoints]int16

	ops      int
	deadlock bool
	diverged bool
	overflow bool
	foreign  bool

	wakeR [maxThreads + 1]int // index maxThreads = controller
	wakeW [maxThreads + 1]int
}

const ctl = maxThreads

//go:norace
func rawWrite1(fd int) {
	var b [1]byte
	for {
		r, _, e := syscall.Syscall(syscall.SYS_WRITE, uintptr(fd), uintptr(unsafe.Pointer(&b)), 1)
		if e == syscall.EINTR {
			continue
		}
		if r != 1 {
			panic("sched: pipe write failed")
		}
		return
	}
}

//go:norace
func rawRead1(fd int) {
	var b [1]byte
	for {
		r, _, e := syscall.Syscall(syscall.SYS_READ, uintptr(fd), uintptr(unsafe.Pointer(&b)), 1)
		if e == syscall.EINTR {
			continue
		}
		if e != 0 || r != 1 {
			panic("sched: pipe read failed")
		}
		return
	}
}

//go:norace
func lockIdx(obj uintptr) int {
	for i := 0; i < st.nlocks; i++ {
		if st.lockObj[i] == obj {
			return i
		}
	}
	if st.nlocks == maxLocks {
		st.overflow = true
		return 0
	}
	i := st.nlocks
	st.lockObj[i], st.lockW[i], st.lockR[i] = obj, -1, 0
	st.nlocks++
	return i
}

//go:norace
func isEnabled(t int) bool {
	if st.finished[t] {
		return false
	}
	switch st.pending[t] {
	case vsync.OpLock:
		l := lockIdx(st.pobj[t])
		return st.lockW[l] == -1 && st.lockR[l] == 0
	case vsync.OpRLock:
		return st.lockW[lockIdx(st.pobj[t])] == -1
	}
	return true
}

// decide picks the next thread to run (recording the point) and grants its pending
// operation in the lock model. It returns -1 on deadlock / divergence / overflow.
//
//go:norace
func decide() int {
	p := st.npoints
	if p >= maxPoints {
		st.overflow = true
		return -1
	}
	ne := 0
	st.runEn[p] = false
	if st.running >= 0 && isEnabled(st.running) {
		st.enabled[p][ne] = int8(st.running)
		ne++
		st.runEn[p] = true
	}
	for t := 0; t < st.n; t++ {
		if t != st.running && isEnabled(t) {
			st.enabled[p][ne] = int8(t)
			ne++
		}
	}
	if ne == 0 {
		st.deadlock = true
		return -1
	}
	c := 0
	if p < st.nprefix {
		c = int(st.prefix[p])
		if c < 0 || c >= ne {
			st.diverged = true
			return -1
		}
	}
	t := int(st.enabled[p][c])
	st.nEnabled[p], st.chosen[p], st.op[p] = int8(ne), int8(c), int16(st.pending[t])
	st.npoints++
	switch st.pending[t] {
	case vsync.OpLock:
		st.lockW[lockIdx(st.pobj[t])] = t
	case vsync.OpRLock:
		st.lockR[lockIdx(st.pobj[t])]++
	}
	st.running = t
	return t
}

// point is a scheduling point of the running thread.
//
//go:norace
func point(op int, obj uintptr) {
	t := st.running
	st.ops++
	st.pending[t], st.pobj[t] = op, obj
	next := decide()
	if next == t {
		return
	}
	if next < 0 {
		rawWrite1(st.wakeW[ctl]) // deadlock / divergence: hand control back to the controller
	} else {
		rawWrite1(st.wakeW[next])
	}
	rawRead1(st.wakeR[t]) // parked until some thread (or nobody, on deadlock) chooses us
}

// hook implements vsync.Scheduler.
type hook struct{}

//go:norace
func (hook) Before(op int, obj uintptr) {
	if !st.active {
		return
	}
	point(op, obj)
}

//go:norace
func (hook) After(op int, obj uintptr) {
	if !st.active {
		return
	}
	switch op {
	case vsync.OpUnlock:
		st.lockW[lockIdx(obj)] = -1
	case vsync.OpRUnlock:
		st.lockR[lockIdx(obj)]--
	}
}

// Yield is an explicit scheduling point for harness code (controlled threads only).
//
//go:norace
func Yield(obj uintptr) {
	if st.active {
		point(opYield, obj)
	}
}

//go:norace
func threadExit(t int) {
	st.finished[t] = true
	st.remaining--
	st.ops++
	if st.remaining == 0 {
		rawWrite1(st.wakeW[ctl])
		return
	}
	next := decide()
	if next < 0 {
		rawWrite1(st.wakeW[ctl])
		return
	}
	rawWrite1(st.wakeW[next])
}

//go:norace
func threadStart(t int) { rawRead1(st.wakeR[t]) }

//go:norace
func begin(n int, prefix []int) bool {
	st.n, st.running, st.remaining = n, -1, n
	st.nlocks, st.npoints, st.ops = 0, 0, 0
	st.deadlock, st.diverged, st.overflow, st.foreign = false, false, false, false
	for t := 0; t < n; t++ {
		st.pending[t], st.pobj[t], st.finished[t] = opStart, 0, false
	}
	if len(prefix) > maxPoints {
		return false
	}
	st.nprefix = len(prefix)
	for i := 0; i < len(prefix); i++ {
		st.prefix[i] = int16(prefix[i])
	}
	st.active = true
	return true
}

//go:norace
func kick() {
	next := decide()
	if next < 0 {
		return
	}
	rawWrite1(st.wakeW[next])
	rawRead1(st.wakeR[ctl]) // until the last thread exits, or deadlock/divergence
}

//go:norace
func end() { st.active = false }

//go:norace
func snapshot(r *Result) (deadlock, diverged, overflow bool, blocked [maxThreads]bool, np int, chosen, nEn []int8, en [][maxThreads]int8, runEn []bool, ops []int16, nops int) {
	for t := 0; t < st.n; t++ {
		blocked[t] = !st.finished[t]
	}
	return st.deadlock, st.diverged, st.overflow, blocked, st.npoints, st.chosen[:st.npoints], st.nEnabled[:st.npoints], st.enabled[:st.npoints], st.runEn[:st.npoints], st.op[:st.npoints], st.ops
}

var initOnce sync.Once

func initPipes() {
	initOnce.Do(func() {
		for i := 0; i <= maxThreads; i++ {
			var p [2]int
			if err := syscall.Pipe(p[:]); err != nil {
				panic(err)
			}
			st.wakeR[i], st.wakeW[i] = p[0], p[1]
		}
		vsync.S = hook{}
	})
}

// Point describes one scheduling decision.
type Point struct {
	Enabled        []int // thread ids in canonical order (running thread first if still enabled)
	Chosen         int   // index into Enabled
	RunningEnabled bool  // the previously running thread is Enabled[0]
	Op             int   // pending operation of the chosen thread
}

// Result of one controlled execution.
type Result struct {
	Points   []Point
	Choices  []int
	Deadlock bool
	Blocked  []int // threads blocked at deadlock
	Ops      int   // synchronisation operations announced
}

var panicValue [maxThreads]any

// Run executes the threads under the scheduler, following prefix and then always choice 0.
// An out-of-range choice in prefix is a hard error (replay divergence).
func Run(threads []func(), prefix []int) (res Result, err error) {
	if len(threads) > maxThreads {
		return res, fmt.Errorf("too many threads")
	}
	initPipes()
	n := len(threads)
	if !begin(n, prefix) {
		return res, fmt.Errorf("choice vector too long")
	}
	var wg sync.WaitGroup
	for i := 0; i < n; i++ {
		wg.Add(1)
		i := i
		go func() {
			defer wg.Done()
			threadStart(i)
			defer func() {
				// a panic in a thread must still release the others
				if r := recover(); r != nil {
					panicValue[i] = r
				}
				threadExit(i)
			}()
			threads[i]()
		}()
	}
	kick()
	end()
	deadlock, diverged, overflow, blocked, np, chosen, nEn, en, runEn, ops, nops := snapshot(&res)
	res.Ops = nops
	for p := 0; p < np; p++ {
		pt := Point{Chosen: int(chosen[p]), RunningEnabled: runEn[p], Op: int(ops[p])}
		for k := 0; k < int(nEn[p]); k++ {
			pt.Enabled = append(pt.Enabled, int(en[p][k]))
		}
		res.Points = append(res.Points, pt)
		res.Choices = append(res.Choices, pt.Chosen)
	}
	if diverged {
		return res, fmt.Errorf("replay diverged at point %d", np)
	}
	if overflow {
		return res, fmt.Errorf("scheduler table overflow (points=%d)", np)
	}
	if deadlock {
		res.Deadlock = true
		for t := 0; t < n; t++ {
			if blocked[t] {
				res.Blocked = append(res.Blocked, t)
			}
		}
		// blocked goroutines cannot be joined: they are leaked (the worker is recycled by the caller)
		return res, nil
	}
	wg.Wait() // real synchronisation: everything of this execution happens-before the next one
	for i := 0; i < n; i++ {
		if panicValue[i] != nil {
			v := panicValue[i]
			panicValue[i] = nil
			return res, fmt.Errorf("PANIC in thread %d: %v", i, v)
		}
	}
	return res, nil
}

// Preemptions counts the preemptions of an execution up to (not including) point i.
func Preemptions(points []Point, upto int) int {
	c := 0
	for i := 0; i < upto && i < len(points); i++ {
		if points[i].RunningEnabled && points[i].Chosen != 0 {
			c++
		}
	}
	return c
}
