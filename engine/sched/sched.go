// Package sched is a controlled scheduler for real goroutines with preemption-bounded
// exhaustive exploration (iterative context bounding). Every synchronisation operation of
// the vuego module reaches Before/After through the vsync seam. Hand-offs between the
// controller and the controlled goroutines are raw pipe syscalls issued from //go:norace
// functions, so they are invisible to the Go race detector: its happens-before graph only
// contains the edges the program's own synchronisation creates, while the interleaving is
// completely determined by the explorer.
package sched

import (
	"fmt"
	"sync"
	"syscall"
	"unsafe"

	"github.com/titpetric/vuego/zverif/vsync"
)

const maxThreads = 8

const (
	opStart = 100 + iota
	opExit
	opReleaseNote // a releasing operation took effect (no scheduling decision needed)
	opYield       // explicit scheduling point from a harness (e.g. file-system access)
)

// shared between controller and threads; accessed only from //go:norace functions
var (
	active  bool
	current int
	ctlR    int
	ctlW    int
	wakeR   [maxThreads]int
	wakeW   [maxThreads]int
)

//go:norace
func setCurrent(t int) { current = t }

//go:norace
func getCurrent() int { return current }

//go:norace
func setActive(a bool) { active = a }

//go:norace
func isActive() bool { return active }

//go:norace
func wakeFdR(t int) int { return wakeR[t] }

//go:norace
func wakeFdW(t int) int { return wakeW[t] }

//go:norace
func ctlFds() (int, int) { return ctlR, ctlW }

//go:norace
func rawWrite(fd int, b *[24]byte, n int) {
	for {
		r, _, e := syscall.Syscall(syscall.SYS_WRITE, uintptr(fd), uintptr(unsafe.Pointer(b)), uintptr(n))
		if e == syscall.EINTR {
			continue
		}
		if int(r) != n {
			panic("sched: short pipe write")
		}
		return
	}
}

//go:norace
func rawRead(fd int, b *[24]byte, n int) {
	got := 0
	for got < n {
		r, _, e := syscall.Syscall(syscall.SYS_READ, uintptr(fd), uintptr(unsafe.Pointer(&b[got])), uintptr(n-got))
		if e == syscall.EINTR {
			continue
		}
		if e != 0 || r == 0 {
			panic("sched: pipe read failed")
		}
		got += int(r)
	}
}

//go:norace
func putMsg(b *[24]byte, tid, op int, obj uintptr) {
	v := [3]uint64{uint64(tid), uint64(op), uint64(obj)}
	for i := 0; i < 3; i++ {
		for j := 0; j < 8; j++ {
			b[i*8+j] = byte(v[i] >> (8 * j))
		}
	}
}

//go:norace
func getMsg(b *[24]byte) (tid, op int, obj uintptr) {
	var v [3]uint64
	for i := 0; i < 3; i++ {
		for j := 0; j < 8; j++ {
			v[i] |= uint64(b[i*8+j]) << (8 * j)
		}
	}
	return int(v[0]), int(v[1]), uintptr(v[2])
}

// hook implements vsync.Scheduler.
type hook struct{}

// Before announces a blocking-capable or state-touching operation and waits to be scheduled.
//
//go:norace
func (hook) Before(op int, obj uintptr) {
	if !isActive() {
		return
	}
	tid := getCurrent()
	var b [24]byte
	putMsg(&b, tid, op, obj)
	_, w := ctlFds()
	rawWrite(w, &b, 24)
	rawRead(wakeFdR(tid), &b, 1)
}

// After notes that a releasing operation took effect.
//
//go:norace
func (hook) After(op int, obj uintptr) {
	if !isActive() {
		return
	}
	var b [24]byte
	putMsg(&b, getCurrent(), opReleaseNote+1000*op, obj)
	_, w := ctlFds()
	rawWrite(w, &b, 24)
}

// Yield is an explicit scheduling point for harness code (controlled threads only).
//
//go:norace
func Yield(obj uintptr) { hook{}.Before(opYield, obj) }

var initOnce sync.Once

func initPipes() {
	initOnce.Do(func() {
		mk := func() (int, int) {
			var p [2]int
			if err := syscall.Pipe(p[:]); err != nil {
				panic(err)
			}
			return p[0], p[1]
		}
		ctlR, ctlW = mk()
		for i := 0; i < maxThreads; i++ {
			wakeR[i], wakeW[i] = mk()
		}
		vsync.S = hook{}
	})
}

// Point describes one scheduling decision.
type Point struct {
	Enabled        []int // thread ids in canonical order (running thread first if still enabled)
	Chosen         int   // index into Enabled
	RunningEnabled bool  // the previously running thread is Enabled[0]
	Op             int   // pending operation of the chosen thread
}

// Result of one controlled execution.
type Result struct {
	Points   []Point
	Choices  []int
	Deadlock bool
	Blocked  []int // threads blocked at deadlock
	Ops      int   // synchronisation operations announced
}

type lockState struct {
	writer  int // -1 none
	readers int
}

// Run executes the threads under the scheduler, following prefix and then always choice 0.
// An out-of-range choice in prefix is a hard error (replay divergence).
func Run(threads []func(), prefix []int) (res Result, err error) {
	if len(threads) > maxThreads {
		return res, fmt.Errorf("too many threads")
	}
	initPipes()
	n := len(threads)
	pending := make([]int, n)  // pending op per thread
	pobj := make([]uintptr, n) // its object
	finished := make([]bool, n)
	locks := map[uintptr]*lockState{}
	lock := func(o uintptr) *lockState {
		l := locks[o]
		if l == nil {
			l = &lockState{writer: -1}
			locks[o] = l
		}
		return l
	}
	var wg sync.WaitGroup
	setActive(true)
	defer setActive(false)
	for i := 0; i < n; i++ {
		pending[i] = opStart
		wg.Add(1)
		i := i
		go func() {
			defer wg.Done()
			var b [24]byte
			rawRead(wakeFdR(i), &b, 1) // start gate
			defer func() {
				// a panic in a thread must still release the controller
				if r := recover(); r != nil {
					panicValue[i] = r
				}
				putMsg(&b, i, opExit, 0)
				_, w := ctlFds()
				rawWrite(w, &b, 24)
			}()
			threads[i]()
		}()
	}
	running := -1
	remaining := n
	enabled := func(t int) bool {
		if finished[t] {
			return false
		}
		switch pending[t] {
		case vsync.OpLock:
			l := lock(pobj[t])
			return l.writer == -1 && l.readers == 0
		case vsync.OpRLock:
			return lock(pobj[t]).writer == -1
		}
		return true
	}
	step := 0
	for remaining > 0 {
		var en []int
		runEn := false
		if running >= 0 && enabled(running) {
			en = append(en, running)
			runEn = true
		}
		for t := 0; t < n; t++ {
			if t != running && enabled(t) {
				en = append(en, t)
			}
		}
		if len(en) == 0 {
			res.Deadlock = true
			for t := 0; t < n; t++ {
				if !finished[t] {
					res.Blocked = append(res.Blocked, t)
				}
			}
			// cannot join blocked goroutines: leak them (the worker process is recycled by the caller)
			return res, nil
		}
		c := 0
		if step < len(prefix) {
			c = prefix[step]
			if c < 0 || c >= len(en) {
				return res, fmt.Errorf("replay diverged at point %d: choice %d of %d enabled", step, c, len(en))
			}
		}
		t := en[c]
		res.Points = append(res.Points, Point{Enabled: en, Chosen: c, RunningEnabled: runEn, Op: pending[t]})
		res.Choices = append(res.Choices, c)
		step++
		// grant the pending operation in the model
		switch pending[t] {
		case vsync.OpLock:
			lock(pobj[t]).writer = t
		case vsync.OpRLock:
			lock(pobj[t]).readers++
		}
		running = t
		setCurrent(t)
		var b [24]byte
		rawWrite(wakeFdW(t), &b, 1)
		// wait for the next announcement of the running thread
		for {
			r, _ := ctlFds()
			rawRead(r, &b, 24)
			tid, op, obj := getMsg(&b)
			if tid != t {
				return res, fmt.Errorf("message from thread %d while %d is running: uncontrolled goroutine uses the engine", tid, t)
			}
			if op >= 1000 { // release note
				switch op / 1000 {
				case vsync.OpUnlock:
					lock(obj).writer = -1
				case vsync.OpRUnlock:
					lock(obj).readers--
				}
				continue
			}
			res.Ops++
			if op == opExit {
				finished[t] = true
				remaining--
			} else {
				pending[t], pobj[t] = op, obj
			}
			break
		}
	}
	wg.Wait() // real synchronisation: everything of this execution happens-before the next one
	for i := 0; i < n; i++ {
		if panicValue[i] != nil {
			v := panicValue[i]
			panicValue[i] = nil
			return res, fmt.Errorf("PANIC in thread %d: %v", i, v)
		}
	}
	return res, nil
}

var panicValue [maxThreads]any

// Preemptions counts the preemptions of an execution up to (not including) point i.
func Preemptions(points []Point, upto int) int {
	c := 0
	for i := 0; i < upto && i < len(points); i++ {
		if points[i].RunningEnabled && points[i].Chosen != 0 {
			c++
		}
	}
	return c
}

// Explore runs every schedule with at most bound preemptions. visit is called for every
// complete execution with the choice vector that produced it; returning false stops.
// It returns the number of executions and whether the exploration is complete.
func Explore(mk func() []func(), bound int, limit int, visit func(choices []int, r Result, err error) bool) (execs int, complete bool) {
	complete = true
	stop := false
	var rec func(prefix []int)
	rec = func(prefix []int) {
		if stop {
			return
		}
		if limit > 0 && execs >= limit {
			complete = false
			stop = true
			return
		}
		r, err := Run(mk(), prefix)
		execs++
		if !visit(append([]int(nil), r.Choices...), r, err) || err != nil || r.Deadlock {
			if err != nil || r.Deadlock {
				stop = true
			}
			return
		}
		for i := len(prefix); i < len(r.Points); i++ {
			p := r.Points[i]
			cost := Preemptions(r.Points, i)
			for alt := 1; alt < len(p.Enabled); alt++ {
				c := cost
				if p.RunningEnabled {
					c++ // switching away from a runnable thread is a preemption
				}
				if c > bound {
					continue
				}
				np := append(append([]int(nil), r.Choices[:i]...), alt)
				rec(np)
				if stop {
					return
				}
			}
		}
	}
	rec(nil)
	return execs, complete
}
